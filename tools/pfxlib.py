"""pfxlib.py - correspondence and oracle machinery shared by C01, C02 and C09.

Three executions of the same op script:
  Impl  = harness/pfx_ops.c linked against /repo's working tree (asserts on, ASan+UBSan)
  Model = extracted Pfx model (ocaml/driver.ml, `pfx model`)
  Spec  = extracted set/RFC-6811 spec (`pfx spec`)
Impl vs Model is the tie (exact, ordered); Impl vs Spec is the property oracle (canonicalised).
"""
import os

import vlib

W = {"4": 32, "6": 128}


# ---------------------------------------------------------------------------
# generators
# ---------------------------------------------------------------------------
def rand_bits(rnd, n):
    return "".join(rnd.choice("01") for _ in range(n))


def mk_prefix(base, ln, w):
    return base[:ln] + "0" * (w - ln)


def key_pool(rnd, fam, deep=False):
    """(bits, len) keys aimed at the proof's case splits: nested chains, siblings differing in one
    bit, equal lengths, /0 and /W."""
    w = W[fam]
    base = rand_bits(rnd, w)
    keys = []
    if deep:
        lens = list(range(0, w + 1))
    elif rnd.random() < 0.3:
        # lengths at the 8-bit / 32-bit word boundaries of the address (where the C's word arithmetic changes case)
        edge = [0, 1, 7, 8, 9, 15, 16, 17, 23, 24, 25, 30, 31, 32] if w == 32 else \
               [0, 1, 31, 32, 33, 63, 64, 65, 95, 96, 97, 126, 127, 128]
        lens = sorted(set(rnd.choice(edge) for _ in range(rnd.randint(3, 10))))
    else:
        n = rnd.randint(3, 9)
        lens = sorted(set(rnd.choice([rnd.randint(0, w), rnd.randint(0, 8), rnd.randint(max(0, w - 4), w),
                                      rnd.randint(8, min(w, 32))]) for _ in range(n)))
    for ln in lens:
        keys.append((mk_prefix(base, ln, w), ln))
    # siblings: flip the last significant bit of some keys / branch off the chain
    for bits, ln in list(keys):
        if ln > 0 and rnd.random() < (0.15 if deep else 0.6):
            sib = bits[:ln - 1] + ("1" if bits[ln - 1] == "0" else "0") + bits[ln:]
            keys.append((sib, ln))
            if ln < w and rnd.random() < 0.5:
                ln2 = rnd.randint(ln, w)
                ext = sib[:ln] + rand_bits(rnd, ln2 - ln)
                keys.append((mk_prefix(ext, ln2, w), ln2))
    # an unrelated prefix of equal length (pull-up tie-break) now and then
    if rnd.random() < 0.5:
        ln = rnd.choice(keys)[1]
        keys.append((mk_prefix(rand_bits(rnd, w), ln, w), ln))
    out = []
    for k in keys:
        if k not in out:
            out.append(k)
    return base, out


ASNS = [0, 1, 2, 65000, 4294967295]
# AS numbers spread over the whole 32-bit range: signed / subtracting comparisons order them cyclically
WIDE_ASNS = [64512, 2100000000, 2147483647, 2147483648, 4200000000, 4294967295]


def record_pool(rnd, fam, keys, nsrc):
    w = W[fam]
    recs = []
    for bits, ln in keys:
        for _ in range(rnd.randint(1, 3)):
            mx = rnd.choice([ln, ln, min(w, ln + 1), w, rnd.randint(ln, w), max(0, ln - 1), 255])
            recs.append((fam, bits, ln, mx, rnd.choice(ASNS), rnd.randint(0, nsrc)))      # source 0 = no socket (NULL)
    # one node that holds many records: the same prefix / max length / source for AS numbers far apart
    if keys:
        bits, ln = rnd.choice(keys)
        src = rnd.randint(0, nsrc)
        fam_as = rnd.sample(WIDE_ASNS, rnd.randint(3, len(WIDE_ASNS)))
        for a in fam_as:
            r = (fam, bits, ln, ln, a, src)
            if r not in recs:
                recs.append(r)
    return recs


def fmt(rec):
    return "%s %s %d %d %d %d" % rec


def queries_for(rnd, fam, base, recs, tab=0):
    """Queries generated from the stored records: each record's prefix at len-1, len, len+1, max,
    max+1, W; last bit flipped; every AS in the table, AS 0 and an absent AS."""
    w = W[fam]
    out = []
    asns = sorted(set(r[4] for r in recs)) + [0, 7]
    for (f, bits, ln, mx, asn, src) in recs:
        for ql in sorted(set([max(0, ln - 1), ln, min(w, ln + 1), min(w, mx), min(w, mx + 1), w])):
            for qb in (base, bits, bits[:max(0, ql - 1)] + ("1" if ql and bits[ql - 1] == "0" else "0") + bits[ql:]):
                q = qb[:w]
                out.append("val %d %s %s %d %d" % (tab, fam, q, ql, rnd.choice(asns)))
    rnd.shuffle(out)
    return out


def gen_history(rnd, nops=40, nsrc=3, deep=False, fam=None, nq=30):
    """One history on table 0: adds/removes/src-removes interleaved with validations, then a listing
    and a block of record-derived queries."""
    fam = fam or rnd.choice("46")
    base, keys = key_pool(rnd, fam, deep)
    if nops >= 150 and not deep:
        # wide trie: several unrelated chains
        for _ in range(rnd.randint(2, 6)):
            _b, more = key_pool(rnd, fam, False)
            keys += [k for k in more if k not in keys]
    pool = record_pool(rnd, fam, keys, nsrc)
    present = []
    lines = []
    n = nops if not deep else len(pool) + 10
    if deep:
        order = list(pool)
        rnd.shuffle(order)
    for i in range(n):
        x = rnd.random()
        if deep and order:
            r = order.pop()
            lines.append("add 0 " + fmt(r))
            if r not in present:
                present.append(r)
        elif x < 0.55 or not present:
            r = rnd.choice(pool)
            lines.append("add 0 " + fmt(r))
            if r not in present:
                present.append(r)
        elif x < 0.78:
            r = rnd.choice(present) if rnd.random() < 0.8 else rnd.choice(pool)
            lines.append("del 0 " + fmt(r))
            if r in present:
                present.remove(r)
        elif x < 0.83:
            s = rnd.randint(0, nsrc)
            lines.append("srcdel 0 %d" % s)
            present = [r for r in present if r[5] != s]
        elif x < 0.88:
            lines.append("list 0")
        else:
            qs = queries_for(rnd, fam, base, present or pool[:2])
            lines += qs[:2]
    if deep:
        # the chain is complete now: operations aimed at its longest prefixes (nodes at the maximum depth): the same
        # record again, the same prefix for another AS / source, removal and re-insertion
        w = 32 if fam == "4" else 128
        longest = sorted(present, key=lambda r: -r[2])[:3]
        for r in longest:
            lines.append("add 0 " + fmt(r))
            other = r[:4] + ((r[4] + 1) % (1 << 32), r[5])
            lines.append("add 0 " + fmt(other))
            lines.append("del 0 " + fmt(r))
            lines.append("del 0 " + fmt(r))
            lines.append("add 0 " + fmt(r))
            lines.append("del 0 " + fmt(other))
            if r not in present:
                present.append(r)
    lines.append("list 0")
    qs = queries_for(rnd, fam, base, present or pool[:3])
    lines += qs[:nq]
    return lines


def gen_hostbits_history(rnd, nops=40, nsrc=3):
    """Records whose address has bits set BEHIND the prefix length (10.0.0.1/8 next to 10.0.0.0/8): the table API takes them (the wire
    no longer does, /repo a7ff099) and keeps them as distinct records.  Outside the domain of the Coq theorems (op_ok: zero host bits)
    and of RFC 6811, so these histories carry no validation queries: contents, result codes and callbacks only.  Few variants per
    prefix and short prefixes: every such record sits one trie level deeper than the last, and the depth must stay below the width."""
    fam = rnd.choice("46")
    w = W[fam]
    pool = []
    for _ in range(rnd.randint(1, 3)):
        ln = rnd.randint(0, 12)
        base = rand_bits(rnd, ln)
        for _v in range(rnd.randint(2, 5)):
            tail = "".join(rnd.choice("0001") for _ in range(w - ln))
            if rnd.random() < 0.4:
                tail = "0" * (w - ln - 1) + "1"
            for _r in range(rnd.randint(1, 2)):
                rec = (fam, base + tail, ln, rnd.choice([ln, w]), rnd.choice(ASNS), rnd.randint(0, nsrc))
                if rec not in pool:
                    pool.append(rec)
    lines, present = [], []
    for _ in range(nops):
        x = rnd.random()
        if x < 0.5 or not present:
            r = rnd.choice(pool)
            lines.append("add 0 " + fmt(r))
            if r not in present:
                present.append(r)
        elif x < 0.85:
            r = rnd.choice(present) if rnd.random() < 0.8 else rnd.choice(pool)
            lines.append("del 0 " + fmt(r))
            if r in present:
                present.remove(r)
        elif x < 0.92:
            sid = rnd.randint(0, nsrc)
            lines.append("srcdel 0 %d" % sid)
            present = [r for r in present if r[5] != sid]
        else:
            lines.append("list 0")
    lines.append("list 0")
    return lines


def gen_reload_history(rnd, nsrc=3):
    """History that ends like packets.c's atomic reload: copy_except into the callback-less table 1,
    apply a new data set for source s there, swap, notify_diff, free the old table."""
    fam = rnd.choice("46")
    base, keys = key_pool(rnd, fam)
    pool = record_pool(rnd, fam, keys, nsrc)
    fam2 = "6" if fam == "4" else "4"
    base2, keys2 = key_pool(rnd, fam2)
    pool += record_pool(rnd, fam2, keys2[:4], nsrc)
    lines = []
    for r in rnd.sample(pool, min(len(pool), rnd.randint(3, 14))):
        lines.append("add 0 " + fmt(r))
    if rnd.random() < 0.4:
        lines.append("del 0 " + fmt(rnd.choice(pool)))
    s = rnd.randint(1, nsrc)
    lines.append("list 0")
    lines.append("copyx 0 1 %d" % s)
    newset = [r[:5] + (s,) for r in rnd.sample(pool, min(len(pool), rnd.randint(0, 10)))]
    for r in newset:
        lines.append("add 1 " + fmt(r))
    lines += ["swap", "diff 0 1 %d" % s, "list 0", "list 1", "free 1"]
    if rnd.random() < 0.5:
        lines.append("srcdel 0 %d" % rnd.randint(1, nsrc))
    lines += ["list 0", "free 0", "list 0"]
    return lines


# ---------------------------------------------------------------------------
# running
# ---------------------------------------------------------------------------
_EXE = {}


def impl_exe():
    if "impl" not in _EXE:
        _EXE["impl"] = vlib.build_harness("pfx_ops", os.path.join(vlib.VERIF, "harness", "pfx_ops.c"), san="asan")
    return _EXE["impl"]


def model_exe():
    if "model" not in _EXE:
        _EXE["model"] = vlib.build_model()
    return _EXE["model"]


def run_impl(lines, timeout=300):
    rc, out = vlib.run_lines(impl_exe(), "\n".join(lines) + "\n", env=vlib.san_env(), timeout=timeout)
    res = [l for l in out if l != ""]
    # sanitizer / assert chatter goes to the same pipe: keep only well-formed result lines, in order
    good = []
    for l in res:
        if "|" in l or l.startswith("MARK") or l.startswith("??"):
            good.append(l)
        else:
            break
    diag = "\n".join(res[len(good):][:40])
    return rc, good, diag


def run_model(lines, mode="model", hz=("0", "0"), timeout=300):
    rc, out = vlib.run_lines(model_exe(), "\n".join(lines) + "\n", args=["pfx", mode] + list(hz), timeout=timeout)
    return rc, [l for l in out if l != ""]


def split(line):
    p = line.split("|")
    return [x.strip() for x in p]


def canon(line):
    p = split(line)
    return [p[0]] + [" ".join(sorted(x.split())) for x in p[1:]]


class Outcome:
    def __init__(self):
        self.tie_fail = None      # (index, impl, model)
        self.spec_fail = None     # (index, what, impl, spec)
        self.drift = 0
        self.crash = None         # (index, diag)
        self.model_ub = None
        self.stats = {}


def check_script(lines, want_cb_replay=True, hz=("0", "0")):
    """Run one script on the three sides and compare. Returns Outcome."""
    o = Outcome()
    rc_i, impl, diag = run_impl(lines)
    _, model = run_model(lines, "model", hz)
    _, spec = run_model(lines, "spec")
    n = len(lines)
    ub_at = next((i for i, l in enumerate(model) if l == "UB" or l == "OUT_OF_FUEL"), None)
    if len(impl) < n:
        o.crash = (len(impl), diag[-2000:])
    limit = min(len(impl), n)
    if ub_at is not None:
        o.model_ub = ub_at
        limit = min(limit, ub_at)
    # crash / UB agreement is part of the tie
    if o.crash is not None and (ub_at is None or ub_at != o.crash[0]):
        o.tie_fail = (o.crash[0], "CRASH: " + diag[-600:], model[o.crash[0]] if o.crash[0] < len(model) else "<none>")
    if ub_at is not None and (o.crash is None or o.crash[0] != ub_at) and o.tie_fail is None and len(impl) > ub_at:
        o.tie_fail = (ub_at, impl[ub_at], "UB")
    cbset = set()       # replay of Impl's callbacks for table 0
    cb_err = None
    for i in range(limit):
        a, m, s = impl[i], model[i] if i < len(model) else "<none>", spec[i] if i < len(spec) else "<none>"
        if a != m:
            if canon(a) == canon(m):
                o.drift += 1
            elif o.tie_fail is None:
                o.tie_fail = (i, a, m)
        pa, ps = split(a), split(s)
        cmd = lines[i].split()[0]
        if cmd in ("add", "del", "srcdel", "copyx"):
            if pa[0] != ps[0] and o.spec_fail is None:
                o.spec_fail = (i, "result code", a, s)
        if cmd == "list":
            if sorted(pa[1].split()) != ps[1].split() and o.spec_fail is None:
                o.spec_fail = (i, "contents differ from the set", a, s)
            if len(set(pa[1].split())) != len(pa[1].split()) and o.spec_fail is None:
                o.spec_fail = (i, "record enumerated twice", a, s)
        if cmd == "val":
            reasons = pa[1].split() if len(pa) > 1 else []
            cov = ps[1].split() if len(ps) > 1 else []
            mat = ps[2].split() if len(ps) > 2 else []
            bad = None
            if pa[0] != ps[0]:
                bad = "validation state"
            elif pa[0] == "NOT_FOUND" and reasons:
                bad = "NOT_FOUND with reasons"
            elif pa[0] == "INVALID" and sorted(reasons) != cov:
                bad = "INVALID reasons are not exactly the covering records"
            elif pa[0] == "VALID" and (not set(reasons) <= set(cov) or not (set(reasons) & set(mat)) or len(set(reasons)) != len(reasons)):
                bad = "VALID reasons not covering / no matching one / repeated"
            if bad and o.spec_fail is None:
                o.spec_fail = (i, bad, a, s)
        if cmd == "diff" and want_cb_replay:
            if sorted(pa[1].split()) != ps[1].split() and o.spec_fail is None:
                o.spec_fail = (i, "reload diff callbacks are not the net difference", a, s)
        # callback replay (table 0 is the only one with a callback)
        if want_cb_replay and len(pa) > 1 and cmd in ("add", "del", "srcdel", "free", "diff") and \
                (cmd == "diff" or lines[i].split()[1] == "0"):
            for c in pa[1].split():
                if c[0] == "+":
                    if c[1:] in cbset and cb_err is None:
                        cb_err = (i, "callback reports the addition of a record that was already there", a, c)
                    cbset.add(c[1:])
                else:
                    if c[1:] not in cbset and cb_err is None:
                        cb_err = (i, "callback reports the removal of a record that was not there", a, c)
                    cbset.discard(c[1:])
        if want_cb_replay and cmd == "swap":
            # contents of table 0 change without callbacks; the diff that follows accounts for it
            pass
        if want_cb_replay and cmd == "list" and lines[i].split()[1] == "0" and cb_err is None:
            # after a swap the replayed set is only required to match once the diff has been reported
            pending_swap = any(l.startswith("swap") for l in lines[:i]) and not any(l.startswith("diff") for l in lines[:i])
            if not pending_swap and sorted(cbset) != sorted(pa[1].split()):
                cb_err = (i, "replaying the callbacks does not reproduce the table contents", a, " ".join(sorted(cbset)))
    if cb_err and o.spec_fail is None:
        o.spec_fail = cb_err
    o.stats = {"ops": n, "answered": len(impl)}
    return o


def ddmin(lines, failing, budget=120):
    """Greedy delta debugging over script lines; `failing(lines)` -> bool."""
    cur = list(lines)
    chunk = max(1, len(cur) // 2)
    runs = 0
    while chunk >= 1 and runs < budget:
        i = 0
        shrunk = False
        while i < len(cur) and runs < budget:
            cand = cur[:i] + cur[i + chunk:]
            runs += 1
            if cand and failing(cand):
                cur = cand
                shrunk = True
            else:
                i += chunk
        if not shrunk:
            chunk //= 2
    return cur


def classify_shape(lines):
    """Coarse shape features of a history, for the evidence distribution."""
    adds = sum(1 for l in lines if l.startswith("add"))
    dels = sum(1 for l in lines if l.startswith("del"))
    srcdels = sum(1 for l in lines if l.startswith("srcdel"))
    vals = sum(1 for l in lines if l.startswith("val"))
    lens = set()
    for l in lines:
        p = l.split()
        if p[0] == "add":
            lens.add(int(p[4]))
    return {"adds": adds, "dels": dels, "srcdels": srcdels, "vals": vals, "distinct_lengths": len(lens),
            "has_len0": 0 in lens, "reload": any(l.startswith("swap") for l in lines)}
