#!/usr/bin/env python3
"""check.py <id> quick|thorough   |   check.py <id> --replay <path>

Dispatches to tools/props/<id>.py, which implements run(check) / replay(path).
Exit 0: property held on everything explored (known findings are printed);
exit 1: a line `VIOLATION property=<id> replay=<path>` was printed."""
import importlib
import os
import sys
import traceback

sys.path.insert(0, os.path.dirname(os.path.abspath(__file__)))
import vlib  # noqa: E402


def main():
    if len(sys.argv) < 2:
        print(__doc__)
        return 2
    pid = sys.argv[1]
    mod = importlib.import_module("props." + pid)
    if len(sys.argv) >= 4 and sys.argv[2] == "--replay":
        return mod.replay(sys.argv[3])
    tier = sys.argv[2] if len(sys.argv) > 2 else os.environ.get("VERIF_TIER", "quick")
    if tier not in ("quick", "thorough"):
        tier = "quick"
    os.environ["VERIF_TIER"] = tier
    chk = vlib.Check(pid, tier)
    try:
        mod.run(chk)
    except vlib.BuildError as e:
        # the harness or the model no longer builds against /repo: the tie is broken
        chk.notes.append("build error: " + str(e)[-1500:])
        chk.violation({"kind": "build-error", "detail": str(e)[-3000:]}, no_input=True, tag="%s-build" % vlib.seed())
    except Exception:  # noqa: BLE001
        tb = traceback.format_exc()
        print(tb, file=sys.stderr)
        chk.notes.append("internal error: " + tb[-1500:])
        chk.violation({"kind": "internal-error", "detail": tb[-3000:]}, no_input=True, tag="%s-internal" % vlib.seed())
    return chk.finish(level=getattr(mod, "LEVEL", "proof"))


if __name__ == "__main__":
    sys.exit(main())
