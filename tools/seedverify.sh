#!/bin/sh
# seedverify.sh <id> <worktree-with-change> <outdir> [check ids...]
# Confirms a seeded change the way DESIGN 9.5 requires (compiles, suite unchanged, demo fails with / passes without),
# then runs the given checks (default: the property's own) against the changed worktree.  Prints a summary.
id=$1; wt=$2; out=$3; shift 3
checks=${*:-$(echo $id | cut -c1-3)}
cd $wt || exit 2
mkdir -p ${SEEDLOGS:-/tmp/seedlogs}
git diff -- rtrlib third-party > $out/patch.diff
echo "== patch: $(grep -c '^[+-][^+-]' $out/patch.diff) changed lines in $(grep '^+++ ' $out/patch.diff | sed 's/+++ b\///' | tr '\n' ' ')"
(cmake -G Ninja -B _build -DCMAKE_BUILD_TYPE=Debug -DUNIT_TESTING=ON >/dev/null 2>&1; cmake --build _build 2>&1 | tail -2) 
ctest --test-dir _build -j8 --timeout 900 2>&1 | grep -E "tests passed|Failed|\*\*\*" | tr '\n' ' '; echo
echo "== demo with change:"; sh $out/run.sh $wt >${SEEDLOGS:-/tmp/seedlogs}/$id.demo_with 2>&1; echo "rc=$? $(tail -1 ${SEEDLOGS:-/tmp/seedlogs}/$id.demo_with)"
git apply -R $out/patch.diff
echo "== demo without change:"; sh $out/run.sh $wt >${SEEDLOGS:-/tmp/seedlogs}/$id.demo_without 2>&1; echo "rc=$? $(tail -1 ${SEEDLOGS:-/tmp/seedlogs}/$id.demo_without)"
git apply $out/patch.diff
for c in $checks; do
  echo "== check $c against the change:"
  (cd /verif && VERIF_REPO=$wt VERIF_COV= timeout 3000 python3 tools/check.py $c quick > ${SEEDLOGS:-/tmp/seedlogs}/$id.check_$c 2>&1; echo "rc=$?"; grep -E "VIOLATION|^\[C" ${SEEDLOGS:-/tmp/seedlogs}/$id.check_$c | head -8)
done
