#!/usr/bin/env python3
"""c2v.py - translate a small, explicitly delimited part of /repo's C into Gallina.

Output: coq/theories/Gen/Generated.v (rewritten only if its text changes).

What is emitted (and nothing else):
  * every enumerator of the listed enums, as (name, Z) lists and as constants;
  * #define constants and struct sizes, read from a probe program compiled from /repo;
  * constant name tables (designated-initialiser arrays of string literals);
  * leaf functions in a restricted C subset (see `Tr`), with C integer semantics made explicit:
    wrap-around by type, undefined shifts / failing asserts / out-of-range table reads = None;
  * lock skeletons of the public functions of trie-pfx.c and ht-spkitable.c - written to a SEPARATE file,
    coq/theories/Gen/LockSkeletons.v (imported only by Conc/*.v and Props/Properties_C16.v / _C06.v), so that a
    problem there cannot break the rest of the development.  VERIF_SKEL_OUT=<path> writes only that file, to <path>.
  * functions that WRITE a byte buffer through pointers (memory mode with stores, class TrMemW; vocabulary
    Base/MemW.v) - written to coq/theories/Gen/GeneratedMemW.v (imported by Rtr/FooterTie.v), again a separate file
    so that GeneratedMem.v does not change.  `c2v.py --only-memw [path]` writes only that file.
  * the control skeleton of the RTR client state machine (rtr_purge_outdated_records, rtr_wait_for_sync, one iteration
    of the loop of rtr_fsm_start) as effect trees over the calls of functions that are not translated (effect mode,
    class TrEff; vocabulary Base/Eff.v) - written to coq/theories/Gen/GeneratedFsm.v (imported by Rtr/FsmTie.v).
    `c2v.py --only-fsm [path]` writes only that file.
  * second stage of the same (class TrEff2: buffer parameters, switch, do-while by fuel, input buffers): rtr_sync,
    rtr_handle_error_pdu, rtr_handle_cache_response_pdu, rtr_set_last_update, rtr_stop - written to
    coq/theories/Gen/GeneratedFsm2.v (imported by Rtr/FsmTie2.v).  `c2v.py --only-fsm2 [path]` writes only that file.
  * third stage (class TrEff3: written buffer parameter, local structs as memory objects, memcpy, goto to a top-level
    label, externals writing into the buffer): rtr_receive_pdu - written to coq/theories/Gen/GeneratedFsm3.v (imported
    by Rtr/FsmTie3.v; vocabulary Base/EffMem.v).  `c2v.py --only-fsm3 [path]` writes only that file.
A construct outside the subset makes the function come out as `<f>_untranslated`, which breaks
the Coq files that mention `<f>_gen` - a broken tie, handled by the checks.
"""
import json
import os
import re
import subprocess
import sys

sys.path.insert(0, os.path.dirname(os.path.abspath(__file__)))
sys.path.insert(1, "/verif/tools")   # a copy of this file kept elsewhere still finds vlib
import vlib  # noqa: E402

REPO = vlib.REPO
OUT = os.path.join(vlib.THEORIES, "Gen", "Generated.v")
SKEL_OUT = os.path.join(vlib.THEORIES, "Gen", "LockSkeletons.v")


# ---------------------------------------------------------------------------
# clang AST access
# ---------------------------------------------------------------------------
_TREE_KEY = [None]


def tree_key():
    """hash of every .c/.h file of the library: the key of the on-disk AST cache"""
    if _TREE_KEY[0] is None:
        import hashlib
        h = hashlib.sha256()
        for top in ("rtrlib", "third-party"):
            for d, _, fs in sorted(os.walk(os.path.join(REPO, top))):
                for f in sorted(fs):
                    if f.endswith((".c", ".h")):
                        h.update(os.path.join(d, f)[len(REPO):].encode())
                        h.update(open(os.path.join(d, f), "rb").read())
        _TREE_KEY[0] = h.hexdigest()[:24]
    return _TREE_KEY[0]


def ast_docs(cfile, filt):
    cdir = os.path.join(vlib.BUILD, "astcache", tree_key())
    cpath = os.path.join(cdir, re.sub(r"[^A-Za-z0-9_.]", "_", cfile + "--" + filt) + ".json")
    if os.path.exists(cpath):
        try:
            return json.load(open(cpath))
        except ValueError:
            pass
    docs = ast_docs_uncached(cfile, filt)
    os.makedirs(cdir, exist_ok=True)
    tmp = cpath + ".%d" % os.getpid()
    with open(tmp, "w") as f:
        json.dump(docs, f)
    os.replace(tmp, cpath)
    return docs


def ast_docs_uncached(cfile, filt):
    cmd = ["clang", "-fsyntax-only", "-std=gnu99", "-I" + REPO, "-I" + os.path.join(REPO, "third-party"),
           "-I" + vlib.ensure_config_h(), "-Xclang", "-ast-dump=json", "-Xclang", "-ast-dump-filter=" + filt,
           os.path.join(REPO, cfile)]
    p = subprocess.run(cmd, stdout=subprocess.PIPE, stderr=subprocess.PIPE, universal_newlines=True)
    data = p.stdout
    dec = json.JSONDecoder()
    i, docs = 0, []
    while i < len(data):
        while i < len(data) and data[i].isspace():
            i += 1
        if i >= len(data):
            break
        try:
            o, j = dec.raw_decode(data, i)
        except ValueError:
            break
        docs.append(o)
        i = j
    return docs


def inner(n):
    return [c for c in n.get("inner", []) if not c.get("kind", "").endswith("Comment") and not c.get("kind", "").endswith("Attr")]


def find_def(cfile, name, kind="FunctionDecl"):
    for d in ast_docs(cfile, name):
        if d.get("kind") == kind and d.get("name") == name:
            if kind == "FunctionDecl" and not any(c.get("kind") == "CompoundStmt" for c in d.get("inner", [])):
                continue
            return d
    return None


# ---------------------------------------------------------------------------
# enums
# ---------------------------------------------------------------------------
def const_value(n):
    """Evaluate a constant initialiser expression from the AST."""
    k = n.get("kind")
    if k == "ConstantExpr" and "value" in n:
        return int(n["value"])
    if k == "IntegerLiteral":
        return int(n["value"])
    if k in ("ImplicitCastExpr", "ParenExpr", "ConstantExpr", "CStyleCastExpr"):
        return const_value(inner(n)[0])
    if k == "UnaryOperator" and n.get("opcode") == "-":
        return -const_value(inner(n)[0])
    raise ValueError("enum initialiser " + str(k))


def enum_values(cfile, name):
    d = find_def(cfile, name, "EnumDecl")
    if d is None:
        raise ValueError("enum %s not found in %s" % (name, cfile))
    res, nxt = [], 0
    for c in inner(d):
        if c.get("kind") != "EnumConstantDecl":
            continue
        ins = inner(c)
        v = const_value(ins[0]) if ins else nxt
        res.append((c["name"], v))
        nxt = v + 1
    return res


# ---------------------------------------------------------------------------
# name tables
# ---------------------------------------------------------------------------
def string_table(cfile, name):
    d = find_def(cfile, name, "VarDecl")
    if d is None:
        raise ValueError("table %s not found" % name)
    m = re.search(r"\[(\d+)\]", d["type"]["qualType"])
    size = int(m.group(1))
    il = [c for c in inner(d) if c.get("kind") == "InitListExpr"][0]

    def lit(n):
        if n.get("kind") == "StringLiteral":
            return json.loads(n["value"])
        if n.get("kind") == "ImplicitValueInitExpr":
            return None
        ins = inner(n)
        if len(ins) == 1:
            return lit(ins[0])
        if n.get("kind") in ("IntegerLiteral",):
            return None
        raise ValueError("table element " + str(n.get("kind")))
    elems = [lit(c) for c in inner(il)]
    if "array_filler" in il:
        # clang lists explicit elements then a filler; without designator positions we cannot place holes
        raise ValueError("array filler in %s" % name)
    while len(elems) < size:
        elems.append(None)
    return elems


# ---------------------------------------------------------------------------
# probe program: macros and struct sizes as the compiler sees them
# ---------------------------------------------------------------------------
PROBE_MACROS = [
    "RTR_EXPIRATION_MIN", "RTR_EXPIRATION_MAX", "RTR_EXPIRATION_DEFAULT", "RTR_REFRESH_MIN", "RTR_REFRESH_MAX",
    "RTR_REFRESH_DEFAULT", "RTR_RETRY_MIN", "RTR_RETRY_MAX", "RTR_RETRY_DEFAULT", "RTR_MAX_PDU_LEN",
    "RTR_RECV_TIMEOUT", "RTR_SEND_TIMEOUT", "RTR_PROTOCOL_VERSION_0", "RTR_PROTOCOL_VERSION_1",
    "RTR_PROTOCOL_MIN_SUPPORTED_VERSION", "RTR_PROTOCOL_MAX_SUPPORTED_VERSION", "SKI_SIZE", "SPKI_SIZE",
    "TOMMY_HASHLIN_BIT", "TEMPORARY_PDU_STORE_INCREMENT_VALUE", "MAX_SUPPORTED_PDU_TYPE",
]
PROBE_STRUCTS = ["pdu_header", "pdu_cache_response", "pdu_serial_notify", "pdu_serial_query", "pdu_ipv4", "pdu_ipv6",
                 "pdu_error", "pdu_router_key", "pdu_reset_query", "pdu_end_of_data_v0", "pdu_end_of_data_v1"]


_RECORD_FIELDS = {}


def record_fields(cfile, tyname):
    """field names of `struct tyname` in declaration order (from clang's AST)"""
    if (cfile, tyname) not in _RECORD_FIELDS:
        fields = None
        for d in ast_docs(cfile, tyname):
            if d.get("kind") == "RecordDecl" and d.get("name") == tyname:
                fs = [c["name"] for c in inner(d) if c.get("kind") == "FieldDecl"]
                if fs:
                    fields = fs
        _RECORD_FIELDS[(cfile, tyname)] = fields
    return _RECORD_FIELDS[(cfile, tyname)]


def run_probe():
    src = os.path.join(vlib.BUILD, "probe.c")
    os.makedirs(vlib.BUILD, exist_ok=True)
    with open(src, "w") as f:
        f.write('#include "rtrlib/rtr/packets.c"\n#include "third-party/tommyds/tommyhashlin.h"\n#include <stdio.h>\n#include <stddef.h>\nint main(void){\n')
        for m in PROBE_MACROS:
            f.write(' printf("M %s %%lld\\n", (long long)(%s));\n' % (m, m))
        for s in PROBE_STRUCTS:
            f.write(' printf("S %s %%lld\\n", (long long)sizeof(struct %s));\n' % (s, s))
        for sname in PROBE_STRUCTS:
            for fld in record_fields("rtrlib/rtr/packets.c", sname) or []:
                f.write(' printf("O %s.%s %%lld\\n", (long long)offsetof(struct %s, %s));\n' % (sname, fld, sname, fld))
        f.write(' { unsigned x = 1; printf("E little_endian %d\\n", (int)*(unsigned char*)&x); }\n return 0; }\n')
    exe = vlib.build_harness("probe", src, includes_repo_c=("rtrlib/rtr/packets.c",), opt="-O0")
    rc, out = vlib.sh([exe], timeout=60)
    if rc != 0:
        raise ValueError("probe failed: " + out)
    vals = {}
    for line in out.split("\n"):
        p = line.split()
        if len(p) == 3 and p[2] != "missing":
            vals[(p[0], p[1])] = int(p[2])
    return vals


# ---------------------------------------------------------------------------
# restricted C -> Gallina
# ---------------------------------------------------------------------------
LOOP_UNROLL = 4


class Untranslatable(Exception):
    pass


INT_TYPES = {
    "uint8_t": (8, False), "unsigned char": (8, False), "uint16_t": (16, False), "unsigned short": (16, False),
    "uint32_t": (32, False), "unsigned int": (32, False), "uint64_t": (64, False), "unsigned long": (64, False),
    "int": (32, True), "int32_t": (32, True), "long": (64, True), "int64_t": (64, True), "char": (8, True),
    "signed char": (8, True), "short": (16, True), "int8_t": (8, True), "int16_t": (16, True), "_Bool": (1, False),
    "bool": (1, False), "tommy_uint32_t": (32, False), "size_t": (64, False), "time_t": (64, True),
    "tommy_uint64_t": (64, False), "tommy_hash_t": (32, False), "tommy_key_t": (32, False),
}


def int_type(q):
    q = q.replace("const ", "").replace("volatile ", "").strip()
    if q.startswith("enum "):
        return (32, False)   # gcc/clang: enums without negative enumerators are unsigned int
    if q in INT_TYPES:
        return INT_TYPES[q]
    return None


def gname(s):
    return "v_" + s


class Tr:
    """Translate one function. Expressions become (guards, Z-term); statements are translated in
    continuation-passing style into a term of type `option R`."""

    def __init__(self, fn, known, enums, sizes, tables, holes=()):
        self.fn = fn
        self.known = known        # name -> (param kinds, result kind) of already-translated functions
        self.enums = enums        # enumerator name -> value
        self.sizes = sizes
        self.tables = tables      # table name -> length
        self.holes = holes
        self.nholes = 0
        self.ptr_params = []
        self.struct_locals = set()
        self.locals = set()
        self.fresh = 0
        self.break_k = []         # continuations of the enclosing switch statements (what `break` jumps to)

    # -- types -------------------------------------------------------------
    def ty(self, n):
        q = (n.get("type") or {}).get("desugaredQualType") or (n.get("type") or {}).get("qualType", "")
        t = int_type(q)
        if t is None:
            t = int_type((n.get("type") or {}).get("qualType", ""))
        return t

    def wrap(self, n, term):
        t = self.ty(n)
        if t is None:
            raise Untranslatable("non-integer type %r" % (n.get("type"),))
        bits, signed = t
        if bits == 1:
            return "(b2z (z2b %s))" % term
        return "(%s %d %s)" % ("wraps" if signed else "wrapu", bits, term)

    # -- expressions ---------------------------------------------------------
    def lvalue_key(self, n):
        """Return (base variable, field key) for p->f, s.f, s.f[i] (constant i), p->f[i]."""
        k = n.get("kind")
        if k == "ParenExpr":
            return self.lvalue_key(inner(n)[0])
        if k == "MemberExpr":
            base = inner(n)[0]
            while base.get("kind") in ("ImplicitCastExpr", "ParenExpr"):
                base = inner(base)[0]
            if base.get("kind") == "DeclRefExpr":
                return base["referencedDecl"]["name"], n["name"]
            if base.get("kind") == "MemberExpr":
                b, key = self.lvalue_key(base)
                return b, key + "." + n["name"]
            raise Untranslatable("member base " + str(base.get("kind")))
        if k == "ArraySubscriptExpr":
            a, i = inner(n)
            while a.get("kind") in ("ImplicitCastExpr", "ParenExpr"):
                a = inner(a)[0]
            b, key = self.lvalue_key(a)
            g, it = self.expr(i)
            m = re.fullmatch(r"\(?(-?\d+)\)?", it)
            if not m or g:
                raise Untranslatable("non-constant array index in struct field")
            return b, "%s[%s]" % (key, m.group(1))
        raise Untranslatable("lvalue " + str(k))

    def cond(self, n):
        """Expression in boolean context -> (guards, bool-term)."""
        k = n.get("kind")
        if k in ("ParenExpr", "ImplicitCastExpr") and k == "ParenExpr":
            return self.cond(inner(n)[0])
        if k == "ImplicitCastExpr" and n.get("castKind") in ("IntegralToBoolean", "IntegralCast", "NoOp", "LValueToRValue") \
                and inner(n)[0].get("kind") in ("BinaryOperator", "UnaryOperator", "ParenExpr") \
                and inner(n)[0].get("opcode") in ("==", "!=", "<", ">", "<=", ">=", "&&", "||", "!", None):
            if inner(n)[0].get("kind") != "ParenExpr" or True:
                return self.cond(inner(n)[0])
        if k == "BinaryOperator" and n["opcode"] in ("==", "!=", "<", ">", "<=", ">="):
            a, b = inner(n)
            ga, ta = self.expr(a)
            gb, tb = self.expr(b)
            op = {"==": "(%s =? %s)", "!=": "(negb (%s =? %s))", "<": "(%s <? %s)", ">": "(%s >? %s)",
                  "<=": "(%s <=? %s)", ">=": "(%s >=? %s)"}[n["opcode"]]
            return ga + gb, op % (ta, tb)
        if k == "BinaryOperator" and n["opcode"] in ("&&", "||"):
            a, b = inner(n)
            ga, ta = self.cond(a)
            gb, tb = self.cond(b)
            # the right operand is evaluated only if needed: its guards are conditional
            if gb:
                need = ta if n["opcode"] == "&&" else "(negb %s)" % ta
                gb = ["(implb %s %s)" % (need, g) for g in gb]
            return ga + gb, "(%s %s %s)" % (ta, "&&" if n["opcode"] == "&&" else "||", tb)
        if k == "UnaryOperator" and n["opcode"] == "!":
            g, t = self.cond(inner(n)[0])
            return g, "(negb %s)" % t
        g, t = self.expr(n)
        return g, "(z2b %s)" % t

    def expr(self, n):
        """-> (guards: list of bool-terms that must hold, term : Z)."""
        k = n.get("kind")
        if k == "ParenExpr" or k == "ConstantExpr":
            return self.expr(inner(n)[0])
        if k == "IntegerLiteral":
            return [], "(%s)" % n["value"]
        if k == "CharacterLiteral":
            return [], "(%s)" % n["value"]
        if k == "CXXBoolLiteralExpr":
            return [], "(1)" if n.get("value") else "(0)"
        if k == "DeclRefExpr":
            rd = n["referencedDecl"]
            if rd["kind"] == "EnumConstantDecl":
                if rd["name"] not in self.enums:
                    raise Untranslatable("unknown enumerator " + rd["name"])
                return [], "(%d)" % self.enums[rd["name"]]
            if rd["name"] in self.locals:
                return [], gname(rd["name"])
            if ("M", rd["name"]) in self.sizes:
                return [], "c_" + rd["name"]
            raise Untranslatable("reference to non-local " + rd["name"])
        if k == "ImplicitCastExpr" or k == "CStyleCastExpr":
            ck = n.get("castKind")
            sub = inner(n)[0]
            if ck in ("LValueToRValue", "NoOp"):
                if sub.get("kind") in ("MemberExpr", "ArraySubscriptExpr"):
                    try:
                        b, key = self.lvalue_key(sub)
                        return [], '(sget "%s" %s)' % (key, gname(b))
                    except Untranslatable:
                        pass
                return self.expr(sub)
            if ck in ("IntegralCast", "IntegralToBoolean", "BooleanToSignedIntegral"):
                g, t = self.expr(sub)
                return g, self.wrap(n, t)
            if ck == "ToVoid":
                return self.expr(sub)
            raise Untranslatable("cast " + str(ck))
        if k in ("MemberExpr", "ArraySubscriptExpr"):
            b, key = self.lvalue_key(n)
            return [], '(sget "%s" %s)' % (key, gname(b))
        if k == "UnaryExprOrTypeTraitExpr" and n.get("name") == "sizeof":
            at = (n.get("argType") or {}).get("qualType")
            if at is None and inner(n):
                at = (inner(n)[0].get("type") or {}).get("qualType")
            m = re.fullmatch(r"struct (\w+)", at or "")
            if m and ("S", m.group(1)) in self.sizes:
                return [], "(%d)" % self.sizes[("S", m.group(1))]
            it = int_type(at or "")
            if it:
                return [], "(%d)" % (max(8, it[0]) // 8)
            m = re.fullmatch(r".*\*\s*(?:const\s*)?\[(\d+)\]", at or "")
            if m:
                return [], "(%d)" % (8 * int(m.group(1)))     # array of pointers (LP64)
            if re.sub(r"\bconst\b", "", at or "").rstrip().endswith("*"):
                return [], "(8)"
            raise Untranslatable("sizeof " + str(at))
        if k == "UnaryOperator":
            op = n["opcode"]
            g, t = self.expr(inner(n)[0])
            tt = self.ty(n)
            if op == "~":
                if tt and not tt[1]:
                    return g, "(notu %d %s)" % (tt[0], t)
                return g, "(- %s - 1)" % t
            if op == "-":
                return g, self.wrap(n, "(- %s)" % t) if tt and not tt[1] else "(- %s)" % t
            if op == "!":
                gc, tc = self.cond(inner(n)[0])
                return gc, "(b2z (negb %s))" % tc
            if op == "+":
                return g, t
            raise Untranslatable("unary " + op)
        if k == "BinaryOperator":
            op = n["opcode"]
            if op in ("==", "!=", "<", ">", "<=", ">=", "&&", "||"):
                g, t = self.cond(n)
                return g, "(b2z %s)" % t
            a, b = inner(n)
            if op == ",":
                raise Untranslatable("comma")
            ga, ta = self.expr(a)
            gb, tb = self.expr(b)
            tt = self.ty(n)
            if tt is None:
                raise Untranslatable("binary on non-integer")
            bits, signed = tt
            g = ga + gb
            if op in ("+", "-", "*"):
                raw = "(%s %s %s)" % (ta, op, tb)
                if signed:
                    return g + ["(in_s %d %s)" % (bits, raw)], raw
                return g, "(wrapu %d %s)" % (bits, raw)
            if op == "&":
                return g, "(Z.land %s %s)" % (ta, tb)
            if op == "|":
                return g, "(Z.lor %s %s)" % (ta, tb)
            if op == "^":
                return g, "(Z.lxor %s %s)" % (ta, tb)
            if op == ">>":
                if signed:
                    g = g + ["(0 <=? %s)" % ta]
                return g + ["(shift_ok %d %s)" % (bits, tb)], "(Z.shiftr %s %s)" % (ta, tb)
            if op == "<<":
                raw = "(Z.shiftl %s %s)" % (ta, tb)
                if signed:
                    return g + ["(shift_ok %d %s)" % (bits, tb), "(0 <=? %s)" % ta, "(in_s %d %s)" % (bits, raw)], raw
                return g + ["(shift_ok %d %s)" % (bits, tb)], "(wrapu %d %s)" % (bits, raw)
            if op in ("/", "%"):
                f = "Z.quot" if op == "/" else "Z.rem"
                return g + ["(negb (%s =? 0))" % tb], "(%s %s %s)" % (f, ta, tb)
            raise Untranslatable("binary " + op)
        if k == "ConditionalOperator":
            c, a, b = inner(n)
            gc, tc = self.cond(c)
            ga, ta = self.expr(a)
            gb, tb = self.expr(b)
            ga = ["(implb %s %s)" % (tc, g) for g in ga]
            gb = ["(implb (negb %s) %s)" % (tc, g) for g in gb]
            return gc + ga + gb, "(if %s then %s else %s)" % (tc, ta, tb)
        raise Untranslatable("expression " + str(k))

    # -- statements ----------------------------------------------------------
    def guarded(self, guards, body):
        for g in reversed(guards):
            body = "guard %s (%s)" % (g, body)
        return body

    def is_assert(self, n):
        return "__assert_fail" in json.dumps(n) and n.get("kind") in ("ParenExpr", "ConditionalOperator")

    def assert_cond(self, n):
        """condition node of an assert() expansion (glibc: statement expression with if/else __assert_fail;
        classic: (e) ? (void)0 : __assert_fail(...))."""
        k = n.get("kind")
        if k == "IfStmt":
            ins = inner(n)
            if "__assert_fail" in json.dumps(ins[-1]) and "__assert_fail" not in json.dumps(ins[0]):
                return ins[0]
        if k == "ConditionalOperator":
            c, a, b = inner(n)
            if "__assert_fail" in json.dumps(b) and "__assert_fail" not in json.dumps(c):
                return c
        for c in inner(n):
            if "__assert_fail" in json.dumps(c):
                r = self.assert_cond(c)
                if r is not None:
                    return r
        return None

    def callee(self, n):
        f = inner(n)[0]
        while f.get("kind") in ("ImplicitCastExpr", "ParenExpr"):
            f = inner(f)[0]
        if f.get("kind") == "DeclRefExpr":
            return f["referencedDecl"]["name"]
        return None

    def call_term(self, n):
        """call to an already translated function -> (guards, option-term)"""
        name = self.callee(n)
        if name not in self.known:
            raise Untranslatable("call to " + str(name))
        args = inner(n)[1:]
        g, ts = [], []
        for a in args:
            # pointer-to-struct argument: &x or p
            aa = a
            while aa.get("kind") in ("ImplicitCastExpr", "ParenExpr"):
                aa = inner(aa)[0]
            if aa.get("kind") == "UnaryOperator" and aa.get("opcode") == "&":
                tgt = inner(aa)[0]
                while tgt.get("kind") in ("ImplicitCastExpr", "ParenExpr"):
                    tgt = inner(tgt)[0]
                if tgt.get("kind") == "DeclRefExpr":
                    ts.append(gname(tgt["referencedDecl"]["name"]))
                    continue
                if tgt.get("kind") == "MemberExpr" and name in self.known and self.known[name][1] != "store":
                    # &s.f / &p->f handed to a callee that does not write through it: the sub-struct as a store
                    b, key = self.lvalue_key(tgt)
                    ts.append('(ssub "%s" %s)' % (key, gname(b)))
                    continue
                raise Untranslatable("address-of argument")
            ga, ta = self.expr(a)
            g += ga
            ts.append(ta)
        return g, "(%s_gen %s)" % (name, " ".join(ts))

    def stmts(self, lst, k):
        """lst: list of statement nodes; k: continuation (callable returning term) for fall-through."""
        if not lst:
            return k()
        s, rest = lst[0], lst[1:]
        kind = s.get("kind")
        nxt = lambda: self.stmts(rest, k)  # noqa: E731
        if kind == "CompoundStmt":
            return self.stmts(inner(s) + rest, k)
        if kind == "NullStmt":
            return nxt()
        if kind == "DeclStmt":
            decls = inner(s)
            body = None

            def chain(i):
                if i == len(decls):
                    return nxt()
                d = decls[i]
                if d.get("kind") != "VarDecl":
                    raise Untranslatable("decl " + str(d.get("kind")))
                q = d["type"].get("desugaredQualType", d["type"]["qualType"])
                ins = inner(d)
                self.locals.add(d["name"])
                if int_type(q) is None and int_type(d["type"]["qualType"]) is None:
                    if q.startswith("struct ") and not q.endswith("*"):
                        self.struct_locals.add(d["name"])
                        return "let %s : store := [] in\n%s" % (gname(d["name"]), chain(i + 1))
                    raise Untranslatable("local of type " + q)
                if not ins:
                    return "let %s := 0 in\n%s" % (gname(d["name"]), chain(i + 1))
                init = ins[0]
                ii = init
                while ii.get("kind") in ("ImplicitCastExpr", "ParenExpr"):
                    ii = inner(ii)[0]
                if ii.get("kind") == "CallExpr":
                    g, t = self.call_term(ii)
                    return self.guarded(g, "do %s <- %s;\n%s" % (gname(d["name"]), t, chain(i + 1)))
                g, t = self.expr(init)
                return self.guarded(g, "let %s := %s in\n%s" % (gname(d["name"]), t, chain(i + 1)))
            return chain(0)
        if kind == "ReturnStmt":
            ins = inner(s)
            if not ins:
                return self.ret(None)
            e = ins[0]
            ee = e
            while ee.get("kind") in ("ImplicitCastExpr", "ParenExpr"):
                if ee.get("kind") == "ImplicitCastExpr" and ee.get("castKind") not in ("LValueToRValue", "NoOp", "IntegralCast"):
                    break
                ee = inner(ee)[0]
            if e.get("kind") == "ImplicitCastExpr" and e.get("castKind") == "NullToPointer":
                return "Some None"
            # table read: return tbl[idx]
            if ee.get("kind") == "ArraySubscriptExpr":
                a, i = inner(ee)
                while a.get("kind") in ("ImplicitCastExpr", "ParenExpr"):
                    a = inner(a)[0]
                if a.get("kind") == "DeclRefExpr" and a["referencedDecl"]["name"] in self.tables:
                    g, t = self.expr(i)
                    return self.guarded(g, "tbl_get %s %s" % (a["referencedDecl"]["name"], t))
            if ee.get("kind") == "CallExpr":
                g, t = self.call_term(ee)
                return self.guarded(g, "do r__ <- %s; %s" % (t, self.ret("r__")))
            if ee.get("kind") == "DeclRefExpr" and ee["referencedDecl"]["name"] in self.struct_locals:
                return self.ret(gname(ee["referencedDecl"]["name"]))
            g, t = self.expr(e)
            return self.guarded(g, self.ret(t))
        if kind == "IfStmt":
            ins = inner(s)
            c, th = ins[0], ins[1]
            el = ins[2] if len(ins) > 2 else None
            g, tc = self.cond(c)
            js = json.dumps(s)
            if rest and self.may_join(s) and '"ReturnStmt"' not in js and '"BreakStmt"' not in js and '"SwitchStmt"' not in js:
                # no branch leaves the function: join the branches on the outer variables they assign,
                # so that the code after the `if` is emitted once
                outer = set(self.locals)
                assigned = []
                for m in re.finditer(r'"kind": "(?:BinaryOperator|CompoundAssignOperator|UnaryOperator)".*?"referencedDecl": \{[^}]*?"name": "(\w+)"', js):
                    pass
                def collect(n):
                    k = n.get("kind")
                    if k in ("BinaryOperator", "CompoundAssignOperator") and n.get("opcode", "").endswith("=") and n["opcode"] not in ("==", "!=", "<=", ">="):
                        lhs = inner(n)[0]
                        while lhs.get("kind") in ("ParenExpr",):
                            lhs = inner(lhs)[0]
                        if lhs.get("kind") == "DeclRefExpr":
                            nm = lhs["referencedDecl"]["name"]
                        else:
                            try:
                                nm = self.lvalue_key(lhs)[0]
                            except Untranslatable:
                                nm = None
                        if nm in outer and nm not in assigned:
                            assigned.append(nm)
                    if k == "UnaryOperator" and n.get("opcode") in ("++", "--"):
                        t = inner(n)[0]
                        if t.get("kind") == "DeclRefExpr" and t["referencedDecl"]["name"] in outer and t["referencedDecl"]["name"] not in assigned:
                            assigned.append(t["referencedDecl"]["name"])
                    if k == "CallExpr":
                        nm = self.callee(n)
                        if nm in self.known and self.known[nm][1] == "store" and len(inner(n)) > 1:
                            f0 = inner(n)[1]
                            while f0.get("kind") in ("ImplicitCastExpr", "ParenExpr"):
                                f0 = inner(f0)[0]
                            if f0.get("kind") == "DeclRefExpr" and f0["referencedDecl"]["name"] in outer and f0["referencedDecl"]["name"] not in assigned:
                                assigned.append(f0["referencedDecl"]["name"])
                    for ch in inner(n):
                        collect(ch)
                collect(th)
                if el is not None:
                    collect(el)
                tup = "(" + ", ".join(gname(v) for v in assigned) + ")" if len(assigned) != 1 else gname(assigned[0])
                if not assigned:
                    tup = "tt"
                kk = lambda: "Some %s" % tup  # noqa: E731
                saved = set(self.locals)
                a = self.stmts([th], kk)
                self.locals = set(saved)
                b = self.stmts([el], kk) if el is not None else kk()
                self.locals = set(saved)
                pat = tup if assigned else "_"
                return self.guarded(g, "do %s <- (if %s\nthen (%s)\nelse (%s));\n%s" % (pat, tc, a, b, nxt()))
            a = self.stmts([th], nxt)
            b = self.stmts([el], nxt) if el is not None else nxt()
            return self.guarded(g, "if %s\nthen (%s)\nelse (%s)" % (tc, a, b))
        if kind == "SwitchStmt":
            ins = inner(s)
            g, tx = self.expr(ins[0])
            body = ins[1]
            items = []     # flattened: ("case", value|None) | ("stmt", node)

            def flat(n):
                kk = n.get("kind")
                if kk == "CaseStmt":
                    cins = inner(n)
                    gv, tv = self.expr(cins[0])
                    items.append(("case", tv))
                    flat(cins[-1])
                elif kk == "DefaultStmt":
                    items.append(("case", None))
                    flat(inner(n)[-1])
                else:
                    items.append(("stmt", n))
            for c in inner(body):
                flat(c)

            def from_pos(p):
                seq = [it[1] for it in items[p:] if it[0] == "stmt"]
                # cut at the first break at top level
                out = []
                for st in seq:
                    if st.get("kind") == "BreakStmt":
                        return self.stmts(out, nxt)
                    out.append(st)
                return self.stmts(out, nxt)
            xv = "sw__%d" % self.fresh
            self.fresh += 1
            self.break_k.append(nxt)
            term, default_pos = None, None
            arms = []
            for p, it in enumerate(items):
                if it[0] == "case":
                    if it[1] is None:
                        default_pos = p
                    else:
                        arms.append((it[1], p))
            tail = from_pos(default_pos) if default_pos is not None else nxt()
            # consecutive labels share one body: group them
            term = tail
            for val, p in reversed(arms):
                term = "if (%s =? %s)\nthen (%s)\nelse (%s)" % (xv, val, from_pos(p), term)
            self.break_k.pop()
            return self.guarded(g, "let %s := %s in\n%s" % (xv, tx, term))
        if kind == "ForStmt":
            # for (init; cond; inc) body  with a small iteration count: unrolled LOOP_UNROLL times; if the condition still
            # holds after that the translated function gives up (None), so theorems about it cover only loops that end
            init, _cv, c, inc, body = (s.get("inner", []) + [{}] * 5)[:5]
            if '"ContinueStmt"' in json.dumps(body):
                raise Untranslatable("continue in a for loop")

            def rounds(n):
                g, tc = self.cond(c) if c.get("kind") else ([], "true")
                if n == 0:
                    return self.guarded(g, "if %s then None (* more than %d iterations *) else (%s)" % (tc, LOOP_UNROLL, nxt()))
                self.break_k.append(nxt)
                step = self.stmts([body] + ([inc] if inc.get("kind") else []), lambda: rounds(n - 1))
                self.break_k.pop()
                return self.guarded(g, "if %s\nthen (%s)\nelse (%s)" % (tc, step, nxt()))
            return self.stmts([init] if init.get("kind") else [], lambda: rounds(LOOP_UNROLL))
        if kind == "BreakStmt":
            # a break nested in an `if` of a switch arm: continue after the switch (rest of the arm is dropped)
            if self.break_k:
                return self.break_k[-1]()
            raise Untranslatable("break outside a switch")
        # expression statements
        if self.is_assert(s):
            c = self.assert_cond(s)
            if c is None:
                raise Untranslatable("assert shape")
            g, tc = self.cond(c)
            return self.guarded(g + [tc], nxt())
        if kind == "CallExpr":
            name = self.callee(s)
            if name in ("lrtr_dbg", "printf"):
                return nxt()
            if name == "memset":
                a0 = inner(s)[1]
                while a0.get("kind") in ("ImplicitCastExpr", "ParenExpr"):
                    a0 = inner(a0)[0]
                if a0.get("kind") == "UnaryOperator" and a0.get("opcode") == "&":
                    tgt = inner(a0)[0]
                    if tgt.get("kind") == "DeclRefExpr" and tgt["referencedDecl"]["name"] in self.struct_locals:
                        g1, v1 = self.expr(inner(s)[2])
                        if v1 == "(0)":
                            return "let %s : store := [] in\n%s" % (gname(tgt["referencedDecl"]["name"]), nxt())
                raise Untranslatable("memset shape")
            if name in self.known and self.known[name][1] == "store":
                # void function updating its first pointer argument
                g, t = self.call_term(s)
                first = inner(s)[1]
                while first.get("kind") in ("ImplicitCastExpr", "ParenExpr"):
                    first = inner(first)[0]
                if first.get("kind") == "DeclRefExpr":
                    return self.guarded(g, "do %s <- %s;\n%s" % (gname(first["referencedDecl"]["name"]), t, nxt()))
            raise Untranslatable("call statement to " + str(name))
        if kind in ("BinaryOperator", "CompoundAssignOperator"):
            op = s["opcode"]
            lhs, rhs = inner(s)
            if op == "=":
                rr = rhs
                while rr.get("kind") in ("ImplicitCastExpr", "ParenExpr"):
                    rr = inner(rr)[0]
                if rr.get("kind") == "CallExpr":
                    g, t = self.call_term(rr)
                    bind = "do tmp__ <- %s;\n" % t
                    val = "tmp__"
                else:
                    g, val = self.expr(rhs)
                    bind = ""
            else:
                bop = op[:-1]
                fake = {"kind": "BinaryOperator", "opcode": bop, "type": s.get("computeResultType", s.get("type")),
                        "inner": [self.rvalue_of(lhs), rhs]}
                g, val = self.expr(fake)
                val = self.wrap(s, val)
                bind = ""
            ll = lhs
            while ll.get("kind") == "ParenExpr":
                ll = inner(ll)[0]
            if ll.get("kind") == "DeclRefExpr":
                return self.guarded(g, "%slet %s := %s in\n%s" % (bind, gname(ll["referencedDecl"]["name"]), val, nxt()))
            b, key = self.lvalue_key(ll)
            lq = (ll.get("type") or {}).get("desugaredQualType") or (ll.get("type") or {}).get("qualType", "")
            if lq.startswith("struct ") and "*" not in lq:
                if not bind:
                    raise Untranslatable("struct-valued member assignment from a non-call")
                return self.guarded(g, '%slet %s := ssetsub "%s" %s %s in\n%s' % (bind, gname(b), key, val, gname(b), nxt()))
            return self.guarded(g, '%slet %s := sset "%s" %s %s in\n%s' % (bind, gname(b), key, val, gname(b), nxt()))
        if kind == "UnaryOperator" and s.get("opcode") in ("++", "--"):
            tgt = inner(s)[0]
            if tgt.get("kind") == "DeclRefExpr":
                v = gname(tgt["referencedDecl"]["name"])
                d = "+" if s["opcode"] == "++" else "-"
                return "let %s := %s in\n%s" % (v, self.wrap(tgt, "(%s %s 1)" % (v, d)), nxt())
        if kind in self.holes or True:
            raise Untranslatable("statement " + str(kind))

    def may_join(self, s):
        """may the branches of this `if` be joined on the variables they assign (memory mode with stores: no)"""
        return True

    def rvalue_of(self, lhs):
        return {"kind": "ImplicitCastExpr", "castKind": "LValueToRValue", "type": lhs.get("type"), "inner": [lhs]}

    def ret(self, term):
        rk = self.result_kind
        if rk == "store":
            return "Some %s" % gname(self.ptr_params[0])
        if rk == "store_local":
            return "Some %s" % term
        if rk == "Z+store":
            return "Some (%s, %s)" % (term, gname(self.ptr_params[0]))
        return "Some %s" % term

    # -- whole function ------------------------------------------------------
    def function(self, mutates=False):
        fn = self.fn
        params = [c for c in inner(fn) if c.get("kind") == "ParmVarDecl"]
        body = [c for c in inner(fn) if c.get("kind") == "CompoundStmt"][0]
        sig = []
        for p in params:
            self.locals.add(p["name"])
            q = p["type"].get("desugaredQualType", p["type"]["qualType"])
            if int_type(q) or int_type(p["type"]["qualType"]):
                sig.append("(%s : Z)" % gname(p["name"]))
            elif q.rstrip().endswith("*") or q.startswith("struct ") or q.startswith("const struct "):
                sig.append("(%s : store)" % gname(p["name"]))
                self.ptr_params.append(p["name"])
            else:
                raise Untranslatable("parameter type " + q)
        rq = fn["type"]["qualType"].split("(")[0].strip()
        if rq == "void":
            self.result_kind = "store"
            rty = "store"
        elif rq in ("const char *", "char *"):
            self.result_kind = "Z"
            rty = "(option string)"
        elif rq.startswith("struct "):
            self.result_kind = "store_local"
            rty = "store"
        elif int_type(rq):
            if mutates:
                self.result_kind = "Z+store"
                rty = "(Z * store)"
            else:
                self.result_kind = "Z"
                rty = "Z"
        else:
            raise Untranslatable("return type " + rq)
        # narrow parameters to their C types on entry (callers pass already-converted values, this is
        # the identity on in-range arguments and documents the domain)
        term = self.stmts([body], lambda: self.ret(None) if self.result_kind == "store" else "None (* falls off the end *)")
        return "Definition %s_gen %s : option %s :=\n%s.\n" % (fn["name"], " ".join(sig), rty, term), \
               ([("store" if p["name"] in self.ptr_params else "Z") for p in params], self.result_kind)


# ---------------------------------------------------------------------------
# memory mode: functions that read a byte buffer through pointers (Base/Mem.v)
# ---------------------------------------------------------------------------
# All pointer parameters and pointer locals of such a function point into ONE memory object `mem : list Z`
# (the bytes as they lie in memory); a pointer is `option Z` (offset, None = NULL).  Every load becomes
# `ldu / lds mem p size` under the guard `ld_ok mem p size` - a load outside the object, or through NULL, makes the
# translated function return None.  ntohl / htonl / ntohs / htons are byte swaps (little-endian host, checked by the
# probe).  Arguments of the debug printers are not evaluated (they have no side effects).  No stores.
BSWAP = {"ntohl": "bswap32", "htonl": "bswap32", "ntohs": "bswap16", "htons": "bswap16",
         "__bswap_32": "bswap32", "__bswap_16": "bswap16", "__builtin_bswap32": "bswap32", "__builtin_bswap16": "bswap16"}


def is_ptr_type(q):
    return bool(q) and q.replace("const", "").rstrip().endswith("*")


def pointee(q):
    return re.sub(r"\s*\*\s*(?:const\s*)?$", "", q.replace("const ", "")).strip()


class TrMem(Tr):
    def __init__(self, *a, **kw):
        Tr.__init__(self, *a, **kw)
        self.ptr_locals = set()

    def qt(self, n):
        t = n.get("type") or {}
        return t.get("desugaredQualType") or t.get("qualType", "")

    def elem_size(self, q):
        """size in bytes of what a pointer of type q points to (for pointer arithmetic)"""
        e = pointee(q)
        if e == "void":
            return 1            # GNU C
        it = int_type(e)
        if it:
            return max(8, it[0]) // 8
        m = re.fullmatch(r"struct (\w+)", e)
        if m and ("S", m.group(1)) in self.sizes:
            return self.sizes[("S", m.group(1))]
        raise Untranslatable("pointer arithmetic on " + q)

    def field_offset(self, n):
        """offset of the member named by MemberExpr n inside its struct"""
        base = inner(n)[0]
        bq = self.qt(base)
        sname = re.sub(r"^struct\s+", "", pointee(bq) if n.get("isArrow") else bq.replace("const ", "").strip())
        key = ("O", "%s.%s" % (sname, n.get("name")))
        if key not in self.sizes:
            raise Untranslatable("no offset for %s.%s" % (sname, n.get("name")))
        return "offsetof_%s__%s" % (sname, n.get("name"))

    def pexpr(self, n):
        """pointer-typed expression -> (guards, term : option Z)"""
        k = n.get("kind")
        if k in ("ParenExpr", "ConstantExpr"):
            return self.pexpr(inner(n)[0])
        if k in ("ImplicitCastExpr", "CStyleCastExpr"):
            ck = n.get("castKind")
            if ck == "NullToPointer":
                return [], "(@None Z)"
            if ck in ("BitCast", "NoOp", "LValueToRValue"):
                return self.pexpr(inner(n)[0])
            if ck == "ArrayToPointerDecay":
                return self.paddr(inner(n)[0])
            raise Untranslatable("pointer cast " + str(ck))
        if k == "DeclRefExpr":
            nm = n["referencedDecl"]["name"]
            if nm in self.ptr_locals:
                return [], gname(nm)
            raise Untranslatable("pointer " + nm)
        if k == "BinaryOperator" and n.get("opcode") in ("+", "-"):
            a, b = inner(n)
            if not is_ptr_type(self.qt(a)):
                if n["opcode"] == "-":
                    raise Untranslatable("integer - pointer")
                a, b = b, a
            ga, ta = self.pexpr(a)
            gb, tb = self.expr(b)
            sz = self.elem_size(self.qt(a))
            d = tb if sz == 1 else "(%s * %d)" % (tb, sz)
            if n["opcode"] == "-":
                d = "(- %s)" % d
            return ga + gb, "(ptr_add %s %s)" % (ta, d)
        if k == "UnaryOperator" and n.get("opcode") == "&":
            return self.paddr(inner(n)[0])
        raise Untranslatable("pointer expression " + str(k))

    def paddr(self, n):
        """address of the lvalue n -> (guards, term : option Z)"""
        k = n.get("kind")
        if k == "ParenExpr":
            return self.paddr(inner(n)[0])
        if k == "MemberExpr":
            base = inner(n)[0]
            if n.get("isArrow"):
                g, t = self.pexpr(base)
            else:
                g, t = self.paddr(base)
            return g, "(ptr_add %s %s)" % (t, self.field_offset(n))
        if k == "UnaryOperator" and n.get("opcode") == "*":
            return self.pexpr(inner(n)[0])
        if k == "ArraySubscriptExpr":
            a, i = inner(n)
            ga, ta = self.pexpr(a)
            gi, ti = self.expr(i)
            sz = self.elem_size(self.qt(a))
            return ga + gi, "(ptr_add %s %s)" % (ta, ti if sz == 1 else "(%s * %d)" % (ti, sz))
        raise Untranslatable("address of " + str(k))

    def load(self, lv, node):
        """rvalue of the lvalue lv (type taken from node)"""
        t = self.ty(node)
        if t is None:
            raise Untranslatable("load of non-integer " + self.qt(node))
        g, p = self.paddr(lv)
        m = self.objof(lv)
        size = max(8, t[0]) // 8
        return g + ["(ld_ok %s %s %d)" % (m, p, size)], "(%s %s %s %d)" % ("lds" if t[1] else "ldu", m, p, size)

    def objof(self, n):
        """the memory object (a Coq variable) the pointer / lvalue expression n points into: here there is only one"""
        return "mem"

    def through_pointer(self, lv):
        k = lv.get("kind")
        if k == "ParenExpr":
            return self.through_pointer(inner(lv)[0])
        if k == "MemberExpr":
            return bool(lv.get("isArrow")) or self.through_pointer(inner(lv)[0])
        if k == "UnaryOperator" and lv.get("opcode") == "*":
            return True
        if k == "ArraySubscriptExpr":
            return is_ptr_type(self.qt(inner(lv)[0]))
        return False

    def expr(self, n):
        k = n.get("kind")
        if k in ("ImplicitCastExpr", "CStyleCastExpr") and n.get("castKind") == "LValueToRValue":
            sub = inner(n)[0]
            if self.through_pointer(sub):
                return self.load(sub, n)
        if k in ("MemberExpr", "ArraySubscriptExpr") and self.through_pointer(n):
            return self.load(n, n)
        if k == "UnaryOperator" and n.get("opcode") == "*":
            return self.load(n, n)
        if k == "CallExpr" and self.callee(n) in BSWAP:
            g, t = self.expr(inner(n)[1])
            return g, "(%s %s)" % (BSWAP[self.callee(n)], t)
        return Tr.expr(self, n)

    def call_term(self, n):
        name = self.callee(n)
        if name in BSWAP:
            g, t = self.expr(n)
            return g, "(Some %s)" % t
        if name not in self.known or self.known[name][1] != "mem":
            raise Untranslatable("call to " + str(name))
        g, ts = [], []
        for a, kind in zip(inner(n)[1:], self.known[name][0]):
            ga, ta = self.pexpr(a) if kind == "ptr" else self.expr(a)
            g += ga
            ts.append(ta)
        return g, "(%s_gen mem %s)" % (name, " ".join(ts))

    def stmts(self, lst, k):
        if lst:
            s, rest = lst[0], lst[1:]
            nxt = lambda: self.stmts(rest, k)  # noqa: E731
            kind = s.get("kind")
            if kind == "DeclStmt" and any(is_ptr_type(self.qt(d)) for d in inner(s) if d.get("kind") == "VarDecl"):
                ds = inner(s)
                if len(ds) != 1:
                    raise Untranslatable("several declarators with a pointer")
                d = ds[0]
                self.locals.add(d["name"])
                self.ptr_locals.add(d["name"])
                if inner(d):
                    g, t = self.pexpr(inner(d)[0])
                else:
                    g, t = [], "(@None Z)"      # uninitialised: any use is undefined, NULL makes every load fail
                return self.guarded(g, "let %s := %s in\n%s" % (gname(d["name"]), t, nxt()))
            if kind == "BinaryOperator" and s.get("opcode") == "=" and is_ptr_type(self.qt(s)):
                lhs, rhs = inner(s)
                while lhs.get("kind") == "ParenExpr":
                    lhs = inner(lhs)[0]
                if lhs.get("kind") != "DeclRefExpr" or lhs["referencedDecl"]["name"] not in self.ptr_locals:
                    raise Untranslatable("store of a pointer")
                g, t = self.pexpr(rhs)
                return self.guarded(g, "let %s := %s in\n%s" % (gname(lhs["referencedDecl"]["name"]), t, nxt()))
            if kind in ("BinaryOperator", "CompoundAssignOperator") and s.get("opcode", "").endswith("=") \
                    and s["opcode"] not in ("==", "!=", "<=", ">=") and self.through_pointer(inner(s)[0]):
                raise Untranslatable("store through a pointer")
        return Tr.stmts(self, lst, k)

    def function(self, mutates=False):
        fn = self.fn
        params = [c for c in inner(fn) if c.get("kind") == "ParmVarDecl"]
        body = [c for c in inner(fn) if c.get("kind") == "CompoundStmt"][0]
        sig, kinds = ["(mem : list Z)"], []
        for p in params:
            self.locals.add(p["name"])
            q = p["type"].get("desugaredQualType", p["type"]["qualType"])
            if int_type(q) or int_type(p["type"]["qualType"]):
                sig.append("(%s : Z)" % gname(p["name"]))
                kinds.append("Z")
            elif is_ptr_type(q):
                sig.append("(%s : option Z)" % gname(p["name"]))
                self.ptr_locals.add(p["name"])
                kinds.append("ptr")
            else:
                raise Untranslatable("parameter type " + q)
        rq = fn["type"]["qualType"].split("(")[0].strip()
        if not int_type(rq):
            raise Untranslatable("return type " + rq)
        self.result_kind = "Z"
        self.rq = rq
        term = self.stmts([body], lambda: "None (* falls off the end *)")
        return "Definition %s_gen %s : option Z :=\n%s.\n" % (fn["name"], " ".join(sig), term), (kinds, "mem")

    def ret(self, term):
        # the value is converted to the function's return type
        t = int_type(self.rq)
        if t[0] == 1:
            return "Some (b2z (z2b %s))" % term
        return "Some (%s %d %s)" % ("wraps" if t[1] else "wrapu", t[0], term)


MEM_LEAFS = [
    ("rtrlib/rtr/packets.c", "rtr_get_pdu_type"),
    ("rtrlib/rtr/packets.c", "rtr_pdu_check_size"),
    ("rtrlib/rtr/packets.c", "rtr_prefix_pdu_is_valid"),
]
MEM_OUT = os.path.join(vlib.THEORIES, "Gen", "GeneratedMem.v")


def generate_mem():
    """text of Gen/GeneratedMem.v"""
    out, problems = [], []
    w = out.append
    w("(* GENERATED by tools/c2v.py (memory mode) from the repository sources - do not edit. *)")
    w("From RtrV Require Import Base.CSem Base.Mem Gen.Generated.")
    w("Local Open Scope string_scope.\nLocal Open Scope Z_scope.\n")
    enums_all = {}
    for cfile, en in ENUMS:
        try:
            for n, v in enum_values(cfile, en):
                enums_all.setdefault(n, v)
        except Exception as e:  # noqa: BLE001
            problems.append("enum %s: %s" % (en, e))
    try:
        sizes = run_probe()
    except Exception as e:  # noqa: BLE001
        problems.append("probe: %s" % e)
        sizes = {}
    if sizes.get(("E", "little_endian")) != 1:
        problems.append("host is not little-endian: loads are not modelled")
    known = {}
    for cfile, fname in MEM_LEAFS:
        try:
            fn = find_def(cfile, fname)
            if fn is None:
                raise Untranslatable("definition not found")
            tr = TrMem(fn, known, enums_all, sizes, {})
            text, sig = tr.function()
            known[fname] = sig
            w("(* %s : %s *)" % (cfile, fname))
            w(text)
        except Exception as e:  # noqa: BLE001
            problems.append("function %s: %s" % (fname, e))
            w("(* %s could not be translated: %s *)" % (fname, str(e).replace("*)", "* )")))
            w("Definition %s_untranslated := tt.\n" % fname)
    w("Definition mem_translator_problems : list string := [%s]." % "; ".join(coq_string(p[:200]) for p in problems))
    _MEM_CTX.update(known=dict(known), enums=dict(enums_all), sizes=sizes)
    return "\n".join(out) + "\n", problems


# ---------------------------------------------------------------------------
# memory mode WITH STORES (Base/MemW.v): functions that write through pointers
# ---------------------------------------------------------------------------
# As in memory mode a pointer is an offset (option Z, None = NULL) - but there may be several memory objects, each a
# byte list held in its own Coq variable, and the translator knows statically which object every pointer expression
# points into:
#   * every pointer PARAMETER brings its own object (`mem` if the function has one pointer parameter, `m_<param>`
#     otherwise); call sites must pass pairwise different objects to a callee that writes (otherwise: untranslatable),
#     so parameters never alias;
#   * every local ARRAY of integers is an object of its own (`m_<name>`, zero-filled: a read of an element that was
#     never written yields 0 in the model, where C leaves the value indeterminate), its address is offset 0;
#   * a pointer LOCAL points into the object it was first assigned from; assigning it from another object later is
#     untranslatable.
# A store `lv = e` becomes   guard (st_ok m p size) (let m := stu m p size e in ...)   - the object variable is
# shadowed, so every later load reads the updated bytes; a store outside the object or through NULL makes the
# function return None exactly like a load (ld_ok).  memcpy(d, s, n) between two different objects is
# `mcopy` under ld_ok / st_ok for the whole ranges.  A function returns the objects of its parameters that it writes
# (after its value, if it has one): option (list Z), option (Z * list Z), option (list Z * list Z) ...
# The branches of an `if` are never joined here (the code after it is emitted per branch): no variable is lost.
# A SLICE (MEMW_LEAFS entry with a list of local names) translates only the declarations of those locals of a
# function, in order, and returns the last one; the statements skipped on the way must not write to anything the
# slice mentions (checked syntactically: no assignment through / to, no call other than the debug printer on, the
# variables of the slice).
class TrMemW(TrMem):
    def __init__(self, fn, known, enums, sizes, tables, written=None):
        TrMem.__init__(self, fn, known, enums, sizes, tables)
        self.obj_of = {}          # pointer variable -> object variable (None: declared, points nowhere yet)
        self.arr_locals = {}      # local array -> (object variable, size in bytes)
        self.param_objs = []      # objects of the pointer parameters, in parameter order
        self.written = written    # objects of parameters written by the function (None: first pass, assume all)
        self.seen_writes = set()
        self.void = False

    # -- objects -------------------------------------------------------------
    def objof(self, n):
        k = n.get("kind")
        if k in ("ParenExpr", "ConstantExpr"):
            return self.objof(inner(n)[0])
        if k in ("ImplicitCastExpr", "CStyleCastExpr"):
            ck = n.get("castKind")
            sub = inner(n)[0]
            if ck in ("BitCast", "NoOp", "ArrayToPointerDecay"):
                return self.objof(sub)
            if ck == "LValueToRValue":
                ss = sub
                while ss.get("kind") == "ParenExpr":
                    ss = inner(ss)[0]
                if ss.get("kind") == "DeclRefExpr":
                    return self.objof(ss)
                raise Untranslatable("pointer loaded from memory")
            raise Untranslatable("object of a pointer cast " + str(ck))
        if k == "DeclRefExpr":
            nm = n["referencedDecl"]["name"]
            if nm in self.arr_locals:
                return self.arr_locals[nm][0]
            if self.obj_of.get(nm):
                return self.obj_of[nm]
            raise Untranslatable("pointer %s points into no known object" % nm)
        if k == "BinaryOperator" and n.get("opcode") in ("+", "-"):
            a, b = inner(n)
            return self.objof(a if is_ptr_type(self.qt(a)) else b)
        if k == "UnaryOperator" and n.get("opcode") in ("&", "*"):
            return self.objof(inner(n)[0])
        if k in ("MemberExpr", "ArraySubscriptExpr"):
            return self.objof(inner(n)[0])
        raise Untranslatable("object of " + str(k))

    def note_write(self, m):
        self.seen_writes.add(m)

    def paddr(self, n):
        if n.get("kind") == "DeclRefExpr" and n["referencedDecl"]["name"] in self.arr_locals:
            return [], "(Some 0)"
        return TrMem.paddr(self, n)

    def array_type(self, q):
        """(element size, count) of an array-of-integers type"""
        m = re.fullmatch(r"(.*?)\s*\[(\d+)\]", (q or "").replace("const ", "").strip())
        if m and int_type(m.group(1)):
            return max(8, int_type(m.group(1))[0]) // 8, int(m.group(2))
        return None

    def expr(self, n):
        if n.get("kind") == "UnaryExprOrTypeTraitExpr" and n.get("name") == "sizeof":
            at = (n.get("argType") or {})
            q = at.get("desugaredQualType") or at.get("qualType")
            if q is None and inner(n):
                q = self.qt(inner(n)[0])
            a = self.array_type(q)
            if a:
                return [], "(%d)" % (a[0] * a[1])
        return TrMem.expr(self, n)

    # -- calls ---------------------------------------------------------------
    def call_parts(self, n):
        """call to a translated function -> (guards, option-term, [objects it writes], has a value)"""
        name = self.callee(n)
        if name in BSWAP:
            g, t = self.expr(n)
            return g, "(Some %s)" % t, [], True
        sig = self.known.get(name)
        if not sig or sig[1] not in ("mem", "memw"):
            raise Untranslatable("call to " + str(name))
        args = inner(n)[1:]
        if len(args) != len(sig[0]):
            raise Untranslatable("argument count of " + str(name))
        g, ts, objs = [], [], []
        for a, kind in zip(args, sig[0]):
            if kind == "ptr":
                ga, ta = self.pexpr(a)
                objs.append(self.objof(a))
            else:
                ga, ta = self.expr(a)
            g += ga
            ts.append(ta)
        if sig[1] == "mem":
            if len(set(objs)) != 1:
                raise Untranslatable("%s takes pointers into one object" % name)
            return g, "(%s_gen %s %s)" % (name, objs[0], " ".join(ts)), [], True
        wr = [objs[i] for i in sig[2]]
        if wr and len(set(objs)) != len(objs):
            raise Untranslatable("aliased pointer arguments to %s, which writes" % name)
        return g, "(%s_gen %s)" % (name, " ".join(objs + ts)), wr, sig[3]

    def call_term(self, n):
        g, t, wr, val = self.call_parts(n)
        if wr or not val:
            raise Untranslatable("value of a call that writes memory / has no value: " + str(self.callee(n)))
        return g, t

    # -- statements ----------------------------------------------------------
    def contains_store(self, n):
        k = n.get("kind")
        if k in ("BinaryOperator", "CompoundAssignOperator") and n.get("opcode", "").endswith("=") \
                and n["opcode"] not in ("==", "!=", "<=", ">="):
            return True
        if k == "UnaryOperator" and n.get("opcode") in ("++", "--"):
            return True
        if k == "CallExpr" and self.callee(n) not in BSWAP and self.callee(n) not in ("lrtr_dbg", "printf"):
            return True
        return any(self.contains_store(c) for c in inner(n))

    def may_join(self, s):
        return not self.contains_store(s)

    def strip_value(self, n):
        """(node without parentheses / no-op casts, list of integral casts passed on the way, outermost first)"""
        casts = []
        while n.get("kind") in ("ImplicitCastExpr", "ParenExpr", "CStyleCastExpr"):
            if n.get("kind") != "ParenExpr":
                if n.get("castKind") == "IntegralCast":
                    casts.append(n)
                elif n.get("castKind") not in ("NoOp", "LValueToRValue"):
                    break
            n = inner(n)[0]
        return n, casts

    def store_stmt(self, s, nxt):
        op = s["opcode"]
        lhs, rhs = inner(s)
        t = self.ty(lhs)
        if t is None:
            raise Untranslatable("store of a non-integer " + self.qt(lhs))
        size = max(8, t[0]) // 8
        bind = ""
        if op == "=":
            rr, casts = self.strip_value(rhs)
            if rr.get("kind") == "CallExpr" and self.callee(rr) not in BSWAP:
                g, ct = self.call_term(rr)
                bind = "do tmp__ <- %s;\n" % ct
                val = "tmp__"
                for c in reversed(casts):
                    val = self.wrap(c, val)
            else:
                g, val = self.expr(rhs)
        else:
            fake = {"kind": "BinaryOperator", "opcode": op[:-1], "type": s.get("computeResultType", s.get("type")),
                    "inner": [self.rvalue_of(lhs), rhs]}
            g, val = self.expr(fake)
            val = self.wrap(s, val)
        ga, p = self.paddr(lhs)
        m = self.objof(lhs)
        self.note_write(m)
        body = "let %s := stu %s %s %d %s in\n%s" % (m, m, p, size, val, nxt())
        return self.guarded(g, bind + self.guarded(ga + ["(st_ok %s %s %d)" % (m, p, size)], body))

    def stmts(self, lst, k):
        if lst:
            s, rest = lst[0], lst[1:]
            nxt = lambda: self.stmts(rest, k)  # noqa: E731
            kind = s.get("kind")
            if kind == "DeclStmt":
                ds = [d for d in inner(s) if d.get("kind") == "VarDecl"]
                arr = [d for d in ds if self.array_type(self.qt(d))]
                if arr:
                    if len(ds) != 1 or inner(ds[0]):
                        raise Untranslatable("array declaration with initialiser / several declarators")
                    d = ds[0]
                    esz, cnt = self.array_type(self.qt(d))
                    self.locals.add(d["name"])
                    self.arr_locals[d["name"]] = ("m_" + d["name"], esz * cnt)
                    return "let m_%s := zeros %d in\n%s" % (d["name"], esz * cnt, nxt())
                if any(is_ptr_type(self.qt(d)) for d in ds):
                    if len(ds) != 1:
                        raise Untranslatable("several declarators with a pointer")
                    d = ds[0]
                    self.obj_of[d["name"]] = None
                    if inner(d):
                        init = inner(d)[0]
                        if "NullToPointer" not in json.dumps(init):
                            self.obj_of[d["name"]] = self.objof(init)
                    return TrMem.stmts(self, lst, k)
            if kind == "BinaryOperator" and s.get("opcode") == "=" and is_ptr_type(self.qt(s)):
                lhs, rhs = inner(s)
                while lhs.get("kind") == "ParenExpr":
                    lhs = inner(lhs)[0]
                if lhs.get("kind") == "DeclRefExpr" and lhs["referencedDecl"]["name"] in self.ptr_locals \
                        and "NullToPointer" not in json.dumps(rhs):
                    nm = lhs["referencedDecl"]["name"]
                    o = self.objof(rhs)
                    if self.obj_of.get(nm) not in (None, o):
                        raise Untranslatable("pointer %s moves from one object to another" % nm)
                    self.obj_of[nm] = o
                return TrMem.stmts(self, lst, k)
            if kind in ("BinaryOperator", "CompoundAssignOperator") and s.get("opcode", "").endswith("=") \
                    and s["opcode"] not in ("==", "!=", "<=", ">=") and self.through_pointer(inner(s)[0]):
                return self.store_stmt(s, nxt)
            if kind == "CallExpr":
                name = self.callee(s)
                if name in ("memcpy", "__builtin_memcpy"):
                    d, sr, cnt = inner(s)[1:4]
                    gd, pd = self.pexpr(d)
                    gs, ps = self.pexpr(sr)
                    gn, tn = self.expr(cnt)
                    md, ms = self.objof(d), self.objof(sr)
                    if md == ms:
                        raise Untranslatable("memcpy inside one object")
                    self.note_write(md)
                    return self.guarded(gd + gs + gn + ["(ld_ok %s %s %s)" % (ms, ps, tn), "(st_ok %s %s %s)" % (md, pd, tn)],
                                        "let %s := mcopy %s %s %s %s %s in\n%s" % (md, md, pd, ms, ps, tn, nxt()))
                if name in self.known and self.known[name][1] in ("mem", "memw"):
                    g, t, wr, val = self.call_parts(s)
                    for m in wr:
                        self.note_write(m)
                    pat = ([("_" if val else None)] if val else []) + wr
                    pat = [x for x in pat if x]
                    ptxt = "_" if not pat else (pat[0] if len(pat) == 1 else "(%s)" % ", ".join(pat))
                    return self.guarded(g, "do %s <- %s;\n%s" % (ptxt, t, nxt()))
        return TrMem.stmts(self, lst, k)

    # -- whole function --------------------------------------------------------
    def header(self, params):
        """declare the parameters; -> (signature text, kinds)"""
        nptr = sum(1 for p in params if is_ptr_type(p["type"].get("desugaredQualType", p["type"]["qualType"])))
        objs, vals, kinds = [], [], []
        for p in params:
            self.locals.add(p["name"])
            q = p["type"].get("desugaredQualType", p["type"]["qualType"])
            if int_type(q) or int_type(p["type"]["qualType"]):
                vals.append("(%s : Z)" % gname(p["name"]))
                kinds.append("Z")
            elif is_ptr_type(q):
                o = "mem" if nptr == 1 else "m_" + p["name"]
                objs.append(o)
                self.param_objs.append(o)
                self.obj_of[p["name"]] = o
                self.ptr_locals.add(p["name"])
                vals.append("(%s : option Z)" % gname(p["name"]))
                kinds.append("ptr")
            else:
                raise Untranslatable("parameter type " + q)
        sig = " ".join((["(%s : list Z)" % " ".join(objs)] if objs else []) + vals)
        return sig, kinds

    def out_objs(self):
        return [o for o in self.param_objs if self.written is None or o in self.written]

    def result_type(self):
        parts = ([] if self.void else ["Z"]) + ["list Z"] * len(self.out_objs())
        if not parts:
            return "unit"
        return "Z" if parts == ["Z"] else "(%s)" % " * ".join(parts)

    def ret(self, term):
        parts = []
        if not self.void:
            t = int_type(self.rq)
            parts.append("(b2z (z2b %s))" % term if t[0] == 1 else "(%s %d %s)" % ("wraps" if t[1] else "wrapu", t[0], term))
        parts += self.out_objs()
        if not parts:
            return "Some tt"
        return "Some %s" % (parts[0] if len(parts) == 1 else "(%s)" % ", ".join(parts))

    def function(self, mutates=False):
        fn = self.fn
        params = [c for c in inner(fn) if c.get("kind") == "ParmVarDecl"]
        body = [c for c in inner(fn) if c.get("kind") == "CompoundStmt"][0]
        sig, kinds = self.header(params)
        rq = fn["type"]["qualType"].split("(")[0].strip()
        self.void = rq == "void"
        if not self.void and not int_type(rq):
            raise Untranslatable("return type " + rq)
        self.result_kind = "Z"
        self.rq = rq
        term = self.stmts([body], lambda: self.ret(None) if self.void else "None (* falls off the end *)")
        if self.written is None:
            # second pass: now that the stores are known, return only the objects that are written
            w = set(o for o in self.param_objs if o in self.seen_writes)
            return TrMemW(fn, self.known, self.enums, self.sizes, self.tables, written=w).function()
        widx = [i for i, o in enumerate(self.param_objs) if o in self.written]
        return "Definition %s_gen %s : option %s :=\n%s.\n" % (fn["name"], sig, self.result_type(), term), \
               (kinds, "memw", widx, not self.void)

    def mentions(self, n, names):
        if n.get("kind") == "DeclRefExpr" and n.get("referencedDecl", {}).get("name") in names:
            return True
        return any(self.mentions(c, names) for c in n.get("inner", []))

    def check_skipped(self, n, names):
        """a statement that the slice leaves out must not change what the slice reads"""
        k = n.get("kind")
        if k in ("BinaryOperator", "CompoundAssignOperator") and n.get("opcode", "").endswith("=") \
                and n["opcode"] not in ("==", "!=", "<=", ">=") and self.mentions(inner(n)[0], names):
            raise Untranslatable("skipped statement assigns to / through a variable of the slice")
        if k == "UnaryOperator" and n.get("opcode") in ("++", "--") and self.mentions(n, names):
            raise Untranslatable("skipped statement increments a variable of the slice")
        if k == "CallExpr" and self.callee(n) not in ("lrtr_dbg", "printf") and not self.callee(n) in BSWAP \
                and any(self.mentions(a, names) for a in inner(n)[1:]):
            raise Untranslatable("skipped statement hands a variable of the slice to %s" % self.callee(n))
        if k == "UnaryOperator" and n.get("opcode") == "&" and self.mentions(n, names):
            raise Untranslatable("skipped statement takes the address of a variable of the slice")
        for c in n.get("inner", []):
            self.check_skipped(c, names)

    def slice(self, names):
        fn = self.fn
        params = [c for c in inner(fn) if c.get("kind") == "ParmVarDecl"]
        body = [c for c in inner(fn) if c.get("kind") == "CompoundStmt"][0]
        chosen, skipped, pending, todo = [], [], [], list(names)
        last = None
        for st in inner(body):
            ds = [d for d in inner(st) if d.get("kind") == "VarDecl"] if st.get("kind") == "DeclStmt" else []
            if todo and any(d["name"] == todo[0] for d in ds):
                if len(ds) != 1:
                    raise Untranslatable("slice: several declarators")
                chosen.append(st)
                skipped += pending
                pending = []
                last = ds[0]
                todo.pop(0)
            elif todo:
                pending.append(st)
        if todo:
            raise Untranslatable("slice: no top-level declaration of %s (in this order)" % todo[0])
        used = [p for p in params if any(self.mentions(st, {p["name"]}) for st in chosen)]
        allnames = set(names) | set(p["name"] for p in used)
        for st in skipped:
            self.check_skipped(st, allnames)
        sig, kinds = self.header(used)
        lt = int_type(self.qt(last)) or int_type(last["type"]["qualType"])
        if not lt:
            raise Untranslatable("slice: the last local is not an integer")
        self.void = False
        self.written = set()
        term = self.stmts(chosen, lambda: "Some %s" % gname(last["name"]))
        if self.seen_writes & set(self.param_objs):
            raise Untranslatable("slice writes memory")
        return "Definition %s__%s_gen %s : option Z :=\n%s.\n" % (fn["name"], last["name"], sig, term), (kinds, "memw", [], True)


# (file, function, None | [locals of a slice])
MEMW_LEAFS = [
    ("rtrlib/lib/convert_byte_order.c", "lrtr_convert_short", None),
    ("rtrlib/lib/convert_byte_order.c", "lrtr_convert_long", None),
    ("rtrlib/rtr/packets.c", "rtr_pdu_convert_header_byte_order", None),
    ("rtrlib/rtr/packets.c", "rtr_pdu_header_to_host_byte_order", None),
    ("rtrlib/lib/ipv4.c", "lrtr_ipv4_addr_convert_byte_order", None),
    ("rtrlib/lib/ipv6.c", "lrtr_ipv6_addr_convert_byte_order", None),
    ("rtrlib/rtr/packets.c", "rtr_pdu_convert_footer_byte_order", None),
    ("rtrlib/rtr/packets.c", "rtr_pdu_footer_to_host_byte_order", None),
    ("rtrlib/rtr/packets.c", "rtr_handle_error_pdu", ["pdu", "len_err_txt"]),
]
MEMW_ENUMS = [("rtrlib/lib/convert_byte_order.c", "target_byte_order")]
MEMW_OUT = os.path.join(vlib.THEORIES, "Gen", "GeneratedMemW.v")
_MEM_CTX = {}


def generate_memw():
    """text of Gen/GeneratedMemW.v: functions that write through pointers (the byte-order conversion of a received
    PDU's body), over the functions of GeneratedMem.v"""
    out, problems = [], []
    w = out.append
    w("(* GENERATED by tools/c2v.py (memory mode with stores) from the repository sources - do not edit. *)")
    w("From RtrV Require Import Base.CSem Base.Mem Base.MemW Gen.Generated Gen.GeneratedMem.")
    w("Local Open Scope string_scope.\nLocal Open Scope Z_scope.\n")
    if "known" not in _MEM_CTX:
        generate_mem()
    known = dict(_MEM_CTX.get("known", {}))
    enums_all = dict(_MEM_CTX.get("enums", {}))
    sizes = _MEM_CTX.get("sizes", {})
    if sizes.get(("E", "little_endian")) != 1:
        problems.append("host is not little-endian: loads and stores are not modelled")
    for cfile, en in MEMW_ENUMS:
        try:
            vals = enum_values(cfile, en)
            w("Definition enum_%s : list (string * Z) :=\n  [%s]." % (en, ";\n   ".join("(%s, %d)" % (coq_string(n), v) for n, v in vals)))
            for n, v in vals:
                if n not in enums_all:
                    w("Definition %s : Z := %d." % ("c_" + n, v))
                    enums_all[n] = v
            w("")
        except Exception as e:  # noqa: BLE001
            problems.append("enum %s: %s" % (en, e))
            w("Definition enum_%s_untranslated := tt.\n" % en)
    for cfile, fname, sl in MEMW_LEAFS:
        oname = fname if sl is None else "%s__%s" % (fname, sl[-1])
        try:
            fn = find_def(cfile, fname)
            if fn is None:
                raise Untranslatable("definition not found")
            tr = TrMemW(fn, known, enums_all, sizes, {})
            if sl is None:
                text, sig = tr.function()
                w("(* %s : %s *)" % (cfile, fname))
            else:
                text, sig = tr.slice(sl)
                w("(* %s : %s - SLICE: only the declarations of %s, in this order; the statements skipped on the way\n"
                  "   neither assign to / through, nor hand to a function other than the debug printer, any variable of the slice *)"
                  % (cfile, fname, ", ".join(sl)))
            known[oname] = sig
            w(text)
        except Exception as e:  # noqa: BLE001
            problems.append("function %s: %s" % (oname, e))
            w("(* %s could not be translated: %s *)" % (oname, str(e).replace("*)", "* )")))
            w("Definition %s_untranslated := tt.\n" % oname)
    w("Definition memw_translator_problems : list string := [%s]." % "; ".join(coq_string(p[:200]) for p in problems))
    return "\n".join(out) + "\n", problems


# ---------------------------------------------------------------------------
# effect mode (Base/Eff.v): the control skeleton of functions that CALL functions which are not translated
# ---------------------------------------------------------------------------
# Target: the effect tree `eff` of Base/Eff.v,
#     ERet r s | ECall f args s k | EUndef
# for functions of one `struct rtr_socket *` parameter.  The socket's integer fields are a string-keyed `store`
# (Base/CSem.v), read with sget and assigned with sset exactly as in `Tr`; integer expressions and conditions are
# translated by `Tr.expr` / `Tr.cond` (wrap-around by type, guards for signed overflow, shifts, division), a failing
# guard is EUndef.
#   * A call of a function that is not translated becomes
#         ECall "<name>" [scalar arguments] <socket store at the call> (fun res__ <socket store after the call> => ...)
#     - the socket pointer itself is not in the argument list: it is the store slot (the callee may read and write
#       every field through it);
#     - a pointer FIELD of the socket handed to the callee (rtr_socket->tr_socket, ->pfx_table, ->spki_table) is an
#       opaque handle the callee could also reach through the socket: omitted;
#     - `&local` (a scalar local): an out-parameter - its new value is an extra entry of res__; its value before the call
#       is also an argument, except for the (callee, position) pairs of EFF_OUT_ONLY (written, never read);
#     - a local ARRAY (char pdu[RTR_MAX_PDU_LEN]) handed to the callee is a memory object of its own (`m_<name> :
#       list Z`, as in memory mode); it must still be unwritten at the call (then its content need not be handed
#       over), and its bytes after the call are THE REST of res__ behind the scalar results;
#     - res__ = [return value (absent for a void callee); out-parameters in argument order; buffer bytes...].
#       The values are of the callee's C types (no conversion happens in C either): supplying in-range values is the
#       interpretation's duty.
#   * A call of a function of GeneratedMem.v on such an array (rtr_get_pdu_type(pdu)) is the memory-mode function
#     applied to the object at offset 0: `eopt (rtr_get_pdu_type_gen m_pdu (Some 0)) (fun v => ...)` - a load outside
#     the bytes the callee delivered is EUndef.
#   * A call of a function translated in the same file (rtr_purge_outdated_records, rtr_wait_for_sync) is inlined as
#     a sub-tree:  ebind (<f>_gen <store>) (fun r <store> => ...).
#   * lrtr_dbg / printf / pthread_setcancelstate are no-ops; their arguments are not evaluated.
#   * One call per full expression, never below the right operand of && / || or a branch of ?: (C leaves the order of
#     two calls open); no read of a socket field in the same expression outside the call's arguments (unsequenced with
#     the callee's writes).  Otherwise: untranslatable.
#   * `if`: when both branches are straight-line assignments without guards, the branches are joined on the assigned
#     variables (let v := if c then .. else ..); otherwise the code after the `if` is emitted once per branch.
#   * `while (1)`: only as the subject of a "loop" entry of FSM_LEAFS, which emits
#         <f>__prologue_gen : the statements before the loop;   ERet 0 s = the function returned, ERet 1 s = the loop is entered
#         <f>__iter_gen     : ONE iteration of the loop body;    ERet 0 s = go round again (end of the body or `continue`),
#                                                                ERet 1 s = `break`, ERet 2 s = `return`
#     Locals of the prologue must not be used by the body (other than in the no-op calls).
EFF_NOOPS = {"lrtr_dbg", "printf", "pthread_setcancelstate"}
EFF_OUT_ONLY = {("lrtr_get_monotonic_time", 0)}
FSM_LEAFS = [
    ("rtrlib/rtr/rtr.c", "rtr_purge_outdated_records", "fn"),
    ("rtrlib/rtr/packets.c", "rtr_wait_for_sync", "fn"),
    ("rtrlib/rtr/rtr.c", "rtr_fsm_start", "loop"),
]
FSM_OUT = os.path.join(vlib.THEORIES, "Gen", "GeneratedFsm.v")


def strip_casts(n, kinds=("ImplicitCastExpr", "ParenExpr")):
    while n.get("kind") in kinds:
        n = inner(n)[0]
    return n


def is_null_ptr(n):
    """a null pointer constant: (void *)0 / NULL"""
    while n.get("kind") in ("ImplicitCastExpr", "ParenExpr", "CStyleCastExpr"):
        if n.get("castKind") == "NullToPointer":
            return True
        n = inner(n)[0]
    return False


class TrEff(Tr):
    def __init__(self, fn, eff_known, mem_known, enums, sizes):
        Tr.__init__(self, fn, {}, enums, sizes, {})
        self.eff_known = eff_known     # functions translated in this file: name -> "void" | "Z"
        self.mem_known = mem_known     # memory-mode functions (GeneratedMem.v): name -> (kinds, "mem")
        self.sock = None
        self.arrays = {}               # local array -> [object variable, written?]
        self.call_val = {}             # id(CallExpr) -> Coq variable holding its value
        self.mode = "fn"               # "fn" | "prologue" | "iter"
        self.ncall = 0

    # -- expressions -----------------------------------------------------------
    def expr(self, n):
        k = n.get("kind")
        if k == "CallExpr":
            if id(n) in self.call_val:
                return [], self.call_val[id(n)]
            raise Untranslatable("call to %s in an unsupported position" % self.callee(n))
        if k == "UnaryExprOrTypeTraitExpr" and n.get("name") == "sizeof":
            at = (n.get("argType") or {}).get("qualType")
            if at is None and inner(n):
                at = (inner(n)[0].get("type") or {}).get("qualType")
            m = re.fullmatch(r"(?:unsigned |signed )?char\s*\[(\w+)\]", at or "")
            if m:
                if m.group(1).isdigit():
                    return [], "(%s)" % m.group(1)
                if ("M", m.group(1)) in self.sizes:
                    return [], "c_" + m.group(1)
                raise Untranslatable("sizeof " + at)
        if k in ("ImplicitCastExpr", "CStyleCastExpr") and n.get("castKind") in ("LValueToRValue", "NoOp") \
                and is_ptr_type((n.get("type") or {}).get("qualType", "")):
            raise Untranslatable("pointer value in an integer expression")
        return Tr.expr(self, n)

    def eguarded(self, guards, body):
        for g in reversed(guards):
            body = "eguard %s (%s)" % (g, body)
        return body

    # -- calls -------------------------------------------------------------------
    def calls_in(self, n, under=False, acc=None):
        """CallExpr nodes of the expression n that have an effect or need binding: [(node, conditional?)]"""
        if acc is None:
            acc = []
        k = n.get("kind")
        if k == "CallExpr":
            name = self.callee(n)
            if name in EFF_NOOPS:
                return acc
            acc.append((n, under))
            for a in inner(n)[1:]:
                if self.calls_in(a, under, []):
                    raise Untranslatable("call nested in the arguments of " + str(name))
            return acc
        ins = inner(n)
        if k == "BinaryOperator" and n.get("opcode") in ("&&", "||"):
            self.calls_in(ins[0], under, acc)
            self.calls_in(ins[1], True, acc)
            return acc
        if k == "ConditionalOperator":
            self.calls_in(ins[0], under, acc)
            self.calls_in(ins[1], True, acc)
            self.calls_in(ins[2], True, acc)
            return acc
        if k in ("StmtExpr", "CompoundStmt", "IfStmt", "WhileStmt", "ForStmt", "DoStmt"):
            raise Untranslatable("statement inside an expression")
        for c in ins:
            self.calls_in(c, under, acc)
        return acc

    def reads_sock(self, n, skip):
        """does expression n read a field of the socket outside the sub-tree `skip`?"""
        if n is skip:
            return False
        if n.get("kind") == "MemberExpr":
            try:
                b, _ = self.lvalue_key(n)
                if b == self.sock:
                    return True
            except Untranslatable:
                return True
        return any(self.reads_sock(c, skip) for c in inner(n))

    def with_calls(self, nodes, build):
        """emit the calls contained in the expressions `nodes` (at most one with an effect), then build()"""
        found = []
        for n in nodes:
            found += self.calls_in(n)
        if not found:
            return build()
        effectful = [c for c, _ in found if self.callee(c) not in self.mem_known]
        if len(effectful) > 1:
            raise Untranslatable("two calls in one expression (%s): the order of evaluation is not fixed"
                                 % ", ".join(str(self.callee(c)) for c in effectful))
        for c, under in found:
            if under:
                raise Untranslatable("call to %s evaluated conditionally inside an expression" % self.callee(c))
        if effectful:
            for n in nodes:
                if self.reads_sock(n, effectful[0]):
                    raise Untranslatable("socket field read in the same expression as the call to %s" % self.callee(effectful[0]))

        def chain(i):
            if i == len(found):
                return build()
            c = found[i][0]
            var = "c__%d" % self.ncall
            self.ncall += 1
            self.call_val[id(c)] = var
            return self.emit_call(c, var, lambda: chain(i + 1))
        return chain(0)

    def emit_call(self, c, var, nxt):
        """the call c; its value (if it has one) is bound to the Coq variable var (None: value unused)"""
        name = self.callee(c)
        if name is None:
            raise Untranslatable("call through a pointer")
        args = inner(c)[1:]
        sv = gname(self.sock)
        rq = (c.get("type") or {}).get("qualType", "")
        is_void = rq == "void"
        # memory-mode function on a local array
        if name in self.mem_known:
            kinds = self.mem_known[name][0]
            ts, g = [], []
            obj = None
            for a, kd in zip(args, kinds):
                if kd == "ptr":
                    aa = strip_casts(a, ("ImplicitCastExpr", "ParenExpr", "CStyleCastExpr"))
                    if aa.get("kind") == "DeclRefExpr" and aa["referencedDecl"]["name"] in self.arrays:
                        o = self.arrays[aa["referencedDecl"]["name"]][0]
                        if obj not in (None, o):
                            raise Untranslatable("two memory objects handed to " + name)
                        obj = o
                        ts.append("(Some 0)")
                    else:
                        raise Untranslatable("pointer argument of %s is not a local array" % name)
                else:
                    ga, ta = self.expr(a)
                    g += ga
                    ts.append(ta)
            if obj is None:
                raise Untranslatable("no memory object for " + name)
            call = "(%s_gen %s %s)" % (name, obj, " ".join(ts))
            return self.eguarded(g, "eopt %s (fun %s =>\n%s)" % (call, var or "_", nxt()))
        # a function translated in this file
        if name in self.eff_known:
            a0 = strip_casts(args[0]) if len(args) == 1 else {}
            if not (a0.get("kind") == "DeclRefExpr" and a0["referencedDecl"]["name"] == self.sock):
                raise Untranslatable("call to %s with other arguments than the socket" % name)
            return "ebind (%s_gen %s) (fun %s %s =>\n%s)" % (name, sv, var or "_", sv, nxt())
        # a function that is not translated
        g, ts, outs, buf = [], [], [], None
        for i, a in enumerate(args):
            aa = strip_casts(a, ("ImplicitCastExpr", "ParenExpr", "CStyleCastExpr"))
            q = (a.get("type") or {}).get("qualType", "")
            if aa.get("kind") == "DeclRefExpr" and aa["referencedDecl"]["name"] == self.sock:
                continue
            if aa.get("kind") == "MemberExpr" and is_ptr_type((aa.get("type") or {}).get("qualType", "")):
                b, _ = self.lvalue_key(aa)
                if b == self.sock:
                    continue                     # opaque handle reachable through the socket
                raise Untranslatable("pointer argument of " + name)
            if aa.get("kind") == "UnaryOperator" and aa.get("opcode") == "&":
                tgt = strip_casts(inner(aa)[0])
                if tgt.get("kind") == "DeclRefExpr" and tgt["referencedDecl"]["name"] in self.locals \
                        and tgt["referencedDecl"]["name"] not in self.arrays and tgt["referencedDecl"]["name"] != self.sock:
                    nm = tgt["referencedDecl"]["name"]
                    if (name, i) not in EFF_OUT_ONLY:
                        ts.append(gname(nm))
                    outs.append(nm)
                    continue
                raise Untranslatable("address-of argument of " + name)
            if aa.get("kind") == "DeclRefExpr" and aa["referencedDecl"]["name"] in self.arrays:
                ent = self.arrays[aa["referencedDecl"]["name"]]
                if ent[1]:
                    raise Untranslatable("array %s handed to %s after it was written" % (aa["referencedDecl"]["name"], name))
                if buf is not None:
                    raise Untranslatable("two arrays handed to " + name)
                buf = ent
                continue
            if is_null_ptr(a):
                ts.append("(0)")
                continue
            if is_ptr_type(q):
                raise Untranslatable("pointer argument of " + name)
            ga, ta = self.expr(a)
            g += ga
            ts.append(ta)
        lets, pos = [], 0
        if not is_void:
            if var:
                lets.append("let %s := nth %d%%nat res__ 0 in" % (var, pos))
            pos += 1
        for nm in outs:
            lets.append("let %s := nth %d%%nat res__ 0 in" % (gname(nm), pos))
            pos += 1
        if buf is not None:
            lets.append("let %s := skipn %d%%nat res__ in" % (buf[0], pos))
            buf[1] = True
        body = nxt()
        return self.eguarded(g, 'ECall "%s" [%s] %s (fun res__ %s =>\n%s%s)'
                             % (name, "; ".join(ts), sv, sv, "".join(x + "\n" for x in lets), body))

    # -- statements ----------------------------------------------------------------
    def snapshot(self):
        return set(self.locals), {k: list(v) for k, v in self.arrays.items()}

    def restore(self, snap):
        self.locals = set(snap[0])
        for k, v in snap[1].items():
            self.arrays[k][0], self.arrays[k][1] = v

    def pure_branch(self, s, assigned):
        """straight-line assignments without guards or calls -> list of `let` lines, or None"""
        if s is None:
            return []
        k = s.get("kind")
        if k == "CompoundStmt":
            out = []
            for c in inner(s):
                r = self.pure_branch(c, assigned)
                if r is None:
                    return None
                out += r
            return out
        if k == "NullStmt":
            return []
        if k == "CallExpr" and self.callee(s) in EFF_NOOPS:
            return []
        if k == "BinaryOperator" and s.get("opcode") == "=":
            lhs, rhs = inner(s)
            try:
                if self.calls_in(rhs):
                    return None
                g, val = self.expr(rhs)
            except Untranslatable:
                return None
            if g:
                return None
            ll = strip_casts(lhs, ("ParenExpr",))
            if ll.get("kind") == "DeclRefExpr" and ll["referencedDecl"]["name"] in self.locals \
                    and ll["referencedDecl"]["name"] not in self.arrays:
                v = gname(ll["referencedDecl"]["name"])
                if v not in assigned:
                    assigned.append(v)
                return ["let %s := %s in" % (v, val)]
            try:
                b, key = self.lvalue_key(ll)
            except Untranslatable:
                return None
            if b != self.sock or self.ty(ll) is None:
                return None
            v = gname(b)
            if v not in assigned:
                assigned.append(v)
            return ['let %s := sset "%s" %s %s in' % (v, key, val, v)]
        return None

    def leave(self, code):
        return "ERet (%d) %s" % (code, gname(self.sock))

    def stmts(self, lst, k):
        if not lst:
            return k()
        s, rest = lst[0], lst[1:]
        kind = s.get("kind")
        nxt = lambda: self.stmts(rest, k)  # noqa: E731
        sv = gname(self.sock)
        if kind == "CompoundStmt":
            return self.stmts(inner(s) + rest, k)
        if kind == "NullStmt":
            return nxt()
        if kind == "DeclStmt":
            decls = inner(s)

            def chain(i):
                if i == len(decls):
                    return nxt()
                d = decls[i]
                if d.get("kind") != "VarDecl":
                    raise Untranslatable("decl " + str(d.get("kind")))
                q = d["type"].get("desugaredQualType", d["type"]["qualType"])
                ins = inner(d)
                if re.fullmatch(r"(?:unsigned |signed )?char\s*\[\w+\]", q) and not ins:
                    obj = "m_" + d["name"]
                    self.locals.add(d["name"])
                    self.arrays[d["name"]] = [obj, False]
                    return "let %s : list Z := [] in\n%s" % (obj, chain(i + 1))
                if int_type(q) is None and int_type(d["type"]["qualType"]) is None:
                    raise Untranslatable("local of type " + q)
                if not ins:
                    self.locals.add(d["name"])
                    return "let %s := 0 in\n%s" % (gname(d["name"]), chain(i + 1))

                def build():
                    g, t = self.expr(ins[0])
                    self.locals.add(d["name"])
                    return self.eguarded(g, "let %s := %s in\n%s" % (gname(d["name"]), t, chain(i + 1)))
                return self.with_calls([ins[0]], build)
            return chain(0)
        if kind == "ReturnStmt":
            ins = inner(s)
            if self.mode == "iter":
                if ins and self.calls_in(ins[0]):
                    raise Untranslatable("return of a call inside the loop")
                return self.leave(2)
            if not ins:
                return self.leave(0)
            e = ins[0]
            if is_null_ptr(e):
                return self.leave(0)
            if self.mode == "prologue":
                raise Untranslatable("return of a value before the loop")

            def build():
                g, t = self.expr(e)
                return self.eguarded(g, "ERet %s %s" % (t, sv))
            return self.with_calls([e], build)
        if kind == "IfStmt":
            ins = inner(s)
            c, th = ins[0], ins[1]
            el = ins[2] if len(ins) > 2 else None

            def build():
                g, tc = self.cond(c)
                assigned = []
                a = self.pure_branch(th, assigned)
                b = self.pure_branch(el, assigned) if a is not None else None
                if a is not None and b is not None:
                    if not assigned:
                        return self.eguarded(g, nxt())
                    tup = assigned[0] if len(assigned) == 1 else "(" + ", ".join(assigned) + ")"
                    pat = assigned[0] if len(assigned) == 1 else "'(" + ", ".join(assigned) + ")"
                    return self.eguarded(g, "let %s := (if %s\nthen (%s%s)\nelse (%s%s)) in\n%s"
                                         % (pat, tc, "".join(x + " " for x in a), tup, "".join(x + " " for x in b), tup, nxt()))
                snap = self.snapshot()
                ta = self.stmts([th], nxt)
                self.restore(snap)
                tb = self.stmts([el], nxt) if el is not None else nxt()
                self.restore(snap)
                return self.eguarded(g, "if %s\nthen (%s)\nelse (%s)" % (tc, ta, tb))
            return self.with_calls([c], build)
        if kind == "WhileStmt":
            raise Untranslatable("loop (only the loop of a \"loop\" entry is translated, one iteration at a time)")
        if kind in ("ForStmt", "DoStmt", "SwitchStmt", "GotoStmt", "LabelStmt"):
            raise Untranslatable("statement " + kind)
        if kind == "BreakStmt":
            if self.mode == "iter":
                return self.leave(1)
            raise Untranslatable("break outside the loop")
        if kind == "ContinueStmt":
            if self.mode == "iter":
                return self.leave(0)
            raise Untranslatable("continue outside the loop")
        if self.is_assert(s):
            c = self.assert_cond(s)
            if c is None or self.calls_in(c):
                raise Untranslatable("assert shape")
            g, tc = self.cond(c)
            return self.eguarded(g + [tc], nxt())
        if kind == "CallExpr":
            if self.callee(s) in EFF_NOOPS:
                return nxt()
            self.calls_in(s)            # shape check of the arguments
            return self.emit_call(s, None, nxt)
        if kind in ("ImplicitCastExpr", "CStyleCastExpr") and s.get("castKind") == "ToVoid":
            return self.stmts([inner(s)[0]] + rest, k)
        if kind in ("BinaryOperator", "CompoundAssignOperator") and s.get("opcode", "").endswith("=") \
                and s["opcode"] not in ("==", "!=", "<=", ">="):
            op = s["opcode"]
            lhs, rhs = inner(s)
            ll = strip_casts(lhs, ("ParenExpr",))

            def build():
                if op == "=":
                    g, val = self.expr(rhs)
                else:
                    fake = {"kind": "BinaryOperator", "opcode": op[:-1], "type": s.get("computeResultType", s.get("type")),
                            "inner": [self.rvalue_of(lhs), rhs]}
                    g, val = self.expr(fake)
                    val = self.wrap(s, val)
                if ll.get("kind") == "DeclRefExpr":
                    nm = ll["referencedDecl"]["name"]
                    if nm not in self.locals or nm in self.arrays or nm == self.sock:
                        raise Untranslatable("assignment to " + nm)
                    return self.eguarded(g, "let %s := %s in\n%s" % (gname(nm), val, nxt()))
                b, key = self.lvalue_key(ll)
                if b != self.sock:
                    raise Untranslatable("assignment through " + b)
                if self.ty(ll) is None:
                    raise Untranslatable("assignment to the non-integer field " + key)
                return self.eguarded(g, 'let %s := sset "%s" %s %s in\n%s' % (sv, key, val, sv, nxt()))
            if self.calls_in(lhs):
                raise Untranslatable("call on the left of an assignment")
            return self.with_calls([rhs], build)
        if kind == "UnaryOperator" and s.get("opcode") in ("++", "--"):
            tgt = strip_casts(inner(s)[0], ("ParenExpr",))
            if tgt.get("kind") == "DeclRefExpr" and tgt["referencedDecl"]["name"] in self.locals:
                v = gname(tgt["referencedDecl"]["name"])
                t = self.ty(tgt)
                raw = "(%s %s 1)" % (v, "+" if s["opcode"] == "++" else "-")
                if t and t[1]:
                    return "eguard (in_s %d %s) (let %s := %s in\n%s)" % (t[0], raw, v, raw, nxt())
                return "let %s := %s in\n%s" % (v, self.wrap(tgt, raw), nxt())
        raise Untranslatable("statement " + str(kind))

    # -- whole function / loop ---------------------------------------------------------
    def setup(self):
        fn = self.fn
        params = [c for c in inner(fn) if c.get("kind") == "ParmVarDecl"]
        if len(params) != 1 or not re.fullmatch(r"struct rtr_socket \*", params[0]["type"]["qualType"].replace("const ", "").strip()):
            raise Untranslatable("effect mode wants exactly one parameter, the socket")
        self.sock = params[0]["name"]
        self.locals.add(self.sock)
        self.ptr_params = [self.sock]
        self.result_kind = "eff"
        return [c for c in inner(fn) if c.get("kind") == "CompoundStmt"][0]

    def function(self, mutates=False):
        body = self.setup()
        rq = self.fn["type"]["qualType"].split("(")[0].strip()
        if rq == "void":
            fall = lambda: self.leave(0)  # noqa: E731
        else:
            fall = lambda: "EUndef (* falls off the end *)"  # noqa: E731
        term = self.stmts([body], fall)
        return "Definition %s_gen (%s : store) : eff :=\n%s.\n" % (self.fn["name"], gname(self.sock), term), \
               ("void" if rq == "void" else "Z")

    def loop(self):
        """-> texts of <f>__prologue_gen and <f>__iter_gen for a function of the shape  <prologue>; while (1) { body }"""
        body = self.setup()
        top = inner(body)
        wi = [i for i, c in enumerate(top) if c.get("kind") == "WhileStmt"]
        if len(wi) != 1:
            raise Untranslatable("expected exactly one top-level while loop")
        wh = top[wi[0]]
        wc, wb = inner(wh)[0], inner(wh)[1]
        try:
            always = const_value(wc) != 0
        except (ValueError, KeyError, IndexError):
            always = False
        if not always:
            raise Untranslatable("the loop condition is not a non-zero constant")
        self.mode = "prologue"
        pro = self.stmts(top[:wi[0]], lambda: self.leave(1))
        plocals = set(self.locals) - {self.sock}

        def uses(n):
            if n.get("kind") == "CallExpr" and self.callee(n) in EFF_NOOPS:
                return set()
            r = set()
            if n.get("kind") == "DeclRefExpr" and n.get("referencedDecl", {}).get("name") in plocals:
                r.add(n["referencedDecl"]["name"])
            for ch in inner(n):
                r |= uses(ch)
            return r
        used = uses(wb)
        if used:
            raise Untranslatable("the loop body uses the locals %s of the prologue" % ", ".join(sorted(used)))
        self.mode = "iter"
        self.locals = {self.sock}
        self.arrays = {}
        it = self.stmts([wb], lambda: self.leave(0))
        nm, sv = self.fn["name"], gname(self.sock)
        return ("Definition %s__prologue_gen (%s : store) : eff :=\n%s.\n" % (nm, sv, pro),
                "Definition %s__iter_gen (%s : store) : eff :=\n%s.\n" % (nm, sv, it))


def generate_fsm():
    """text of Gen/GeneratedFsm.v: effect trees of the RTR client state machine"""
    out, problems = [], []
    w = out.append
    w("(* GENERATED by tools/c2v.py (effect mode) from the repository sources - do not edit. *)")
    w("From RtrV Require Import Base.CSem Base.Mem Base.Eff Gen.Generated Gen.GeneratedMem.")
    w("Local Open Scope string_scope.\nLocal Open Scope Z_scope.\n")
    if "known" not in _MEM_CTX:
        generate_mem()
    mem_known = dict(_MEM_CTX.get("known", {}))
    enums_all = dict(_MEM_CTX.get("enums", {}))
    sizes = _MEM_CTX.get("sizes", {})
    eff_known = {}
    for cfile, fname, what in FSM_LEAFS:
        names = [fname] if what == "fn" else [fname + "__prologue", fname + "__iter"]
        try:
            fn = find_def(cfile, fname)
            if fn is None:
                raise Untranslatable("definition not found")
            tr = TrEff(fn, eff_known, mem_known, enums_all, sizes)
            if what == "fn":
                text, rk = tr.function()
                eff_known[fname] = rk
                w("(* %s : %s *)" % (cfile, fname))
                w(text)
            else:
                pro, it = tr.loop()
                w("(* %s : %s - the statements before its `while (1)` loop; ERet 0 = returned, ERet 1 = enters the loop *)" % (cfile, fname))
                w(pro)
                w("(* %s : %s - ONE iteration of its `while (1)` loop; ERet 0 = go round again *)" % (cfile, fname))
                w(it)
        except Exception as e:  # noqa: BLE001
            problems.append("function %s: %s" % (fname, e))
            for nm in names:
                w("(* %s could not be translated: %s *)" % (nm, str(e).replace("*)", "* )")))
                w("Definition %s_untranslated := tt.\n" % nm)
    w("Definition fsm_translator_problems : list string := [%s]." % "; ".join(coq_string(p[:200]) for p in problems))
    return "\n".join(out) + "\n", problems


# ---------------------------------------------------------------------------
# effect mode, second stage (class TrEff2, output Gen/GeneratedFsm2.v): rtr_sync and what it is made of, rtr_stop
# ---------------------------------------------------------------------------
# On top of TrEff:
#   * a second parameter that points into a byte buffer (`const void *buf`, `char *pdu`): the buffer is a memory object
#     `m_<param> : list Z` and the pointer an offset `v_<param> : option Z` exactly as in memory mode; pointer locals
#     initialised from it (`const struct pdu_error *pdu = buf`) point into the same object; `p->field` is a guarded
#     little-endian load (ld_ok / ldu / lds of Base/Mem.v) - a load outside the object is EUndef.  The translated
#     function is  <f>_gen (m_<param> : list Z) (v_<param> : option Z) (<socket> : store) : eff.
#   * `switch` on an integer expression without calls (as in Tr: arms as an if-chain, `break` = the code behind the switch).
#   * `do { body } while (cond)` in a "fuel" entry: the function gets a parameter fuel__ : nat and the loop becomes an
#     auxiliary
#         Fixpoint <f>__loop<n> (fuel__ : nat) <locals live at the loop> <socket> : eff
#     = body; if cond then <f>__loop<n> fuel__ ... else <THE REST OF THE FUNCTION>.  The C loop has no bound: at
#     fuel__ = 0 the tree makes the pseudo-call ECall "c2v_out_of_fuel" [] and returns -1 - a marker for the
#     interpretation (the model bounds the same loop by fuel and returns -1 there), not C behaviour.  cond must not call.
#   * `const char txt[] = "..."`: a memory object with the literal's bytes and its terminating 0.
#   * external calls may take INPUT buffers (a local array that has been written, or such a string): the argument list
#     carries, at the argument's position, the object's length followed by its bytes (a null pointer: the single number
#     0, which reads as "no bytes");  `&sock->field` is an out-parameter whose new value is stored into the field after
#     the call (written-only for the pairs of EFF_OUT_ONLY).
#   * a call of a function translated in this file may hand on the buffer (`rtr_handle_error_pdu(rtr_socket, pdu)` with
#     pdu a written local array: the object at offset 0) and, if the callee takes fuel, fuel__.
#   * SLICE (entry option "skip"): the declarations of the named locals are not translated, nor are the `if`
#     statements behind them that mention them - these must be free of effects (no call other than the debug printers,
#     no assignment to anything declared outside them): rtr_handle_error_pdu's len_err_txt only feeds debug output.
#     The LOAD in the skipped initialiser is not represented (it is the subject of C04_error_text_len_load_inside).
FSM2_LEAFS = [
    ("rtrlib/rtr/rtr.c", "rtr_stop", {}),
    ("rtrlib/rtr/packets.c", "rtr_set_last_update", {}),
    ("rtrlib/rtr/packets.c", "rtr_handle_error_pdu", {"skip": ["len_err_txt"]}),
    ("rtrlib/rtr/packets.c", "rtr_handle_cache_response_pdu", {}),
    ("rtrlib/rtr/packets.c", "rtr_sync", {"fuel": True}),
]
FSM2_OUT = os.path.join(vlib.THEORIES, "Gen", "GeneratedFsm2.v")


class TrEff2(TrEff, TrMem):
    def __init__(self, fn, eff_known, mem_known, enums, sizes, opts):
        TrEff.__init__(self, fn, eff_known, mem_known, enums, sizes)
        self.ptr_locals = set()
        self.obj_of = {}              # buffer pointer variable -> object variable
        self.buf_param = None
        self.opts = opts
        self.skipped = set()
        self.aux = []
        self.nloop = 0
        self.decl_order = []

    # -- memory ----------------------------------------------------------------
    def base_var(self, n):
        k = n.get("kind")
        if k in ("ParenExpr", "ImplicitCastExpr", "CStyleCastExpr", "MemberExpr", "ArraySubscriptExpr"):
            return self.base_var(inner(n)[0])
        if k == "UnaryOperator" and n.get("opcode") in ("*", "&"):
            return self.base_var(inner(n)[0])
        if k == "BinaryOperator" and n.get("opcode") in ("+", "-"):
            a, b = inner(n)
            return self.base_var(a if is_ptr_type(self.qt(a)) or "[" in self.qt(a) else b)
        if k == "DeclRefExpr":
            return n["referencedDecl"]["name"]
        return None

    def objof(self, n):
        b = self.base_var(n)
        if b in self.obj_of:
            return self.obj_of[b]
        raise Untranslatable("no memory object behind " + str(b))

    def in_buffer(self, lv):
        return self.through_pointer(lv) and self.base_var(lv) in self.ptr_locals

    def expr(self, n):
        k = n.get("kind")
        if k in ("ImplicitCastExpr", "CStyleCastExpr") and n.get("castKind") == "LValueToRValue":
            sub = inner(n)[0]
            if self.in_buffer(sub):
                return self.load(sub, n)
        if k in ("MemberExpr", "ArraySubscriptExpr") and self.in_buffer(n):
            return self.load(n, n)
        if k == "UnaryOperator" and n.get("opcode") == "*" and self.in_buffer(n):
            return self.load(n, n)
        if k == "UnaryExprOrTypeTraitExpr" and n.get("name") == "sizeof":
            at = (n.get("argType") or {}).get("qualType")
            if at is None and inner(n):
                at = (inner(n)[0].get("type") or {}).get("qualType")
            m = re.fullmatch(r"(?:const )?(?:unsigned |signed )?char\s*\[(\d+)\]", at or "")
            if m:
                return [], "(%s)" % m.group(1)
        if k == "DeclRefExpr" and n.get("referencedDecl", {}).get("name") in self.skipped:
            raise Untranslatable("use of the skipped local " + n["referencedDecl"]["name"])
        return TrEff.expr(self, n)

    def mentions(self, n, names):
        if n.get("kind") == "DeclRefExpr" and n.get("referencedDecl", {}).get("name") in names:
            return True
        return any(self.mentions(c, names) for c in inner(n))

    def effect_free(self, s, declared):
        """no call other than the no-ops, no assignment to anything not declared inside"""
        k = s.get("kind")
        if k == "CallExpr":
            return self.callee(s) in EFF_NOOPS
        if k in ("BinaryOperator", "CompoundAssignOperator") and s.get("opcode", "").endswith("=") \
                and s["opcode"] not in ("==", "!=", "<=", ">="):
            return False
        if k == "UnaryOperator" and s.get("opcode") in ("++", "--"):
            return False
        if k in ("ReturnStmt", "BreakStmt", "ContinueStmt", "GotoStmt", "WhileStmt", "DoStmt", "ForStmt", "SwitchStmt"):
            return False
        return all(self.effect_free(c, declared) for c in inner(s))

    # -- calls -------------------------------------------------------------------
    def buffer_arg(self, a):
        """-> (object variable, pointer term) for an argument that points into a known object, else None"""
        aa = strip_casts(a, ("ImplicitCastExpr", "ParenExpr", "CStyleCastExpr"))
        if aa.get("kind") == "DeclRefExpr":
            nm = aa["referencedDecl"]["name"]
            if nm in self.arrays:
                return self.arrays[nm][0], "(Some 0)", nm
            if nm in self.ptr_locals:
                return self.obj_of[nm], gname(nm), nm
        return None

    def emit_call(self, c, var, nxt):
        name = self.callee(c)
        if name is None:
            raise Untranslatable("call through a pointer")
        args = inner(c)[1:]
        sv = gname(self.sock)
        is_void = (c.get("type") or {}).get("qualType", "") == "void"
        if name in self.mem_known:
            kinds = self.mem_known[name][0]
            ts, g, obj = [], [], None
            for a, kd in zip(args, kinds):
                if kd == "ptr":
                    ba = self.buffer_arg(a)
                    if ba is None:
                        raise Untranslatable("pointer argument of %s points into no known object" % name)
                    if obj not in (None, ba[0]):
                        raise Untranslatable("two memory objects handed to " + name)
                    obj = ba[0]
                    ts.append(ba[1])
                else:
                    ga, ta = self.expr(a)
                    g += ga
                    ts.append(ta)
            if obj is None:
                raise Untranslatable("no memory object for " + name)
            return self.eguarded(g, "eopt (%s_gen %s %s) (fun %s =>\n%s)" % (name, obj, " ".join(ts), var or "_", nxt()))
        if name in self.eff_known:
            info = self.eff_known[name]
            pre = []
            if info.get("fuel"):
                if not self.opts.get("fuel"):
                    raise Untranslatable("call to %s, which takes fuel, from a function that has none" % name)
                pre.append("fuel__")
            a0 = strip_casts(args[0]) if args else {}
            if not (a0.get("kind") == "DeclRefExpr" and a0["referencedDecl"]["name"] == self.sock):
                raise Untranslatable("call to %s: the first argument is not the socket" % name)
            if info.get("buf"):
                if len(args) != 2:
                    raise Untranslatable("call to %s: arguments" % name)
                ba = self.buffer_arg(args[1])
                if ba is None:
                    raise Untranslatable("call to %s: the buffer argument points into no known object" % name)
                if ba[2] in self.arrays and not self.arrays[ba[2]][1]:
                    raise Untranslatable("call to %s with an unwritten array" % name)
                pre += [ba[0], ba[1]]
            elif len(args) != 1:
                raise Untranslatable("call to %s with other arguments than the socket" % name)
            return "ebind (%s_gen %s) (fun %s %s =>\n%s)" % (name, " ".join(pre + [sv]), var or "_", sv, nxt())
        # not translated
        g, segs, outs, fouts, buf = [], [], [], [], None

        def scalar(t):
            if segs and segs[-1][0] == "s":
                segs[-1][1].append(t)
            else:
                segs.append(("s", [t]))
        for i, a in enumerate(args):
            aa = strip_casts(a, ("ImplicitCastExpr", "ParenExpr", "CStyleCastExpr"))
            q = (a.get("type") or {}).get("qualType", "")
            if aa.get("kind") == "DeclRefExpr" and aa["referencedDecl"]["name"] == self.sock:
                continue
            if aa.get("kind") == "MemberExpr" and is_ptr_type((aa.get("type") or {}).get("qualType", "")):
                b, _ = self.lvalue_key(aa)
                if b == self.sock:
                    continue
                raise Untranslatable("pointer argument of " + name)
            if aa.get("kind") == "UnaryOperator" and aa.get("opcode") == "&":
                tgt = strip_casts(inner(aa)[0])
                if tgt.get("kind") == "DeclRefExpr" and tgt["referencedDecl"]["name"] in self.locals \
                        and tgt["referencedDecl"]["name"] not in self.arrays and tgt["referencedDecl"]["name"] != self.sock \
                        and tgt["referencedDecl"]["name"] not in self.ptr_locals:
                    nm = tgt["referencedDecl"]["name"]
                    if (name, i) not in EFF_OUT_ONLY:
                        scalar(gname(nm))
                    outs.append(("local", nm))
                    continue
                if tgt.get("kind") == "MemberExpr" and self.ty(tgt) is not None:
                    b, key = self.lvalue_key(tgt)
                    if b == self.sock:
                        if (name, i) not in EFF_OUT_ONLY:
                            scalar('(sget "%s" %s)' % (key, sv))
                        outs.append(("field", key))
                        continue
                raise Untranslatable("address-of argument of " + name)
            if aa.get("kind") == "DeclRefExpr" and aa["referencedDecl"]["name"] in self.arrays:
                ent = self.arrays[aa["referencedDecl"]["name"]]
                if ent[1]:
                    segs.append(("b", ent[0]))           # input buffer: length, bytes
                    continue
                if buf is not None:
                    raise Untranslatable("two unwritten arrays handed to " + name)
                buf = ent
                continue
            if is_null_ptr(a):
                scalar("(0)")
                continue
            if is_ptr_type(q):
                raise Untranslatable("pointer argument of " + name)
            ga, ta = self.expr(a)
            g += ga
            scalar(ta)
        lets, pos = [], 0
        if not is_void:
            if var:
                lets.append("let %s := nth %d%%nat res__ 0 in" % (var, pos))
            pos += 1
        for kind_, nm in outs:
            if kind_ == "local":
                lets.append("let %s := nth %d%%nat res__ 0 in" % (gname(nm), pos))
            else:
                lets.append('let %s := sset "%s" (nth %d%%nat res__ 0) %s in' % (sv, nm, pos, sv))
            pos += 1
        if buf is not None:
            lets.append("let %s := skipn %d%%nat res__ in" % (buf[0], pos))
            buf[1] = True
        parts = []
        for kd, v in segs:
            parts.append("[%s]" % "; ".join(v) if kd == "s" else "(Z.of_nat (List.length %s) :: %s)" % (v, v))
        if not parts:
            argt = "[]"
        elif len(parts) == 1 and segs[0][0] == "s":
            argt = parts[0]
        else:
            argt = "(" + " ++ ".join(parts) + ")%list"
        body = nxt()
        return self.eguarded(g, 'ECall "%s" %s %s (fun res__ %s =>\n%s%s)'
                             % (name, argt, sv, sv, "".join(x + "\n" for x in lets), body))

    # -- statements ----------------------------------------------------------------
    def live_params(self):
        """the locals a loop function takes, in declaration order: (Coq binder, Coq name)"""
        out = []
        for nm in self.decl_order:
            if nm in self.arrays:
                out.append(("(%s : list Z)" % self.arrays[nm][0], self.arrays[nm][0]))
            elif nm in self.ptr_locals:
                raise Untranslatable("pointer local live at a loop")
            elif nm in self.locals:
                out.append(("(%s : Z)" % gname(nm), gname(nm)))
        return out

    def stmts(self, lst, k):
        if not lst:
            return k()
        s, rest = lst[0], lst[1:]
        kind = s.get("kind")
        nxt = lambda: self.stmts(rest, k)  # noqa: E731
        sv = gname(self.sock)
        if kind == "DeclStmt":
            ds = inner(s)
            if len(ds) == 1 and ds[0].get("kind") == "VarDecl":
                d = ds[0]
                q = d["type"].get("desugaredQualType", d["type"]["qualType"])
                ins = inner(d)
                if d["name"] in self.opts.get("skip", ()):
                    if ins and not self.effect_free(ins[0], set()):
                        raise Untranslatable("skipped local %s has an initialiser with effects" % d["name"])
                    self.skipped.add(d["name"])
                    return nxt()
                if is_ptr_type(q) and ins:
                    g, t = self.pexpr(ins[0])
                    self.obj_of[d["name"]] = self.objof(ins[0])
                    self.locals.add(d["name"])
                    self.ptr_locals.add(d["name"])
                    self.decl_order.append(d["name"])
                    return self.eguarded(g, "let %s := %s in\n%s" % (gname(d["name"]), t, nxt()))
                m = re.fullmatch(r"(?:const )?char\s*\[(\d+)\]", q)
                lit = strip_casts(ins[0]) if ins else {}
                if m and lit.get("kind") == "StringLiteral":
                    bs = list(json.loads(lit["value"]).encode("latin-1")) + [0]
                    if len(bs) != int(m.group(1)):
                        raise Untranslatable("string initialiser of %s: length" % d["name"])
                    obj = "m_" + d["name"]
                    self.locals.add(d["name"])
                    self.arrays[d["name"]] = [obj, True]
                    self.decl_order.append(d["name"])
                    return "let %s : list Z := [%s] in\n%s" % (obj, "; ".join(str(b) for b in bs), nxt())
            for d in ds:
                if d.get("kind") == "VarDecl":
                    self.decl_order.append(d["name"])
            return TrEff.stmts(self, lst, k)
        if kind == "IfStmt" and self.skipped and self.mentions(s, self.skipped):
            if not self.effect_free(s, set()):
                raise Untranslatable("an `if` that mentions a skipped local has effects")
            return nxt()
        if kind == "SwitchStmt":
            ins = inner(s)
            if self.calls_in(ins[0]):
                raise Untranslatable("call in the switch expression")
            g, tx = self.expr(ins[0])
            items = []

            def flat(n):
                kk = n.get("kind")
                if kk == "CaseStmt":
                    cins = inner(n)
                    gv, tv = self.expr(cins[0])
                    items.append(("case", tv))
                    flat(cins[-1])
                elif kk == "DefaultStmt":
                    items.append(("case", None))
                    flat(inner(n)[-1])
                else:
                    items.append(("stmt", n))
            for c in inner(ins[1]):
                flat(c)
            snap = self.snapshot()

            def from_pos(p):
                out = []
                for it in items[p:]:
                    if it[0] != "stmt":
                        continue
                    if it[1].get("kind") == "BreakStmt":
                        break
                    out.append(it[1])
                self.restore(snap)
                self.break_k.append(nxt)
                r = self.stmts(out, nxt)
                self.break_k.pop()
                self.restore(snap)
                return r
            xv = "sw__%d" % self.fresh
            self.fresh += 1
            arms, default_pos = [], None
            for p, it in enumerate(items):
                if it[0] == "case":
                    if it[1] is None:
                        default_pos = p
                    else:
                        arms.append((it[1], p))
            term = from_pos(default_pos) if default_pos is not None else nxt()
            for val, p in reversed(arms):
                term = "if (%s =? %s)\nthen (%s)\nelse (%s)" % (xv, val, from_pos(p), term)
            return self.eguarded(g, "let %s := %s in\n%s" % (xv, tx, term))
        if kind == "BreakStmt" and self.break_k:
            return self.break_k[-1]()
        if kind == "DoStmt":
            if not self.opts.get("fuel"):
                raise Untranslatable("do-while loop in a function without fuel")
            body, cnd = inner(s)[0], inner(s)[1]
            js = json.dumps(body)
            if '"BreakStmt"' in js or '"ContinueStmt"' in js:
                raise Untranslatable("break / continue in a do-while loop")
            if self.calls_in(cnd):
                raise Untranslatable("call in the loop condition")
            params = self.live_params()
            lname = "%s__loop%d" % (self.fn["name"], self.nloop)
            self.nloop += 1
            names = " ".join(nm for _, nm in params)
            call = "%s fuel__ %s %s" % (lname, names, sv)
            saved_break = self.break_k
            self.break_k = []
            snap = self.snapshot()

            def after():
                g, tc = self.cond(cnd)
                again = "%s fuel__ %s %s" % (lname, " ".join(nm for _, nm in params), sv)
                return self.eguarded(g, "if %s\nthen (%s)\nelse (%s)" % (tc, again, nxt()))
            bt = self.stmts([body], after)
            self.break_k = saved_break
            self.aux.append(
                "Fixpoint %s (fuel__ : nat) %s (%s : store) {struct fuel__} : eff :=\nmatch fuel__ with\n"
                "| O => ECall \"c2v_out_of_fuel\" [] %s (fun res__ %s => ERet (-1) %s)\n| S fuel__ =>\n%s\nend.\n"
                % (lname, " ".join(b for b, _ in params), sv, sv, sv, sv, bt))
            return call
        return TrEff.stmts(self, lst, k)

    # -- whole function ------------------------------------------------------------
    def setup(self):
        fn = self.fn
        params = [c for c in inner(fn) if c.get("kind") == "ParmVarDecl"]
        if not params or not re.fullmatch(r"struct rtr_socket \*", params[0]["type"]["qualType"].replace("const ", "").strip()):
            raise Untranslatable("the first parameter is not the socket")
        if len(params) > 2:
            raise Untranslatable("more than two parameters")
        self.sock = params[0]["name"]
        self.locals.add(self.sock)
        self.ptr_params = [self.sock]
        self.result_kind = "eff"
        if len(params) == 2:
            p = params[1]
            if not is_ptr_type(p["type"]["qualType"]) or "struct rtr_socket" in p["type"]["qualType"]:
                raise Untranslatable("the second parameter is not a buffer pointer")
            self.buf_param = p["name"]
            self.locals.add(p["name"])
            self.ptr_locals.add(p["name"])
            self.obj_of[p["name"]] = "m_" + p["name"]
        return [c for c in inner(fn) if c.get("kind") == "CompoundStmt"][0]

    def function(self, mutates=False):
        body = self.setup()
        rq = self.fn["type"]["qualType"].split("(")[0].strip()
        fall = (lambda: self.leave(0)) if rq == "void" else (lambda: "EUndef (* falls off the end *)")
        term = self.stmts([body], fall)
        sig = []
        if self.opts.get("fuel"):
            sig.append("(fuel__ : nat)")
        if self.buf_param:
            sig += ["(m_%s : list Z)" % self.buf_param, "(%s : option Z)" % gname(self.buf_param)]
        sig.append("(%s : store)" % gname(self.sock))
        text = "".join(a + "\n" for a in self.aux) + "Definition %s_gen %s : eff :=\n%s.\n" % (self.fn["name"], " ".join(sig), term)
        return text, {"ret": "void" if rq == "void" else "Z", "buf": bool(self.buf_param), "fuel": bool(self.opts.get("fuel"))}


def generate_fsm2():
    """text of Gen/GeneratedFsm2.v: rtr_sync and its parts, rtr_stop, as effect trees"""
    out, problems = [], []
    w = out.append
    w("(* GENERATED by tools/c2v.py (effect mode, second stage) from the repository sources - do not edit. *)")
    w("From RtrV Require Import Base.CSem Base.Mem Base.Eff Gen.Generated Gen.GeneratedMem.")
    w("Local Open Scope string_scope.\nLocal Open Scope Z_scope.\n")
    if "known" not in _MEM_CTX:
        generate_mem()
    mem_known = dict(_MEM_CTX.get("known", {}))
    enums_all = dict(_MEM_CTX.get("enums", {}))
    sizes = _MEM_CTX.get("sizes", {})
    eff_known = {}
    for cfile, fname, opts in FSM2_LEAFS:
        try:
            fn = find_def(cfile, fname)
            if fn is None:
                raise Untranslatable("definition not found")
            tr = TrEff2(fn, eff_known, mem_known, enums_all, sizes, opts)
            text, info = tr.function()
            eff_known[fname] = info
            w("(* %s : %s%s%s *)" % (cfile, fname,
                                     " - SLICE: without the locals %s and the effect-free `if`s that mention them"
                                     % ", ".join(opts["skip"]) if opts.get("skip") else "",
                                     " - its do-while loop by fuel" if opts.get("fuel") else ""))
            w(text)
        except Exception as e:  # noqa: BLE001
            problems.append("function %s: %s" % (fname, e))
            w("(* %s could not be translated: %s *)" % (fname, str(e).replace("*)", "* )")))
            w("Definition %s_untranslated := tt.\n" % fname)
    w("Definition fsm2_translator_problems : list string := [%s]." % "; ".join(coq_string(p[:200]) for p in problems))
    return "\n".join(out) + "\n", problems


# ---------------------------------------------------------------------------
# effect mode, third stage (class TrEff3, output Gen/GeneratedFsm3.v): rtr_receive_pdu
# ---------------------------------------------------------------------------
# On top of TrEff2 (vocabulary Base/EffMem.v next to Base/Mem.v, Base/MemW.v, Base/Eff.v):
#   * scalar parameters behind the buffer parameter; the buffer parameter may be WRITTEN.  Since ERet has no slot for
#     it, every `return e` of such a function is   ECall "c2v_ret_buffer" <the object's bytes> s (fun _ s => ERet e s):
#     the pseudo-call hands the final content of the buffer to the interpretation.
#   * a local struct (`struct pdu_header header`) is a memory object m_<name> of sizeof bytes (zeros before its first
#     write, as local arrays in memory mode with stores); `header.len` is a guarded load from it, `&header` its address.
#   * memcpy(d, s, n) between two DIFFERENT objects: guards ld_ok / st_ok over the whole ranges, then mcopy (Base/MemW.v).
#   * a call of a function of GeneratedMemW.v that writes its one pointer argument (rtr_pdu_header_to_host_byte_order,
#     rtr_pdu_footer_to_host_byte_order) - or of FSM3_MEMW_EXTRA, translated here in memory mode with stores
#     (rtr_pdu_header_to_network_byte_order) - is  eopt (<f>_gen m p) (fun m => ...): the object is replaced.
#   * external calls that WRITE through a pointer argument into a known object (EFF_WRITES: tr_recv_all writes at most
#     `len` bytes at its 2nd argument): guard st_ok for the whole range, the bytes written are the rest of res__
#     (cut to len), stored with mwrite.
#   * input buffers of external calls may also be a pointer into a known object (the bytes from the pointer to the
#     object's end, length first) or a string literal (its bytes and the terminating 0, length first).
#   * `goto L` with L a label at the top level of the function body: the statements from the label to the end of the
#     function are translated in place of the goto (once per goto); reaching the label from above is the same.
EFF_WRITES = {("tr_recv_all", 1): 2}          # (callee, pointer argument) -> argument holding the maximal length
FSM3_MEMW_EXTRA = [("rtrlib/rtr/packets.c", "rtr_pdu_header_to_network_byte_order")]
FSM3_LEAFS = [("rtrlib/rtr/packets.c", "rtr_receive_pdu", {"writes_buf": True})]
FSM3_OUT = os.path.join(vlib.THEORIES, "Gen", "GeneratedFsm3.v")


class TrEff3(TrEff2):
    def __init__(self, fn, eff_known, mem_known, memw_known, enums, sizes, opts):
        TrEff2.__init__(self, fn, eff_known, mem_known, enums, sizes, opts)
        self.memw_known = memw_known
        self.struct_objs = {}
        self.labels = {}
        self.scalar_params = []

    # -- memory ----------------------------------------------------------------
    def paddr(self, n):
        if n.get("kind") == "DeclRefExpr" and n["referencedDecl"]["name"] in self.struct_objs:
            return [], "(Some 0)"
        return TrMem.paddr(self, n)

    def in_struct(self, lv):
        k = lv.get("kind")
        if k == "ParenExpr":
            return self.in_struct(inner(lv)[0])
        if k == "MemberExpr" and not lv.get("isArrow"):
            b = inner(lv)[0]
            while b.get("kind") == "ParenExpr":
                b = inner(b)[0]
            if b.get("kind") == "DeclRefExpr":
                return b["referencedDecl"]["name"] in self.struct_objs
            return self.in_struct(b)
        return False

    def expr(self, n):
        k = n.get("kind")
        if k in ("ImplicitCastExpr", "CStyleCastExpr") and n.get("castKind") == "LValueToRValue" and self.in_struct(inner(n)[0]):
            return self.load(inner(n)[0], n)
        if k == "MemberExpr" and self.in_struct(n):
            return self.load(n, n)
        return TrEff2.expr(self, n)

    def buffer_arg(self, a):
        r = TrEff2.buffer_arg(self, a)
        if r is not None:
            return r
        if is_ptr_type(self.qt(a)) and not is_null_ptr(a):
            try:
                g, t = self.pexpr(a)
                obj = self.objof(a)
            except Untranslatable:
                return None
            if g:
                return None
            return obj, t, None
        return None

    def byte_seg(self, a):
        """an input-buffer argument -> Coq list term (length first), or None"""
        aa = strip_casts(a, ("ImplicitCastExpr", "ParenExpr", "CStyleCastExpr"))
        if aa.get("kind") == "StringLiteral":
            bs = list(json.loads(aa["value"]).encode("latin-1")) + [0]
            return "(%d :: [%s])" % (len(bs), "; ".join(str(b) for b in bs))
        if aa.get("kind") == "DeclRefExpr" and aa["referencedDecl"]["name"] in self.arrays:
            ent = self.arrays[aa["referencedDecl"]["name"]]
            if ent[1]:
                return "(Z.of_nat (List.length %s) :: %s)" % (ent[0], ent[0])
            return None
        ba = self.buffer_arg(a)
        if ba is not None:
            return "(Z.of_nat (List.length (mfrom %s %s)) :: mfrom %s %s)" % (ba[0], ba[1], ba[0], ba[1])
        return None

    # -- calls -------------------------------------------------------------------
    def emit_call(self, c, var, nxt):
        name = self.callee(c)
        args = inner(c)[1:]
        sv = gname(self.sock)
        if name in self.memw_known and name not in self.mem_known:
            kinds, tag, widx, has_value = self.memw_known[name]
            if kinds != ["ptr"] or widx != [0] or has_value:
                raise Untranslatable("call to %s: only writers of one pointer argument are supported" % name)
            ba = self.buffer_arg(args[0])
            if ba is None:
                raise Untranslatable("call to %s: the argument points into no known object" % name)
            return "eopt (%s_gen %s %s) (fun %s =>\n%s)" % (name, ba[0], ba[1], ba[0], nxt())
        if name in self.mem_known or name in self.eff_known:
            return TrEff2.emit_call(self, c, var, nxt)
        is_void = (c.get("type") or {}).get("qualType", "") == "void"
        g, parts, outs, buf, wr = [], [], [], None, None
        for i, a in enumerate(args):
            aa = strip_casts(a, ("ImplicitCastExpr", "ParenExpr", "CStyleCastExpr"))
            q = (a.get("type") or {}).get("qualType", "")
            if aa.get("kind") == "DeclRefExpr" and aa["referencedDecl"]["name"] == self.sock:
                continue
            if aa.get("kind") == "MemberExpr" and is_ptr_type((aa.get("type") or {}).get("qualType", "")):
                b, _ = self.lvalue_key(aa)
                if b == self.sock:
                    continue
                raise Untranslatable("pointer argument of " + name)
            if (name, i) in EFF_WRITES:
                ba = self.buffer_arg(a)
                if ba is None or wr is not None:
                    raise Untranslatable("written argument of " + name)
                gl, tl = self.expr(args[EFF_WRITES[(name, i)]])
                g += gl
                wr = (ba[0], ba[1], tl)
                continue
            if aa.get("kind") == "DeclRefExpr" and aa["referencedDecl"]["name"] in self.arrays \
                    and not self.arrays[aa["referencedDecl"]["name"]][1]:
                if buf is not None:
                    raise Untranslatable("two unwritten arrays handed to " + name)
                buf = self.arrays[aa["referencedDecl"]["name"]]
                continue
            if is_null_ptr(a):
                parts.append("[(0)]")
                continue
            seg = self.byte_seg(a)
            if seg is not None:
                parts.append(seg)
                continue
            if is_ptr_type(q):
                raise Untranslatable("pointer argument of " + name)
            ga, ta = self.expr(a)
            g += ga
            parts.append("[%s]" % ta)
        lets, pos = [], 0
        if not is_void:
            if var:
                lets.append("let %s := nth %d%%nat res__ 0 in" % (var, pos))
            pos += 1
        if buf is not None and wr is not None:
            raise Untranslatable("two output buffers of " + name)
        if buf is not None:
            lets.append("let %s := skipn %d%%nat res__ in" % (buf[0], pos))
            buf[1] = True
        if wr is not None:
            g.append("(st_ok %s %s %s)" % wr)
            lets.append("let %s := mwrite %s %s (firstn (Z.to_nat %s) (skipn %d%%nat res__)) in" % (wr[0], wr[0], wr[1], wr[2], pos))
        argt = "(" + " ++ ".join(parts) + ")%list" if parts else "[]"
        body = nxt()
        return self.eguarded(g, 'ECall "%s" %s %s (fun res__ %s =>\n%s%s)'
                             % (name, argt, sv, sv, "".join(x + "\n" for x in lets), body))

    # -- statements ----------------------------------------------------------------
    def stmts(self, lst, k):
        if not lst:
            return k()
        s, rest = lst[0], lst[1:]
        kind = s.get("kind")
        nxt = lambda: self.stmts(rest, k)  # noqa: E731
        sv = gname(self.sock)
        if kind == "DeclStmt":
            ds = inner(s)
            if len(ds) == 1 and ds[0].get("kind") == "VarDecl" and not inner(ds[0]):
                d = ds[0]
                q = d["type"].get("desugaredQualType", d["type"]["qualType"])
                m = re.fullmatch(r"struct (\w+)", q)
                if m and ("S", m.group(1)) in self.sizes:
                    obj = "m_" + d["name"]
                    self.locals.add(d["name"])
                    self.struct_objs[d["name"]] = obj
                    self.obj_of[d["name"]] = obj
                    self.decl_order.append(d["name"])
                    return "let %s : list Z := zeros %d in\n%s" % (obj, self.sizes[("S", m.group(1))], nxt())
        if kind == "CallExpr" and self.callee(s) == "memcpy":
            d, sr, n = inner(s)[1:]
            bd, bs = self.buffer_arg(d), self.buffer_arg(sr)
            if bd is None or bs is None or bd[0] == bs[0]:
                raise Untranslatable("memcpy: two different known objects wanted")
            g, tn = self.expr(n)
            return self.eguarded(g + ["(ld_ok %s %s %s)" % (bs[0], bs[1], tn), "(st_ok %s %s %s)" % (bd[0], bd[1], tn)],
                                 "let %s := mcopy %s %s %s %s %s in\n%s" % (bd[0], bd[0], bd[1], bs[0], bs[1], tn, nxt()))
        if kind == "GotoStmt":
            tgt = s.get("targetLabelDeclId")
            if tgt not in self.labels:
                raise Untranslatable("goto to a label that is not at the top level of the function")
            snap = self.snapshot()
            r = self.stmts(self.labels[tgt], self.fall)
            self.restore(snap)
            return r
        if kind == "LabelStmt":
            return self.stmts([inner(s)[-1]] + rest, k)
        if kind == "ReturnStmt" and self.opts.get("writes_buf"):
            ins = inner(s)
            if not ins or self.calls_in(ins[0]):
                raise Untranslatable("return shape")
            g, t = self.expr(ins[0])
            obj = self.obj_of[self.buf_param]
            return self.eguarded(g, 'ECall "c2v_ret_buffer" %s %s (fun res__ %s =>\nERet %s %s)' % (obj, sv, sv, t, sv))
        return TrEff2.stmts(self, lst, k)

    def snapshot(self):
        a, b = TrEff2.snapshot(self)
        return a, b, dict(self.struct_objs), dict(self.obj_of), set(self.ptr_locals)

    def restore(self, snap):
        TrEff2.restore(self, (snap[0], snap[1]))
        self.struct_objs, self.obj_of, self.ptr_locals = dict(snap[2]), dict(snap[3]), set(snap[4])

    # -- whole function ------------------------------------------------------------
    def function(self, mutates=False):
        fn = self.fn
        params = [c for c in inner(fn) if c.get("kind") == "ParmVarDecl"]
        if len(params) < 2 or not re.fullmatch(r"struct rtr_socket \*", params[0]["type"]["qualType"].replace("const ", "").strip()):
            raise Untranslatable("parameters: socket, buffer, scalars wanted")
        self.sock = params[0]["name"]
        self.locals.add(self.sock)
        self.ptr_params = [self.sock]
        self.result_kind = "eff"
        p = params[1]
        if not is_ptr_type(p["type"]["qualType"]):
            raise Untranslatable("the second parameter is not a buffer pointer")
        self.buf_param = p["name"]
        self.locals.add(p["name"])
        self.ptr_locals.add(p["name"])
        self.obj_of[p["name"]] = "m_" + p["name"]
        sig = ["(m_%s : list Z)" % p["name"], "(%s : option Z)" % gname(p["name"])]
        for q in params[2:]:
            if not (int_type(q["type"].get("desugaredQualType", q["type"]["qualType"])) or int_type(q["type"]["qualType"])):
                raise Untranslatable("parameter type " + q["type"]["qualType"])
            self.locals.add(q["name"])
            sig.append("(%s : Z)" % gname(q["name"]))
        sig.append("(%s : store)" % gname(self.sock))
        body = [c for c in inner(fn) if c.get("kind") == "CompoundStmt"][0]
        top = inner(body)
        for i, c in enumerate(top):
            if c.get("kind") == "LabelStmt":
                self.labels[c.get("declId")] = [inner(c)[-1]] + top[i + 1:]
        rq = fn["type"]["qualType"].split("(")[0].strip()
        if rq == "void":
            raise Untranslatable("void function with a written buffer")
        self.fall = lambda: "EUndef (* falls off the end *)"
        term = self.stmts(top, self.fall)
        text = "Definition %s_gen %s : eff :=\n%s.\n" % (fn["name"], " ".join(sig), term)
        return text, {"ret": "Z", "buf": True, "fuel": False}


def memw_signatures():
    """signatures of the functions of GeneratedMemW.v (the loop of generate_memw, without output)"""
    if "known" not in _MEM_CTX:
        generate_mem()
    known = dict(_MEM_CTX.get("known", {}))
    enums_all = dict(_MEM_CTX.get("enums", {}))
    sizes = _MEM_CTX.get("sizes", {})
    for cfile, en in MEMW_ENUMS:
        try:
            for n, v in enum_values(cfile, en):
                enums_all.setdefault(n, v)
        except Exception:  # noqa: BLE001
            pass
    for cfile, fname, sl in MEMW_LEAFS:
        try:
            fn = find_def(cfile, fname)
            tr = TrMemW(fn, known, enums_all, sizes, {})
            text, sig = tr.function() if sl is None else tr.slice(sl)
            known[fname if sl is None else "%s__%s" % (fname, sl[-1])] = sig
        except Exception:  # noqa: BLE001
            pass
    return known, enums_all, sizes


def generate_fsm3():
    """text of Gen/GeneratedFsm3.v: rtr_receive_pdu as an effect tree"""
    out, problems = [], []
    w = out.append
    w("(* GENERATED by tools/c2v.py (effect mode, third stage) from the repository sources - do not edit. *)")
    w("From RtrV Require Import Base.CSem Base.Mem Base.MemW Base.Eff Base.EffMem Gen.Generated Gen.GeneratedMem Gen.GeneratedMemW.")
    w("Local Open Scope string_scope.\nLocal Open Scope Z_scope.\n")
    memw_known, enums_all, sizes = memw_signatures()
    mem_known = dict(_MEM_CTX.get("known", {}))
    for cfile, fname in FSM3_MEMW_EXTRA:
        try:
            fn = find_def(cfile, fname)
            if fn is None:
                raise Untranslatable("definition not found")
            text, sig = TrMemW(fn, memw_known, enums_all, sizes, {}).function()
            memw_known[fname] = sig
            w("(* %s : %s (memory mode with stores) *)" % (cfile, fname))
            w(text)
        except Exception as e:  # noqa: BLE001
            problems.append("function %s: %s" % (fname, e))
            w("(* %s could not be translated: %s *)" % (fname, str(e).replace("*)", "* )")))
            w("Definition %s_untranslated := tt.\n" % fname)
    eff_known = {}
    for cfile, fname, opts in FSM3_LEAFS:
        try:
            fn = find_def(cfile, fname)
            if fn is None:
                raise Untranslatable("definition not found")
            text, info = TrEff3(fn, eff_known, mem_known, memw_known, enums_all, sizes, opts).function()
            eff_known[fname] = info
            w("(* %s : %s *)" % (cfile, fname))
            w(text)
        except Exception as e:  # noqa: BLE001
            problems.append("function %s: %s" % (fname, e))
            w("(* %s could not be translated: %s *)" % (fname, str(e).replace("*)", "* )")))
            w("Definition %s_untranslated := tt.\n" % fname)
    w("Definition fsm3_translator_problems : list string := [%s]." % "; ".join(coq_string(p[:200]) for p in problems))
    return "\n".join(out) + "\n", problems


# ---------------------------------------------------------------------------
# lock skeletons
# ---------------------------------------------------------------------------
# For every non-static function of trie-pfx.c / ht-spkitable.c the translator emits a small
# structured program (lk_prog) over the events
#     AcqR l | AcqW l | Rel l     pthread_rwlock_rdlock / wrlock / unlock on table l's lock
#     Rd l what | Wr l what       an access to the mutable state of table l ("what" is only a label)
#     Cb what                     a call through a user-supplied function pointer
# where l is the *name of the table parameter* of the outermost function (two-table functions such
# as pfx_table_swap(a, b) therefore show which table is locked / touched).  Calls to functions
# defined in the same file are inlined (PCall) with the table parameters substituted; callbacks that
# are static functions of the same file are inlined where they are invoked, their `void *data`
# argument being resolved through the initialiser of the argument struct in the caller.
#
# What is an access (derived from clang's AST, not from names):
#   * a read  = an LValueToRValue conversion of an lvalue that designates table memory;
#   * a write = an assignment / ++ / -- whose left side designates table memory;
#   * "designates table memory" = tbl->f for f in SHARED_FIELDS, or *p / p->g / p[i] for a pointer p
#     whose value was loaded from table memory or returned by a classified helper called on it
#     (a forward "points into table l" analysis over the locals, iterated to a fixpoint);
#   * a call to a function of HELPER_RW counts as one read / write of the table its arguments point into;
#   * any other function that is handed such a pointer counts as a read (free: a write; memcpy: dest write,
#     source read).
# TRUSTED: the R/W classification below (functions whose bodies are not analysed), SHARED_FIELDS, and that
# update_fp / lock are not table state (update_fp is set at init and never changed on a shared table).
LOCK_CALLS = {"pthread_rwlock_rdlock": "AcqR", "pthread_rwlock_wrlock": "AcqW", "pthread_rwlock_unlock": "Rel"}
LIFECYCLE_CALLS = {"pthread_rwlock_init", "pthread_rwlock_destroy"}
# name -> "R" | "W" | "N" (touches no table state) | (mode, index of callback argument, index of its data argument)
HELPER_RW = {
    # trie.c
    "trie_lookup": "R", "trie_lookup_exact": "R", "trie_get_children": "R", "trie_is_leaf": "R",
    "trie_insert": "W", "trie_remove": "W",
    # static helpers of trie-pfx.c that work on nodes handed to them
    "pfx_table_find_elem": "R", "pfx_table_elem_matches": "R", "pfx_table_node2pfx_record": "R",
    "pfx_table_append_elem": "W", "pfx_table_del_elem": "W", "pfx_table_remove_id": "W",
    "pfx_table_create_node": "N",
    "pfx_table_for_each_rec": ("R", 1, 2),
    # tommyds
    "tommy_hashlin_search": "R", "tommy_hashlin_bucket": "R", "tommy_hashlin_count": "R",
    "tommy_hashlin_insert": "W", "tommy_hashlin_remove": "W", "tommy_hashlin_remove_existing": "W",
    "tommy_hashlin_init": "W", "tommy_hashlin_done": "W", "tommy_hashlin_foreach": ("R", 1, None),
    "tommy_list_head": "R", "tommy_list_tail": "R", "tommy_list_empty": "R", "tommy_list_count": "R",
    "tommy_list_insert_tail": "W", "tommy_list_insert_head": "W", "tommy_list_remove_existing": "W",
    "tommy_list_init": "W", "tommy_list_foreach": ("R", 1, None),
}
FREE_CALLS = {"lrtr_free", "free"}
ABORT_CALLS = {"__assert_fail", "abort"}
COPY_CALLS = {"memcpy", "memmove"}
SHARED_FIELDS = {"ipv4", "ipv6", "hashtable", "list", "cmp_fp"}
TABLE_TYPE = re.compile(r"^(?:const\s+)?struct (?:pfx_table|spki_table) \*")
MAX_INLINE_DEPTH = 6


def lock_name(val):
    """the table whose lock is meant by &(tbl->lock): the unique table the argument points into"""
    return sorted(val)[0] if len(val) == 1 else "?"


class SkelError(Exception):
    pass


# programs are tuples: ("ev", kind, l, what) ("skip",) ("ret",) ("brk",) ("seq", a, b) ("alt", a, b) ("loop", p) ("call", p)
def has_effect(p):
    k = p[0]
    if k in ("ev", "ret"):
        return True
    if k in ("skip", "brk"):
        return False
    return any(has_effect(c) for c in p[1:])


def has_ctl(p):
    """contains a return or a break"""
    k = p[0]
    if k in ("ret", "brk"):
        return True
    if k in ("ev", "skip"):
        return False
    return any(has_ctl(c) for c in p[1:])


def mk_seq(ps):
    ps = [p for p in ps if p != ("skip",)]
    if not ps:
        return ("skip",)
    out = ps[-1]
    for p in reversed(ps[:-1]):
        out = ("seq", p, out)
    return out


def mk_alt(a, b):
    if a == b:
        return a
    return ("alt", a, b)


def mk_loop(body):
    if not has_effect(body):
        return ("skip",)
    return ("loop", body)


def has_event(p):
    if p[0] == "ev":
        return True
    if p[0] in ("skip", "ret", "brk"):
        return False
    return any(has_event(c) for c in p[1:])


def mk_call(body):
    if not has_event(body):
        return ("skip",)          # a return inside the callee only ends the callee
    return ("call", body)


class Skel:
    """Lock-skeleton extraction for one C file."""

    def __init__(self, cfile):
        self.cfile = cfile
        self.defs = {}
        self.records = {}
        self.lifecycle = set()

    def fdef(self, name):
        if name not in self.defs:
            self.defs[name] = find_def(self.cfile, name)
        return self.defs[name]

    def record_fields(self, tyname):
        """field names of `struct tyname` in declaration order"""
        if tyname not in self.records:
            fields = None
            for d in ast_docs(self.cfile, tyname):
                if d.get("kind") == "RecordDecl" and d.get("name") == tyname:
                    fs = [c["name"] for c in inner(d) if c.get("kind") == "FieldDecl"]
                    if fs:
                        fields = fs
            self.records[tyname] = fields
        return self.records[tyname]

    # -- abstract values: (tabs: frozenset of table names the value points into,
    #                       struct: dict field -> value (a callback-argument struct of the caller) or None,
    #                       fn: name of the function the value is, or None,
    #                       const: known integer constant (only tracked through callback-argument structs), or None)
    @staticmethod
    def val(tabs=(), struct=None, fn=None, const=None):
        return (frozenset(tabs), struct, fn, const)

    NOVAL = (frozenset(), None, None, None)

    @staticmethod
    def ptrish(n):
        """does the expression have pointer / array / function-pointer type (so that it can point into a table)"""
        ty = n.get("type", {})
        q = ty.get("desugaredQualType", ty.get("qualType", ""))
        return "*" in q or "[" in q

    def loaded(self, n, tabs):
        """value obtained by reading lvalue n that designates memory of `tabs`"""
        return self.val(tabs) if (tabs and self.ptrish(n)) else self.NOVAL

    def function(self, name, args=None, depth=0, top=None):
        """program of function `name`; args = abstract values of the actual arguments (None at top level)"""
        fn = self.fdef(name)
        if fn is None:
            raise SkelError("no definition of %s" % name)
        if depth > MAX_INLINE_DEPTH:
            raise SkelError("inlining too deep at %s" % name)
        params = [c for c in inner(fn) if c.get("kind") == "ParmVarDecl"]
        body = [c for c in inner(fn) if c.get("kind") == "CompoundStmt"][0]
        env = {}
        for i, p in enumerate(params):
            ty = p.get("type", {}).get("qualType", "")
            if args is None:
                env[p["id"]] = self.val([p["name"]]) if TABLE_TYPE.match(ty) else self.NOVAL
            else:
                env[p["id"]] = args[i] if i < len(args) else self.NOVAL
        ctx = {"env": env, "depth": depth, "top": top or name, "ret": self.NOVAL, "ctl": 0}
        self.stmt(body, ctx)          # first passes: only to propagate "points into table" to a fixpoint
        self.stmt(body, ctx)
        return self.stmt(body, ctx), ctx["ret"]

    # -- expressions: returns (list of programs in evaluation order, abstract value)
    def designates(self, n, ctx):
        """for an lvalue expression: (events of evaluating the address, set of tables whose memory it designates, value kept there)"""
        k = n.get("kind")
        if k == "ParenExpr":
            return self.designates(inner(n)[0], ctx)
        if k == "DeclRefExpr":
            v = ctx["env"].get(n.get("referencedDecl", {}).get("id"), self.NOVAL)
            return [], frozenset(), v
        if k == "MemberExpr":
            base = inner(n)[0]
            if n.get("isArrow"):
                ev, bv = self.expr(base, ctx)
                bty = base.get("type", {}).get("qualType", "")
                if bv[1] is not None:             # pointer to a callback-argument struct of the caller
                    return ev, frozenset(), bv[1].get(n.get("name"), self.NOVAL)
                if TABLE_TYPE.match(bty):
                    if n.get("name") in SHARED_FIELDS:
                        return ev, bv[0], self.val(bv[0])   # roots / hashtable / list: always "into the table"
                    return ev, frozenset(), self.NOVAL
                return ev, bv[0], self.loaded(n, bv[0])
            ev, tabs, v = self.designates(base, ctx)
            if v[1] is not None:
                return ev, tabs, v[1].get(n.get("name"), self.NOVAL)
            return ev, tabs, self.loaded(n, tabs)
        if k == "UnaryOperator" and n.get("opcode") == "*":
            ev, bv = self.expr(inner(n)[0], ctx)
            return ev, bv[0], self.loaded(n, bv[0])
        if k == "ArraySubscriptExpr":
            ev1, bv = self.expr(inner(n)[0], ctx)
            ev2, _ = self.expr(inner(n)[1], ctx)
            return ev1 + ev2, bv[0], self.loaded(n, bv[0])
        ev, v = self.expr(n, ctx)
        return ev, frozenset(), v

    def label(self, n):
        k = n.get("kind")
        if k == "ParenExpr":
            return self.label(inner(n)[0])
        if k == "MemberExpr":
            b = inner(n)[0]
            while b.get("kind") in ("ImplicitCastExpr", "ParenExpr"):
                b = inner(b)[0]
            if n.get("isArrow") and TABLE_TYPE.match(inner(n)[0].get("type", {}).get("qualType", "")):
                return "." + n.get("name", "?")
            return self.label(b) + ("->" if n.get("isArrow") else ".") + n.get("name", "?")
        if k == "DeclRefExpr":
            return n.get("referencedDecl", {}).get("name", "?")
        if k == "UnaryOperator":
            return n.get("opcode", "") + self.label(inner(n)[0])
        if k == "ArraySubscriptExpr":
            return self.label(inner(n)[0]) + "[]"
        if k in ("ImplicitCastExpr", "CStyleCastExpr"):
            return self.label(inner(n)[-1])
        return "?"

    def callee_name(self, f):
        while f.get("kind") in ("ImplicitCastExpr", "ParenExpr", "CStyleCastExpr"):
            f = inner(f)[-1]
        if f.get("kind") == "DeclRefExpr":
            return f.get("referencedDecl", {}).get("kind"), f.get("referencedDecl", {}).get("name"), f
        return None, None, f

    def expr(self, n, ctx):
        k = n.get("kind")
        if not k:
            return [], self.NOVAL
        if k in ("ParenExpr", "CStyleCastExpr"):
            return self.expr(inner(n)[-1], ctx)
        if k == "ImplicitCastExpr":
            sub = inner(n)[0]
            if n.get("castKind") == "LValueToRValue":
                ev, tabs, v = self.designates(sub, ctx)
                return ev + [("ev", "Rd", t, self.label(sub)) for t in sorted(tabs)], v
            if n.get("castKind") == "ArrayToPointerDecay":
                ev, tabs, v = self.designates(sub, ctx)
                return ev, self.val(tabs | v[0])
            return self.expr(sub, ctx)
        if k == "DeclRefExpr":
            rd = n.get("referencedDecl", {})
            if rd.get("kind") == "FunctionDecl":
                return [], self.val(fn=rd.get("name"))
            return [], ctx["env"].get(rd.get("id"), self.NOVAL)
        if k == "UnaryOperator":
            op = n.get("opcode")
            sub = inner(n)[0]
            if op == "&":
                ev, tabs, v = self.designates(sub, ctx)
                if v[1] is not None or v[2] is not None:
                    return ev, v                      # &args : pointer to a callback-argument struct
                return ev, self.val(tabs | (v[0] if sub.get("kind") != "DeclRefExpr" else frozenset()))
            if op in ("++", "--"):
                ev, tabs, v = self.designates(sub, ctx)
                return ev + [("ev", "Wr", t, self.label(sub)) for t in sorted(tabs)], v
            if op == "*":
                # an lvalue used without conversion (e.g. as a struct operand): address only
                ev, tabs, v = self.designates(n, ctx)
                return ev, v
            return self.expr(sub, ctx)
        if k in ("BinaryOperator", "CompoundAssignOperator"):
            op = n.get("opcode", "")
            lhs, rhs = inner(n)
            if op == "=" or k == "CompoundAssignOperator":
                ev_r, rv = self.expr(rhs, ctx)
                ev_l, tabs, lv = self.designates(lhs, ctx)
                evs = ev_r + ev_l + [("ev", "Wr", t, self.label(lhs)) for t in sorted(tabs)]
                l0 = lhs
                while l0.get("kind") == "ParenExpr":
                    l0 = inner(l0)[0]
                if l0.get("kind") == "DeclRefExpr":
                    self.bind(ctx, l0.get("referencedDecl", {}).get("id"), rv)
                if l0.get("kind") == "MemberExpr" and not l0.get("isArrow"):
                    b0 = inner(l0)[0]
                    while b0.get("kind") == "ParenExpr":
                        b0 = inner(b0)[0]
                    if b0.get("kind") == "DeclRefExpr":
                        sv = ctx["env"].get(b0.get("referencedDecl", {}).get("id"), self.NOVAL)
                        if sv[1] is not None:
                            # args.field = e : flow-sensitive only in straight-line code of the function body
                            sv[1][l0.get("name")] = rv if (ctx["ctl"] == 0 and op == "=") else self.NOVAL
                if l0.get("kind") == "MemberExpr" and l0.get("isArrow"):
                    # args->field = e inside a callback: the field is no longer a known constant
                    _, bv = self.expr(inner(l0)[0], ctx)
                    if bv[1] is not None:
                        bv[1][l0.get("name")] = (rv[0], rv[1], rv[2], None)
                return evs, rv
            if op in ("&&", "||"):
                ev_l, _ = self.expr(lhs, ctx)
                ev_r, _ = self.expr(rhs, ctx)
                r = mk_seq(ev_r)
                return ev_l + ([mk_alt(r, ("skip",))] if has_effect(r) else []), self.NOVAL
            if op == ",":
                ev_l, _ = self.expr(lhs, ctx)
                ev_r, v = self.expr(rhs, ctx)
                return ev_l + ev_r, v
            ev_l, lv = self.expr(lhs, ctx)
            ev_r, rv = self.expr(rhs, ctx)
            if op in ("+", "-"):
                return ev_l + ev_r, self.val(lv[0] | rv[0])
            return ev_l + ev_r, self.NOVAL
        if k == "ConditionalOperator":
            c, a, b = inner(n)
            ev_c, _ = self.expr(c, ctx)
            ev_a, va = self.expr(a, ctx)
            ev_b, vb = self.expr(b, ctx)
            pa, pb = mk_seq(ev_a), mk_seq(ev_b)
            alt = [mk_alt(pa, pb)] if (has_effect(pa) or has_effect(pb)) else []
            return ev_c + alt, self.val(va[0] | vb[0], va[1] or vb[1], va[2] or vb[2])
        if k == "CallExpr":
            return self.call(n, ctx)
        if k == "InitListExpr":
            evs, tabs = [], frozenset()
            for c in inner(n):
                e, v = self.expr(c, ctx)
                evs += e
                tabs |= v[0]
            return evs, self.val(tabs)
        if k in ("MemberExpr", "ArraySubscriptExpr"):
            # lvalue in a non-converting context (operand of sizeof is not visited; struct passed by address)
            ev, tabs, v = self.designates(n, ctx)
            return ev, v
        if k == "IntegerLiteral":
            try:
                return [], self.val(const=int(n.get("value", "x")))
            except ValueError:
                return [], self.NOVAL
        if k in ("UnaryExprOrTypeTraitExpr", "StringLiteral", "CharacterLiteral", "FloatingLiteral",
                 "ImplicitValueInitExpr", "CompoundLiteralExpr", "PredefinedExpr"):
            return [], self.NOVAL
        if k == "StmtExpr":
            return [self.stmt(inner(n)[0], ctx)], self.NOVAL
        evs = []
        for c in inner(n):
            e, _ = self.expr(c, ctx)
            evs += e
        return evs, self.NOVAL

    def bind(self, ctx, name, v):
        """sticky 'points into table' information for a local (keyed by clang's declaration id)"""
        if name is None:
            return
        old = ctx["env"].get(name, self.NOVAL)
        ctx["env"][name] = (old[0] | v[0], v[1] if v[1] is not None else old[1], v[2] or old[2], None)

    def invoke(self, fnval, argvals, ctx, what):
        """a call through a function pointer whose target may be known"""
        name = fnval[2]
        if name in FREE_CALLS:
            tabs = frozenset().union(*[a[0] for a in argvals]) if argvals else frozenset()
            return [("ev", "Wr", t, name) for t in sorted(tabs)]
        if name and self.fdef(name) is not None and name not in HELPER_RW:
            return [mk_call(self.function(name, argvals, ctx["depth"] + 1, ctx["top"])[0])]
        return [("ev", "Cb", "", what)]

    def call(self, n, ctx):
        ins = inner(n)
        dk, name, fnode = self.callee_name(ins[0])
        args = ins[1:]
        if dk == "FunctionDecl" and name in LOCK_CALLS:
            # &(tbl->lock) / &tbl->lock : the table is what the base expression of ->lock points to
            a = args[0]
            while a.get("kind") in ("ParenExpr", "ImplicitCastExpr", "CStyleCastExpr") or (a.get("kind") == "UnaryOperator" and a.get("opcode") == "&"):
                a = inner(a)[-1]
            if a.get("kind") == "MemberExpr" and a.get("name") == "lock":
                ev, v = self.expr(inner(a)[0], ctx)
            else:
                ev, v = self.expr(args[0], ctx)
            return ev + [("ev", LOCK_CALLS[name], lock_name(v[0]), "")], self.NOVAL
        if dk == "FunctionDecl" and name in LIFECYCLE_CALLS:
            self.lifecycle.add(ctx["top"])
            return [], self.NOVAL
        evs, vals = [], []
        for a in args:
            e, v = self.expr(a, ctx)
            evs += e
            vals.append(v)
        tabs = frozenset().union(*[v[0] for v in vals]) if vals else frozenset()
        if not (dk == "FunctionDecl" and self.fdef(name) is not None and name not in HELPER_RW):
            # the callee's body is not analysed: a callback-argument struct handed to it may be changed there
            for v in vals:
                if v[1] is not None and not (dk == "FunctionDecl" and isinstance(HELPER_RW.get(name), tuple)):
                    for f in list(v[1]):
                        x = v[1][f]
                        v[1][f] = (x[0], x[1], x[2], None)
        if dk == "FunctionDecl" and name in HELPER_RW:
            spec = HELPER_RW[name]
            mode, cbi, dti = (spec, None, None) if isinstance(spec, str) else spec
            if mode == "N":
                return evs, self.NOVAL
            if len(tabs) != 1:
                raise SkelError("helper %s called on %d tables in %s" % (name, len(tabs), ctx["top"]))
            t = sorted(tabs)[0]
            evs.append(("ev", "Rd" if mode == "R" else "Wr", t, name))
            if cbi is not None and cbi < len(vals):
                cbargs = [self.NOVAL, vals[dti] if dti is not None and dti < len(vals) else self.NOVAL]
                if vals[cbi][2] in FREE_CALLS:
                    cbargs = [self.val([t])]
                body = mk_seq(self.invoke(vals[cbi], cbargs, ctx, self.label(args[cbi])))
                evs.append(mk_loop(mk_alt(("brk",), body)))
            return evs, self.val([t])
        if dk == "FunctionDecl" and name in ABORT_CALLS:
            return [], self.NOVAL                 # failing assert: the process ends, nothing follows
        if dk == "FunctionDecl" and self.fdef(name) is not None:
            p, rv = self.function(name, vals, ctx["depth"] + 1, ctx["top"])
            return evs + [mk_call(p)], rv
        if dk == "FunctionDecl":
            # a function whose body is not analysed and that is not classified
            if name in FREE_CALLS:
                return evs + [("ev", "Wr", t, name) for t in sorted(tabs)], self.NOVAL
            if name in COPY_CALLS and len(vals) >= 2:
                return (evs + [("ev", "Wr", t, name) for t in sorted(vals[0][0])] +
                        [("ev", "Rd", t, name) for t in sorted(vals[1][0])]), self.NOVAL
            return evs + [("ev", "Rd", t, name) for t in sorted(tabs)], self.NOVAL
        # indirect call: through a parameter / local / struct member holding a function pointer
        e, fv = self.expr(ins[0], ctx)
        return evs + e + self.invoke(fv, vals, ctx, self.label(fnode)), self.NOVAL

    def truth(self, n, ctx):
        """True / False when the condition is a known constant (a flag passed through a callback-argument struct
        that the caller set in straight-line code), else None"""
        k = n.get("kind")
        if k in ("ParenExpr", "ImplicitCastExpr", "CStyleCastExpr"):
            return self.truth(inner(n)[-1], ctx)
        if k == "UnaryOperator" and n.get("opcode") == "!":
            t = self.truth(inner(n)[0], ctx)
            return None if t is None else (not t)
        if k == "BinaryOperator" and n.get("opcode") in ("&&", "||"):
            a, b = self.truth(inner(n)[0], ctx), self.truth(inner(n)[1], ctx)
            if n["opcode"] == "&&":
                if a is False or b is False:
                    return False
                return True if (a is True and b is True) else None
            if a is True or b is True:
                return True
            return False if (a is False and b is False) else None
        if k in ("MemberExpr", "IntegerLiteral"):
            if k == "IntegerLiteral":
                _, v = self.expr(n, ctx)
            else:
                _, _, v = self.designates(n, ctx)
            return None if v[3] is None else (v[3] != 0)
        return None

    # -- statements
    def stmt(self, s, ctx):
        k = s.get("kind")
        if not k or k == "NullStmt":
            return ("skip",)
        if k == "CompoundStmt":
            return mk_seq([self.stmt(c, ctx) for c in inner(s)])
        if k == "ReturnStmt":
            evs = []
            for c in inner(s):
                e, v = self.expr(c, ctx)
                evs += e
                old = ctx["ret"]
                ctx["ret"] = (old[0] | v[0], old[1] or v[1], old[2] or v[2], None)
            return mk_seq(evs + [("ret",)])
        if k == "IfStmt":
            ins = inner(s)
            ev, _ = self.expr(ins[0], ctx)
            known = self.truth(ins[0], ctx)
            ctx["ctl"] += 1
            a = self.stmt(ins[1], ctx)
            b = self.stmt(ins[2], ctx) if len(ins) > 2 else ("skip",)
            ctx["ctl"] -= 1
            if known is True:
                return mk_seq(ev + [a])
            if known is False:
                return mk_seq(ev + [b])
            if not (has_effect(a) or has_effect(b) or has_ctl(a) or has_ctl(b)):
                return mk_seq(ev)
            return mk_seq(ev + [mk_alt(a, b)])
        if k == "WhileStmt":
            c, body = inner(s)[-2:]
            ctx["ctl"] += 1
            ev, _ = self.expr(c, ctx)
            p = mk_loop(mk_seq(ev + [mk_alt(("brk",), self.stmt(body, ctx))]))
            ctx["ctl"] -= 1
            return p
        if k == "DoStmt":
            body, c = inner(s)[:2]
            ctx["ctl"] += 1
            b = self.stmt(body, ctx)
            ev, _ = self.expr(c, ctx)
            ctx["ctl"] -= 1
            return mk_loop(mk_seq([b] + ev + [mk_alt(("brk",), ("skip",))]))
        if k == "ForStmt":
            init, _cv, c, inc, body = (s.get("inner", []) + [{}] * 5)[:5]
            pi = self.stmt(init, ctx) if init.get("kind") else ("skip",)
            ctx["ctl"] += 1
            ev_c, _ = self.expr(c, ctx) if c.get("kind") else ([], None)
            b = self.stmt(body, ctx)
            ev_i, _ = self.expr(inc, ctx) if inc.get("kind") else ([], None)
            ctx["ctl"] -= 1
            return mk_seq([pi, mk_loop(mk_seq(ev_c + [mk_alt(("brk",), mk_seq([b] + ev_i))]))])
        if k == "BreakStmt":
            return ("brk",)
        if k == "DeclStmt":
            evs = []
            for d in inner(s):
                if d.get("kind") != "VarDecl":
                    continue
                for c in inner(d):
                    if c.get("kind") == "InitListExpr":
                        e, v = self.expr(c, ctx)
                        evs += e
                        m = re.match(r"^struct (\w+)$", d.get("type", {}).get("qualType", ""))
                        fields = self.record_fields(m.group(1)) if m else None
                        if fields:
                            st = {}
                            for f, ic in zip(fields, inner(c)):
                                _, fv = self.expr(ic, ctx)
                                st[f] = fv
                            if any(x != self.NOVAL for x in st.values()):
                                v = (frozenset(), st, None, None)
                        self.bind(ctx, d.get("id"), v)
                    else:
                        e, v = self.expr(c, ctx)
                        evs += e
                        self.bind(ctx, d.get("id"), v)
            return mk_seq(evs)
        if k in ("ContinueStmt", "GotoStmt", "LabelStmt", "SwitchStmt", "CaseStmt", "DefaultStmt"):
            raise SkelError("%s in %s is outside the skeleton subset" % (k, ctx["top"]))
        ev, _ = self.expr(s, ctx)
        return mk_seq(ev)


def count_calls(node, names):
    """number of call expressions in the AST below `node` whose callee is one of `names`"""
    n = 0
    if node.get("kind") == "CallExpr":
        f = inner(node)[0] if inner(node) else {}
        while f.get("kind") in ("ImplicitCastExpr", "ParenExpr", "CStyleCastExpr"):
            f = inner(f)[-1]
        if f.get("kind") == "DeclRefExpr" and f.get("referencedDecl", {}).get("name") in names:
            n += 1
    for c in inner(node):
        n += count_calls(c, names)
    return n


# functions that only compute on their arguments (bodies not looked at)
PURE_CALLS = {"memcmp", "strlen", "lrtr_dbg", "__assert_fail", "abort", "__builtin_expect", "tommy_ilog2_u32",
              "tommy_cast", "lrtr_ip_addr_get_bits", "lrtr_ip_addr_equal", "lrtr_ip_addr_is_zero",
              "lrtr_ipv4_get_bits", "lrtr_ipv6_get_bits", "lrtr_ipv4_addr_equal", "lrtr_ipv6_addr_equal",
              "lrtr_get_bits", "lrtr_ip_addr_is_equal"}
HELPER_DEF_FILES = ["rtrlib/pfx/trie/trie-pfx.c", "rtrlib/spki/hashtable/ht-spkitable.c", "rtrlib/pfx/trie/trie.c",
                    "third-party/tommyds/tommyhashlin.c", "third-party/tommyds/tommylist.c"]
_HELPER_DEFS = {}


def helper_def(name):
    if name not in _HELPER_DEFS:
        d = None
        for f in HELPER_DEF_FILES:
            try:
                d = find_def(f, name)
            except Exception:  # noqa: BLE001
                d = None
            if d is not None:
                break
        _HELPER_DEFS[name] = d
    return _HELPER_DEFS[name]


def count_shared_stores(name, seen=None):
    """(number of stores a function performs into memory it did not create, names of callees whose bodies are unknown).
    A store is an assignment / ++ / -- whose target is reached through a pointer, except through a parameter that
    points to a scalar (an out-parameter such as `unsigned int *lvl`).  Callees are followed; indirect calls are
    the callback events of the skeletons and are not counted here."""
    seen = seen if seen is not None else set()
    if name in seen:
        return 0, []
    seen.add(name)
    d = helper_def(name)
    if d is None:
        return 0, [name]
    scalar_params, locals_ = set(), set()
    for c in inner(d):
        if c.get("kind") == "ParmVarDecl":
            q = (c.get("type") or {}).get("desugaredQualType") or c["type"]["qualType"]
            if is_ptr_type(q) and (int_type(pointee(q)) or int_type(pointee(c["type"]["qualType"]))):
                scalar_params.add(c.get("id"))

    def root(n):
        k = n.get("kind")
        if k in ("ParenExpr", "ImplicitCastExpr", "CStyleCastExpr"):
            return root(inner(n)[-1])
        if k in ("MemberExpr", "ArraySubscriptExpr"):
            return root(inner(n)[0])
        if k == "UnaryOperator" and n.get("opcode") in ("*", "&"):
            return root(inner(n)[0])
        if k == "BinaryOperator" and n.get("opcode") in ("+", "-"):
            return root(inner(n)[0])
        return n

    def via_pointer(n):
        k = n.get("kind")
        if k == "ParenExpr":
            return via_pointer(inner(n)[0])
        if k == "MemberExpr":
            return bool(n.get("isArrow")) or via_pointer(inner(n)[0])
        if k == "UnaryOperator" and n.get("opcode") == "*":
            return True
        if k == "ArraySubscriptExpr":
            b = inner(n)[0]
            while b.get("kind") in ("ParenExpr",):
                b = inner(b)[0]
            # a[i] on a local array decays; on a pointer it is a dereference
            if b.get("kind") == "ImplicitCastExpr" and b.get("castKind") == "ArrayToPointerDecay":
                return via_pointer(inner(b)[0])
            return True
        return False

    stores, unknown = [0], []

    def walk(n):
        k = n.get("kind")
        tgt = None
        if k in ("BinaryOperator", "CompoundAssignOperator") and n.get("opcode", "").endswith("=") \
                and n["opcode"] not in ("==", "!=", "<=", ">="):
            tgt = inner(n)[0]
        if k == "UnaryOperator" and n.get("opcode") in ("++", "--"):
            tgt = inner(n)[0]
        if tgt is not None and via_pointer(tgt):
            r = root(tgt)
            if not (r.get("kind") == "DeclRefExpr" and r.get("referencedDecl", {}).get("id") in scalar_params):
                stores[0] += 1
        if k == "CallExpr":
            f = inner(n)[0] if inner(n) else {}
            while f.get("kind") in ("ImplicitCastExpr", "ParenExpr", "CStyleCastExpr"):
                f = inner(f)[-1]
            rd = f.get("referencedDecl", {}) if f.get("kind") == "DeclRefExpr" else {}
            if rd.get("kind") == "FunctionDecl":
                cn = rd.get("name")
                if cn not in PURE_CALLS:
                    s2, u2 = count_shared_stores(cn, seen)
                    stores[0] += s2
                    unknown.extend(u2)
        for c in inner(n):
            walk(c)
    walk(d)
    return stores[0], unknown


def public_functions(cfile):
    src = open(os.path.join(REPO, cfile)).read()
    names = re.findall(r"^(?:RTRLIB_EXPORT\s+)?(?:inline\s+)?(?:const\s+)?(?:int|void|bool|struct\s+\w+\s*\*?)\s*\**\s*(\w+)\s*\([^;{]*\)\s*\{", src, re.M)
    statics = set(re.findall(r"^static\s+[^;{(]*?(\w+)\s*\(", src, re.M))
    return [n for n in dict.fromkeys(names) if n not in statics]


def path_count(p):
    """(normal, break, return) path counts of a program with every loop taken 0 and 1 times (mirrors lk_paths)"""
    k = p[0]
    if k in ("ev", "skip"):
        return (1, 0, 0)
    if k == "ret":
        return (0, 0, 1)
    if k == "brk":
        return (0, 1, 0)
    if k == "seq":
        an, ab, ar = path_count(p[1])
        bn, bb, br = path_count(p[2])
        return (an * bn, ab + an * bb, ar + an * br)
    if k == "alt":
        x, y = path_count(p[1]), path_count(p[2])
        return (x[0] + y[0], x[1] + y[1], x[2] + y[2])
    if k == "call":
        return (sum(path_count(p[1])), 0, 0)
    if k == "loop":
        n, b, r = path_count(p[1])
        return (b + n * b, 0, r + n * r)
    raise SkelError("bad program node %r" % (k,))


PATH_BUDGET = 2000        # a function with more paths is listed statement by statement (see emit_skeletons)
SEGMENT_LIMIT = 20000


def top_level_statements(p):
    items = []
    while p[0] == "seq":
        items.append(p[1])
        p = p[2]
    items.append(p)
    return items


def coq_prog(p, ind=4):
    k = p[0]
    pad = " " * ind
    if k == "ev":
        if p[1] in ("AcqR", "AcqW", "Rel"):
            return "%sPEv (%s %s)" % (pad, p[1], coq_string(p[2]))
        if p[1] == "Cb":
            return "%sPEv (Cb %s)" % (pad, coq_string(p[3]))
        return "%sPEv (%s %s %s)" % (pad, p[1], coq_string(p[2]), coq_string(p[3]))
    if k == "skip":
        return pad + "PSkip"
    if k == "ret":
        return pad + "PRet"
    if k == "brk":
        return pad + "PBrk"
    if k == "seq":
        # right-nested sequences are printed flat
        items = []
        while p[0] == "seq":
            items.append(p[1])
            p = p[2]
        items.append(p)
        out = []
        for i, it in enumerate(items[:-1]):
            out.append("%sPSeq (\n%s) (" % (pad, coq_prog(it, ind + 2)) if it[0] not in ("ev", "skip", "ret", "brk")
                       else "%sPSeq (%s) (" % (pad, coq_prog(it, 0)))
        out.append(coq_prog(items[-1], ind) + ")" * (len(items) - 1))
        return "\n".join(out)
    if k == "alt":
        return "%sPAlt (\n%s) (\n%s)" % (pad, coq_prog(p[1], ind + 2), coq_prog(p[2], ind + 2))
    if k == "loop":
        return "%sPLoop (\n%s)" % (pad, coq_prog(p[1], ind + 2))
    if k == "call":
        return "%sPCall (\n%s)" % (pad, coq_prog(p[1], ind + 2))
    raise SkelError("bad program node %r" % (k,))


SKELETON_PREAMBLE = """\
(* ---- lock skeletons (see the comment above HELPER_RW in tools/c2v.py) ---- *)
Inductive lk_event :=
| AcqR (l : string) | AcqW (l : string) | Rel (l : string)
| Rd (l : string) (what : string) | Wr (l : string) (what : string) | Cb (what : string).
Inductive lk_prog :=
| PEv (e : lk_event) | PSkip | PRet | PBrk
| PSeq (a b : lk_prog) | PAlt (a b : lk_prog) | PLoop (body : lk_prog) | PCall (body : lk_prog).
Inductive lk_out := ONorm | OBrk | ORet.
(* every structured control-flow path, each loop taken 0 and 1 times *)
Fixpoint lk_paths (p : lk_prog) : list (list lk_event * lk_out) :=
  match p with
  | PEv e => [([e], ONorm)]
  | PSkip => [([], ONorm)]
  | PRet => [([], ORet)]
  | PBrk => [([], OBrk)]
  | PSeq a b =>
    let pb := lk_paths b in
    flat_map (fun x => match snd x with
                       | ONorm => map (fun y => (app (fst x) (fst y), snd y)) pb
                       | o => [(fst x, o)]
                       end) (lk_paths a)
  | PAlt a b => app (lk_paths a) (lk_paths b)
  | PCall b => map (fun x => (fst x, ONorm)) (lk_paths b)
  | PLoop b =>
    let pb := lk_paths b in
    flat_map (fun x => match snd x with
                       | OBrk => [(fst x, ONorm)]
                       | ORet => [(fst x, ORet)]
                       | ONorm => flat_map (fun y => match snd y with
                                                     | OBrk => [(app (fst x) (fst y), ONorm)]
                                                     | ORet => [(app (fst x) (fst y), ORet)]
                                                     | ONorm => []
                                                     end) pb
                       end) pb
  end.
"""


def emit_skeletons(w, problems):
    w(SKELETON_PREAMBLE)
    progs, lifecycle = [], []
    for cfile in SKELETON_FILES:
        sk = Skel(cfile)
        try:
            names = public_functions(cfile)
        except Exception as e:  # noqa: BLE001
            problems.append("skeleton %s: %s" % (cfile, e))
            continue
        for fname in names:
            try:
                p, _ = sk.function(fname)
                progs.append((fname, p))
            except Exception as e:  # noqa: BLE001
                problems.append("skeleton %s: %s" % (fname, e))
                progs.append((fname, ("ev", "Rel", "untranslatable", "")))
        lifecycle += [n for n in names if n in sk.lifecycle]
    w("(* one structured program per non-static function *)")
    w("Definition lock_programs : list (string * lk_prog) :=\n  [%s].\n" % ";\n   ".join(
        "(%s, (* %d paths *)\n%s)" % (coq_string(f), sum(path_count(p)), coq_prog(p)) for f, p in progs))
    # Path listing.  A function with more than PATH_BUDGET paths is listed one top-level statement at a time
    # (name "f@k"): every path of f is a concatenation of paths of its statements, and well_locked demands the
    # empty lock state at both ends of every listed path, so this listing is only stricter (LockCheck.well_locked_app).
    segs = []
    for f, p in progs:
        if sum(path_count(p)) <= PATH_BUDGET:
            segs.append((f, "nth_prog %s" % coq_string(f)))
            continue
        for i, st in enumerate(top_level_statements(p)):
            if sum(path_count(st)) > SEGMENT_LIMIT:
                problems.append("skeleton %s: statement %d has more than %d paths" % (f, i, SEGMENT_LIMIT))
            segs.append(("%s@%d" % (f, i), "(* statement %d of %s, %d paths *)\n%s" % (i, f, sum(path_count(st)), coq_prog(st))))
    w("Definition nth_prog (f : string) : lk_prog :=\n"
      "  match find (fun p => String.eqb (fst p) f) lock_programs with Some p => snd p | None => PEv (Rel \"missing\") end.\n")
    w("Definition lock_segments : list (string * lk_prog) :=\n  [%s].\n" % ";\n   ".join(
        "(%s, %s)" % (coq_string(n), t) for n, t in segs))
    w("Definition lock_skeletons : list (string * list lk_event) :=\n"
      "  flat_map (fun f => map (fun x => (fst f, fst x)) (lk_paths (snd f))) lock_segments.\n")
    # helpers that the skeletons treat as one read / write of the table (HELPER_RW): what they are assumed not to do
    # is stated here from their bodies - the number of lock / unlock calls each one contains
    helper_locks = []
    for cfile in SKELETON_FILES:
        sk = Skel(cfile)
        for h in sorted(HELPER_RW):
            if any(h == x for x, _ in helper_locks):
                continue
            try:
                d = sk.fdef(h)
            except Exception:  # noqa: BLE001
                d = None
            if d is None:
                continue
            helper_locks.append((h, count_calls(d, set(LOCK_CALLS))))
    # helpers classified as readers: stores they (or their callees) perform into memory they were handed
    reader_stores = []
    for h in sorted(HELPER_RW):
        spec = HELPER_RW[h]
        mode = spec if isinstance(spec, str) else spec[0]
        if mode != "R":
            continue
        n, unk = count_shared_stores(h)
        reader_stores.append((h, n, sorted(set(unk))))
    w("(* helpers counted as a READ of the table: (stores through pointers found in their bodies and in their callees',")
    w("   callees whose bodies could not be found) *)")
    w("Definition reader_helper_stores : list (string * nat * list string) :=\n  [%s].\n" % ";\n   ".join(
        "(%s, %d, [%s])" % (coq_string(h), n, "; ".join(coq_string(u) for u in unk)) for h, n, unk in reader_stores))
    w("(* helpers counted as a single access in the programs above, with the number of lock calls in their own bodies *)")
    w("Definition helper_lock_calls : list (string * nat) :=\n  [%s].\n" % "; ".join(
        "(%s, %d)" % (coq_string(h), n) for h, n in helper_locks))
    w("(* functions that create or destroy the lock itself (pthread_rwlock_init / _destroy): callers must own the table exclusively *)")
    w("Definition lifecycle_functions : list string := [%s].\n" % "; ".join(coq_string(n) for n in lifecycle))


# ---------------------------------------------------------------------------
def coq_string(s):
    return '"' + s.replace('"', '""') + '"'


LEAFS = [
    # (file, function, mutates-pointer-param)
    ("rtrlib/rtr/rtr.c", "rtr_state_to_str", False),
    ("rtrlib/rtr_mgr.c", "rtr_mgr_status_to_str", False),
    ("rtrlib/rtr/packets.c", "rtr_check_interval_range", False),
    ("rtrlib/rtr/packets.c", "apply_interval_value", True),
    ("rtrlib/rtr/packets.c", "rtr_check_interval_option", True),
    ("rtrlib/lib/utils.c", "lrtr_get_bits", False),
    ("rtrlib/lib/ipv6.c", "lrtr_ipv6_get_bits", False),
    ("third-party/tommyds/tommyhashlin.c", "tommy_inthash_u32", False),
]
# address helpers the trie is built on (C01 / C02: covering test, exact match, branch bit): own output file
# Gen/GeneratedIp.v (needs Base/CSemSub.v for sub-struct arguments), so that Generated.v and everything built on it
# does not change when this list grows
IP_LEAFS = [
    ("rtrlib/lib/ipv4.c", "lrtr_ipv4_addr_equal", False),
    ("rtrlib/lib/ipv6.c", "lrtr_ipv6_addr_equal", False),
    ("rtrlib/lib/ipv4.c", "lrtr_ipv4_get_bits", False),
    ("rtrlib/lib/ip.c", "lrtr_ip_addr_is_zero", False),
    ("rtrlib/lib/ip.c", "lrtr_ip_addr_equal", False),
    ("rtrlib/lib/ip.c", "lrtr_ip_addr_get_bits", False),
]
IP_ENUMS = [("rtrlib/lib/ip.c", "lrtr_ip_version")]
IP_OUT = os.path.join(vlib.THEORIES, "Gen", "GeneratedIp.v")
_MAIN_CTX = {}
ENUMS = [
    ("rtrlib/rtr/rtr.c", "rtr_socket_state"), ("rtrlib/rtr_mgr.c", "rtr_mgr_status"),
    ("rtrlib/rtr/rtr.c", "rtr_interval_mode"), ("rtrlib/rtr/rtr.c", "rtr_rtvals"),
    ("rtrlib/rtr/packets.c", "pdu_type"), ("rtrlib/rtr/packets.c", "pdu_error_type"),
    ("rtrlib/rtr/packets.c", "rtr_interval_range"), ("rtrlib/rtr/packets.c", "rtr_interval_type"),
    ("rtrlib/pfx/trie/trie-pfx.c", "pfx_rtvals"), ("rtrlib/pfx/trie/trie-pfx.c", "pfxv_state"),
    ("rtrlib/spki/hashtable/ht-spkitable.c", "spki_rtvals"), ("rtrlib/transport/transport.c", "tr_rtvals"),
]
TABLES = [("rtrlib/rtr/rtr.c", "socket_str_states"), ("rtrlib/rtr_mgr.c", "mgr_str_status")]
SKELETON_FILES = ["rtrlib/pfx/trie/trie-pfx.c", "rtrlib/spki/hashtable/ht-spkitable.c"]


def generate():
    out = []
    w = out.append
    w("(* GENERATED by tools/c2v.py from the repository sources - do not edit. *)")
    w("From RtrV Require Import Base.CSem.")
    w("Local Open Scope string_scope.\nLocal Open Scope Z_scope.\n")
    problems = []
    enums_all = {}
    for cfile, en in ENUMS:
        try:
            vals = enum_values(cfile, en)
        except Exception as e:  # noqa: BLE001
            problems.append("enum %s: %s" % (en, e))
            w("Definition enum_%s_untranslated := tt.\n" % en)
            continue
        w("Definition enum_%s : list (string * Z) :=\n  [%s]." % (en, ";\n   ".join("(%s, %d)" % (coq_string(n), v) for n, v in vals)))
        for n, v in vals:
            if n not in enums_all:
                w("Definition %s : Z := %d." % ("c_" + n, v))
                enums_all[n] = v
        w("")
    try:
        sizes = run_probe()
    except Exception as e:  # noqa: BLE001
        problems.append("probe: %s" % e)
        sizes = {}
    for (k, n), v in sorted(sizes.items()):
        if k == "M":
            w("Definition c_%s : Z := %d." % (n, v))
        elif k == "S":
            w("Definition sizeof_%s : Z := %d." % (n, v))
        elif k == "O":
            w("Definition offsetof_%s : Z := %d." % (n.replace(".", "__"), v))
        else:
            w("Definition host_%s : Z := %d." % (n, v))
    w("")
    tables = {}
    for cfile, tn in TABLES:
        try:
            el = string_table(cfile, tn)
        except Exception as e:  # noqa: BLE001
            problems.append("table %s: %s" % (tn, e))
            w("Definition %s_untranslated := tt.\n" % tn)
            continue
        tables[tn] = len(el)
        w("Definition %s : list (option string) :=\n  [%s].\n" % (tn, ";\n   ".join("None" if x is None else "Some " + coq_string(x) for x in el)))
    known = {}
    for cfile, fname, mut in LEAFS:
        try:
            fn = find_def(cfile, fname)
            if fn is None:
                raise Untranslatable("definition not found")
            tr = Tr(fn, known, enums_all, sizes, tables)
            text, sig = tr.function(mutates=mut)
            known[fname] = sig
            w("(* %s : %s *)" % (cfile, fname))
            w(text)
        except Exception as e:  # noqa: BLE001
            problems.append("function %s: %s" % (fname, e))
            w("(* %s could not be translated: %s *)" % (fname, str(e).replace("*)", "* )")))
            w("Definition %s_untranslated := tt.\n" % fname)
    w("Definition translator_problems : list string := [%s]." % "; ".join(coq_string(p[:200]) for p in problems))
    _MAIN_CTX.update(known=dict(known), enums=dict(enums_all), sizes=sizes, tables=tables)
    return "\n".join(out) + "\n", problems


def generate_ip():
    """text of Gen/GeneratedIp.v: the lrtr_ip_addr layer over the already translated bit functions"""
    out, problems = [], []
    w = out.append
    w("(* GENERATED by tools/c2v.py from the repository sources - do not edit. *)")
    w("From RtrV Require Import Base.CSem Base.CSemSub Gen.Generated.")
    w("Local Open Scope string_scope.\nLocal Open Scope Z_scope.\n")
    known = dict(_MAIN_CTX.get("known", {}))
    enums_all = dict(_MAIN_CTX.get("enums", {}))
    for cfile, en in IP_ENUMS:
        try:
            vals = enum_values(cfile, en)
            w("Definition enum_%s : list (string * Z) :=\n  [%s]." % (en, ";\n   ".join("(%s, %d)" % (coq_string(n), v) for n, v in vals)))
            for n, v in vals:
                if n not in enums_all:
                    w("Definition %s : Z := %d." % ("c_" + n, v))
                    enums_all[n] = v
            w("")
        except Exception as e:  # noqa: BLE001
            problems.append("enum %s: %s" % (en, e))
            w("Definition enum_%s_untranslated := tt.\n" % en)
    for cfile, fname, mut in IP_LEAFS:
        try:
            fn = find_def(cfile, fname)
            if fn is None:
                raise Untranslatable("definition not found")
            tr = Tr(fn, known, enums_all, _MAIN_CTX.get("sizes", {}), _MAIN_CTX.get("tables", {}))
            text, sig = tr.function(mutates=mut)
            known[fname] = sig
            w("(* %s : %s *)" % (cfile, fname))
            w(text)
        except Exception as e:  # noqa: BLE001
            problems.append("function %s: %s" % (fname, e))
            w("(* %s could not be translated: %s *)" % (fname, str(e).replace("*)", "* )")))
            w("Definition %s_untranslated := tt.\n" % fname)
    w("Definition ip_translator_problems : list string := [%s]." % "; ".join(coq_string(p[:200]) for p in problems))
    return "\n".join(out) + "\n", problems


def generate_skeletons():
    """text of Gen/LockSkeletons.v (self-contained: imports only the standard library)"""
    out, problems = [], []
    w = out.append
    w("(* GENERATED by tools/c2v.py from the repository sources - do not edit. *)")
    w("From Coq Require Import List String.")
    w("Import ListNotations.")
    w("Local Open Scope string_scope.\n")
    emit_skeletons(w, problems)
    w("Definition skeleton_problems : list string := [%s]." % "; ".join(coq_string(p[:200]) for p in problems))
    return "\n".join(out) + "\n", problems


def write_if_changed(path, text, label):
    os.makedirs(os.path.dirname(path), exist_ok=True)
    old = open(path).read() if os.path.exists(path) else None
    if old != text:
        tmp = path + ".tmp%d" % os.getpid()
        with open(tmp, "w") as f:
            f.write(text)
        os.replace(tmp, path)
        print("c2v: %s rewritten" % label)
    else:
        print("c2v: %s unchanged" % label)


def main():
    # --only-fsm3 [path]: write only Gen/GeneratedFsm3.v (to `path` if given)
    if "--only-fsm3" in sys.argv[1:]:
        rest = [a for a in sys.argv[1:] if a != "--only-fsm3"]
        ftext, fproblems = generate_fsm3()
        write_if_changed(rest[0] if rest else FSM3_OUT, ftext, "GeneratedFsm3.v")
        for p in fproblems:
            print("c2v: problem:", p)
        return 0
    # --only-fsm2 [path]: write only Gen/GeneratedFsm2.v (to `path` if given)
    if "--only-fsm2" in sys.argv[1:]:
        rest = [a for a in sys.argv[1:] if a != "--only-fsm2"]
        ftext, fproblems = generate_fsm2()
        write_if_changed(rest[0] if rest else FSM2_OUT, ftext, "GeneratedFsm2.v")
        for p in fproblems:
            print("c2v: problem:", p)
        return 0
    # --only-fsm [path]: write only Gen/GeneratedFsm.v (to `path` if given)
    if "--only-fsm" in sys.argv[1:]:
        rest = [a for a in sys.argv[1:] if a != "--only-fsm"]
        ftext, fproblems = generate_fsm()
        write_if_changed(rest[0] if rest else FSM_OUT, ftext, "GeneratedFsm.v")
        for p in fproblems:
            print("c2v: problem:", p)
        return 0
    # --only-memw [path]: write only Gen/GeneratedMemW.v (to `path` if given)
    if "--only-memw" in sys.argv[1:]:
        rest = [a for a in sys.argv[1:] if a != "--only-memw"]
        wtext, wproblems = generate_memw()
        write_if_changed(rest[0] if rest else MEMW_OUT, wtext, "GeneratedMemW.v")
        for p in wproblems:
            print("c2v: problem:", p)
        return 0
    # VERIF_SKEL_OUT=<path>: write only the lock skeletons, to a scratch path (for testing the emitter)
    skel_only = os.environ.get("VERIF_SKEL_OUT")
    if skel_only:
        stext, sproblems = generate_skeletons()
        write_if_changed(skel_only, stext, skel_only)
        for p in sproblems:
            print("c2v: problem:", p)
        return 0
    text, problems = generate()
    write_if_changed(OUT, text, "Generated.v")
    stext, sproblems = generate_skeletons()
    write_if_changed(SKEL_OUT, stext, "LockSkeletons.v")
    mtext, mproblems = generate_mem()
    write_if_changed(MEM_OUT, mtext, "GeneratedMem.v")
    itext, iproblems = generate_ip()
    write_if_changed(IP_OUT, itext, "GeneratedIp.v")
    wtext, wproblems = generate_memw()
    write_if_changed(MEMW_OUT, wtext, "GeneratedMemW.v")
    ftext, fproblems = generate_fsm()
    write_if_changed(FSM_OUT, ftext, "GeneratedFsm.v")
    f2text, f2problems = generate_fsm2()
    write_if_changed(FSM2_OUT, f2text, "GeneratedFsm2.v")
    f3text, f3problems = generate_fsm3()
    write_if_changed(FSM3_OUT, f3text, "GeneratedFsm3.v")
    mproblems = mproblems + iproblems + wproblems + fproblems + f2problems + f3problems
    import c2v_mgr                      # rtr_mgr.c decision logic (own module: tools/c2v_mgr.py)
    gtext, gproblems = c2v_mgr.generate_mgr()
    write_if_changed(c2v_mgr.MGR_OUT, gtext, "GeneratedMgr.v")
    mproblems = mproblems + gproblems
    import c2v_send                     # the send path (own module: tools/c2v_send.py)
    stext2, sproblems2 = c2v_send.generate_send()
    write_if_changed(c2v_send.SEND_OUT, stext2, "GeneratedSend.v")
    mproblems = mproblems + sproblems2
    import c2v_store                    # one stored PDU -> one table operation (own module: tools/c2v_store.py)
    stext3, sproblems3 = c2v_store.generate_store()
    write_if_changed(c2v_store.STORE_OUT, stext3, "GeneratedStore.v")
    mproblems = mproblems + sproblems3
    for p in problems + sproblems + mproblems:
        print("c2v: problem:", p)
    return 0


if __name__ == "__main__":
    sys.exit(main())
