#!/usr/bin/env python3
"""vlib.py - shared machinery for the per-property checks.

Everything a check needs that is not specific to one property lives here:
locating /repo, compiling C harnesses from /repo's *current working tree*,
building Coq targets and reading back `Print Assumptions`, running the
extracted OCaml model, known-findings handling, replay / evidence writing.
Python 3 standard library only.
"""
import hashlib
import json
import os
import random
import re
import shutil
import subprocess
import sys
import time

VERIF = os.path.dirname(os.path.dirname(os.path.abspath(__file__)))
REPO = os.environ.get("VERIF_REPO", "/repo")
BUILD = os.path.join(VERIF, "build")
COQ = os.path.join(VERIF, "coq")
THEORIES = os.path.join(COQ, "theories")
EVID = os.path.join(VERIF, "evidence")
REPLAY = os.path.join(EVID, "replay")
NCPU = os.cpu_count() or 4
COV = bool(os.environ.get("VERIF_COV"))   # gcov-instrumented harness builds, used only by tools/covreport.py
if os.path.realpath(REPO) != "/repo":
    # A run against a scratch copy of the repository (a seeded change) gets a world of its own: build products, evidence and a
    # private copy of the Coq tree (the translator rewrites Gen/*.v from the tree under test; doing that in /verif/coq would
    # disturb, and be disturbed by, checks that run on /repo at the same time).
    BUILD = os.path.join(VERIF, "build", "alt", os.path.basename(os.path.realpath(REPO)))
    EVID = os.path.join(BUILD, "evidence")
    REPLAY = os.path.join(EVID, "replay")
    _coq0, COQ = COQ, os.path.join(BUILD, "coq")
    THEORIES = os.path.join(COQ, "theories")
    if not os.path.isdir(COQ):
        import shutil as _sh
        os.makedirs(BUILD, exist_ok=True)
        _tmp = COQ + ".%d.tmp" % os.getpid()
        _sh.copytree(_coq0, _tmp, copy_function=_sh.copy2)     # copy2 keeps mtimes: compiled files stay up to date
        try:
            os.rename(_tmp, COQ)
        except OSError:
            _sh.rmtree(_tmp, ignore_errors=True)               # another process of the same run was faster
    else:
        # a private copy made by an earlier check of this run: bring hand-written sources that changed in /verif/coq since then up
        # to date (the generated files under Gen/ are this tree's own business)
        import filecmp as _fc
        import shutil as _sh
        for _d, _ds, _fs in os.walk(os.path.join(_coq0, "theories")):
            if os.path.basename(_d) == "Gen":
                continue
            for _f in _fs:
                if _f.endswith(".v"):
                    _src = os.path.join(_d, _f)
                    _dst = os.path.join(COQ, os.path.relpath(_src, _coq0))
                    if not os.path.exists(_dst) or not _fc.cmp(_src, _dst, shallow=False):
                        os.makedirs(os.path.dirname(_dst), exist_ok=True)
                        _sh.copy2(_src, _dst)
if COV:                                   # a coverage run is not a check: it must not rewrite the evidence
    EVID = os.path.join(BUILD, "covevidence")
    REPLAY = os.path.join(EVID, "replay")

REPO_C = [
    "rtrlib/rtr_mgr.c", "rtrlib/lib/utils.c", "rtrlib/lib/alloc_utils.c",
    "rtrlib/lib/convert_byte_order.c", "rtrlib/lib/ip.c", "rtrlib/lib/ipv4.c",
    "rtrlib/lib/ipv6.c", "rtrlib/lib/log.c", "rtrlib/pfx/trie/trie.c",
    "rtrlib/pfx/trie/trie-pfx.c", "rtrlib/transport/transport.c",
    "rtrlib/rtr/rtr.c", "rtrlib/rtr/packets.c",
    "rtrlib/spki/hashtable/ht-spkitable.c", "third-party/tommyds/tommy.c",
]
BGPSEC_C = ["rtrlib/bgpsec/bgpsec.c", "rtrlib/bgpsec/bgpsec_utils.c"]

FORBIDDEN = re.compile(
    r"\b(Admitted|admit|Axiom|Axioms|Parameter|Parameters|Conjecture|Conjectures|"
    r"Admit Obligations|bypass_check|native_compute)\b|Unset\s+Guard|Unset\s+Positivity|"
    r"Unset\s+Universe|type-in-type|impredicative-set")

ALLOWED_AXIOMS = ()  # the development is expected to be axiom-free


def log(*a):
    print(*a, flush=True)


def sh(cmd, timeout=None, cwd=None, env=None, input=None):
    """Run cmd (list or str); return (rc, stdout+stderr)."""
    t0 = time.time()
    try:
        p = subprocess.run(cmd, shell=isinstance(cmd, str), cwd=cwd, env=env, input=input,
                           stdout=subprocess.PIPE, stderr=subprocess.STDOUT, timeout=timeout,
                           universal_newlines=True, errors="replace")
        return p.returncode, p.stdout
    except subprocess.TimeoutExpired as e:
        out = e.stdout or ""
        if isinstance(out, bytes):
            out = out.decode("utf-8", "replace")
        return 124, out + "\n[timeout after %.0fs]" % (time.time() - t0)


def seed():
    try:
        return int(os.environ.get("VERIF_SEED", "1"))
    except ValueError:
        return 1


def rng(extra=0):
    return random.Random(seed() * 1000003 + extra)


# ---------------------------------------------------------------------------
# C side: objects are compiled from /repo's working tree, cached by content
# ---------------------------------------------------------------------------
def _sha(*parts):
    h = hashlib.sha1()
    for p in parts:
        h.update(p if isinstance(p, bytes) else str(p).encode())
        h.update(b"\0")
    return h.hexdigest()


def _headers_digest():
    h = hashlib.sha1()
    for root in ("rtrlib", "third-party"):
        for d, _, fs in sorted(os.walk(os.path.join(REPO, root))):
            for f in sorted(fs):
                if f.endswith((".h", ".c")) and (root == "third-party" or f.endswith(".h")):
                    p = os.path.join(d, f)
                    h.update(p.encode())
                    with open(p, "rb") as fh:
                        h.update(fh.read())
    return h.hexdigest()


_HD = None


def headers_digest():
    global _HD
    if _HD is None:
        _HD = _headers_digest()
    return _HD


def ensure_config_h():
    """rtrlib/config.h and rtrlib/rtrlib.h are generated by cmake and ignored by git;
    provide fall-backs on the include path when they are absent."""
    inc = os.path.join(BUILD, "include")
    os.makedirs(os.path.join(inc, "rtrlib"), exist_ok=True)
    cfg = os.path.join(REPO, "rtrlib", "config.h")
    if not os.path.exists(cfg):
        with open(os.path.join(inc, "rtrlib", "config.h"), "w") as f:
            f.write("#ifndef RTR_CONFIG_H\n#define RTR_CONFIG_H\n#define RTRLIB_BGPSEC_ENABLED\n#endif\n")
    return inc


def base_cflags():
    inc = ensure_config_h()
    return ["-std=gnu99", "-I" + REPO, "-I" + os.path.join(REPO, "third-party"), "-I" + inc, "-I" + os.path.join(inc, "rtrlib"),
            "-I" + os.path.join(VERIF, "harness"), "-DRTRLIB_RTRLIB_VERIF", "-w"]


SAN = {
    "none": [],
    "asan": ["-fsanitize=address,undefined", "-fno-sanitize-recover=all", "-fno-sanitize=alignment,shift-base",
             "-fno-omit-frame-pointer"],
    "tsan": ["-fsanitize=thread"],
    "ubsan": ["-fsanitize=undefined", "-fno-sanitize-recover=all", "-fno-sanitize=alignment,shift-base", "-fno-omit-frame-pointer"],
}


def compile_obj(src, flags, cc="gcc"):
    """Compile one C file to a cached object; returns (path, error_text|None)."""
    with open(src, "rb") as f:
        body = f.read()
    key = _sha(src, body, headers_digest(), " ".join(flags), cc)
    odir = os.path.join(BUILD, "covobj" if COV else "obj")
    os.makedirs(odir, exist_ok=True)
    obj = os.path.join(odir, key + ".o")
    if os.path.exists(obj):
        return obj, None
    if COV:
        # coverage build (tools/covreport.py): gcc names the .gcno/.gcda after the output file, so no rename
        rc, out = sh([cc, "-c", src, "-o", obj] + flags, timeout=300)
        return (obj, None) if rc == 0 else (None, out)
    rc, out = sh([cc, "-c", src, "-o", obj + ".tmp"] + flags, timeout=300)
    if rc != 0:
        return None, out
    os.replace(obj + ".tmp", obj)
    return obj, None


class BuildError(Exception):
    pass


def build_harness(name, main_src, includes_repo_c=(), wraps=(), san="none", opt="-O1", extra=(),
                  libs=("-lpthread",), bgpsec=True, with_repo=True, cc="gcc", harness_dep=()):
    """Build /verif/build/bin/<name> from a harness main file plus every /repo source that the
    main file does not #include itself.  Always reflects /repo's current working tree."""
    flags = base_cflags() + [opt, "-g"] + SAN[san] + list(extra)
    if COV:
        flags = [f for f in flags if not f.startswith("-O")] + ["-O0", "--coverage", "-fprofile-update=atomic"]
        name = name + "_cov"
    objs = []
    srcs = []
    if with_repo:
        srcs = [s for s in REPO_C + (BGPSEC_C if bgpsec else []) if s not in includes_repo_c]
    for s in srcs:
        o, err = compile_obj(os.path.join(REPO, s), flags, cc)
        if err:
            raise BuildError("compiling %s failed:\n%s" % (s, err[-3000:]))
        objs.append(o)
    # the harness main depends on included repo .c files and harness headers: hash them in
    dep = hashlib.sha1()
    for s in list(includes_repo_c):
        with open(os.path.join(REPO, s), "rb") as f:
            dep.update(f.read())
    hdir = os.path.join(VERIF, "harness")
    for f in sorted(os.listdir(hdir)):
        if f.endswith(".h") or f in harness_dep:
            with open(os.path.join(hdir, f), "rb") as fh:
                dep.update(fh.read())
    o, err = compile_obj(main_src, flags + ["-DVERIF_DEP_" + dep.hexdigest()[:16]], cc)
    if err:
        raise BuildError("compiling %s failed:\n%s" % (main_src, err[-3000:]))
    objs.append(o)
    bdir = os.path.join(BUILD, "bin")
    os.makedirs(bdir, exist_ok=True)
    if os.path.realpath(REPO) != "/repo":
        # runs against a scratch copy (mutation tests) must not share binaries with concurrent runs on /repo
        name = name + "_" + _sha(os.path.realpath(REPO))[:8]
    exe = os.path.join(bdir, name)
    # link under a private name and rename: a concurrent check may be executing the old binary (ETXTBSY)
    tmp_exe = "%s.%d.tmp" % (exe, os.getpid())
    link = [cc, "-o", tmp_exe] + objs + SAN[san] + ["-Wl,--wrap=%s" % w for w in wraps] + list(libs) + (["--coverage"] if COV else [])
    if bgpsec:
        link += ["-lcrypto"]
    rc, out = sh(link, timeout=300)
    if rc != 0:
        if os.path.exists(tmp_exe):
            os.unlink(tmp_exe)
        raise BuildError("linking %s failed:\n%s" % (name, out[-3000:]))
    os.replace(tmp_exe, exe)
    return exe


def san_env():
    e = dict(os.environ)
    e["ASAN_OPTIONS"] = "detect_leaks=0:abort_on_error=0:exitcode=99:use_sigaltstack=0"
    e["UBSAN_OPTIONS"] = "halt_on_error=1:exitcode=98:print_stacktrace=1"
    return e


# ---------------------------------------------------------------------------
# Coq side
# ---------------------------------------------------------------------------
def coq_project():
    """(Re)write _CoqProject from the files on disk and make sure Makefile.coq exists."""
    vs = []
    for d, _, fs in sorted(os.walk(THEORIES)):
        for f in sorted(fs):
            if f.endswith(".v"):
                vs.append(os.path.relpath(os.path.join(d, f), COQ))
    text = "-Q theories RtrV\n-arg -w -arg -all\n" + "\n".join(vs) + "\n"
    p = os.path.join(COQ, "_CoqProject")
    old = open(p).read() if os.path.exists(p) else None
    if old != text or not os.path.exists(os.path.join(COQ, "Makefile.coq")):
        with open(p, "w") as f:
            f.write(text)
        rc, out = sh(["coq_makefile", "-f", "_CoqProject", "-o", "Makefile.coq"], cwd=COQ, timeout=120)
        if rc != 0:
            raise BuildError("coq_makefile failed: " + out)


def regenerate():
    """Run the translator; Generated.v is rewritten only when its text changes."""
    rc, out = sh([sys.executable, os.path.join(VERIF, "tools", "c2v.py")], timeout=600)
    return rc, out


def coq_make(targets, timeout=1500):
    """make -k the given .vo targets (paths relative to coq/). Returns (ok, output)."""
    coq_project()
    rc, out = sh(coq_make_cmd(targets), cwd=COQ, timeout=timeout)
    return rc == 0, out


def coq_make_cmd(targets=()):
    """make under an address-space limit per process: a proof script that runs away (a seeded change can make one do
    that) must fail its own coqc, not take the machine down"""
    return ["sh", "-c", "ulimit -v 16000000; exec make -k -j%d -f Makefile.coq %s" % (NCPU, " ".join(targets))]


def coq_cone(vfile):
    """.v files (relative to coq/) in the dependency cone of vfile, via coqdep."""
    coq_project()
    vs = [l.strip() for l in open(os.path.join(COQ, "_CoqProject")) if l.strip().endswith(".v")]
    rc, out = sh(["coqdep", "-Q", "theories", "RtrV"] + vs, cwd=COQ, timeout=120)
    deps = {}
    for line in out.split("\n"):
        m = re.match(r"^(\S+)\.vo\b[^:]*:\s*(.*)$", line)
        if not m:
            continue
        deps[m.group(1) + ".v"] = [d[:-3] + ".v" for d in m.group(2).split() if d.endswith(".vo")]
    seen, todo = [], [vfile]
    while todo:
        f = todo.pop()
        if f in seen:
            continue
        seen.append(f)
        todo += deps.get(f, [])
    return sorted(x for x in seen if os.path.exists(os.path.join(COQ, x)))


LEMMA_RE = re.compile(r"^\s*(?:Local\s+|Global\s+|#\[[^\]]*\]\s*)?(Lemma|Theorem|Corollary|Fact|Example|Proposition|Remark)\s+([A-Za-z0-9_']+)", re.M)


def count_obligations(vfiles):
    names = []
    for f in vfiles:
        txt = open(os.path.join(COQ, f)).read()
        names += [m.group(2) for m in LEMMA_RE.finditer(txt)]
    return names


def forbidden_scan(vfiles):
    """Return list of (file, line, text) with forbidden vernacular (comments stripped)."""
    bad = []
    for f in vfiles:
        txt = open(os.path.join(COQ, f)).read()
        # strip (nested) comments
        out, depth, i = [], 0, 0
        while i < len(txt):
            if txt.startswith("(*", i):
                depth += 1; i += 2; continue
            if txt.startswith("*)", i) and depth > 0:
                depth -= 1; i += 2; continue
            if depth == 0:
                out.append(txt[i])
            elif txt[i] == "\n":
                out.append("\n")
            i += 1
        for n, line in enumerate("".join(out).split("\n"), 1):
            if FORBIDDEN.search(line):
                bad.append((f, n, line.strip()))
            if re.match(r"^\s*(Variable|Variables|Hypothesis|Hypotheses|Context)\b", line):
                # only allowed inside a Section: checked coarsely by requiring a Section earlier in file
                pre = "\n".join("".join(out).split("\n")[:n])
                if len(re.findall(r"^\s*Section\b", pre, re.M)) <= len(re.findall(r"^\s*End\b", pre, re.M)) - len(re.findall(r"^\s*Module\b", pre, re.M)):
                    bad.append((f, n, "top-level " + line.strip()))
    return bad


def print_assumptions(module, theorems, timeout=300):
    """Return {theorem: text} from `Print Assumptions` run in a fresh coqc."""
    tmpd = os.path.join(BUILD, "pa")
    os.makedirs(tmpd, exist_ok=True)
    base = "PA_" + module.replace(".", "_")
    vf = os.path.join(tmpd, base + ".v")
    with open(vf, "w") as f:
        f.write("Require Import RtrV.%s.\n" % module)
        for t in theorems:
            f.write('Goal True. idtac "@@BEGIN %s". Abort.\nPrint Assumptions %s.\nGoal True. idtac "@@END". Abort.\n' % (t, t))
    rc, out = sh(["coqc", "-Q", os.path.join(COQ, "theories"), "RtrV", "-w", "-all", vf], cwd=tmpd, timeout=timeout)
    res = {}
    if rc != 0:
        return None, out
    for m in re.finditer(r"@@BEGIN (\S+)\n(.*?)@@END", out, re.S):
        res[m.group(1)] = " ".join(m.group(2).split())
    return res, out


def coq_eval(name, body, timeout=600):
    """Compile a scratch .v (body) against the development; return (rc, output)."""
    tmpd = os.path.join(BUILD, "eval")
    os.makedirs(tmpd, exist_ok=True)
    vf = os.path.join(tmpd, name + ".v")
    with open(vf, "w") as f:
        f.write(body)
    return sh(["coqc", "-Q", os.path.join(COQ, "theories"), "RtrV", "-w", "-all", vf], cwd=tmpd, timeout=timeout)


def first_coq_error(out):
    m = re.search(r'File "([^"]+)", line (\d+), characters [^\n]*\n(Error:.*?)(?:\n\n|\nmake|\Z)', out, re.S)
    if m:
        return {"file": m.group(1), "line": int(m.group(2)), "error": " ".join(m.group(3).split())[:600]}
    return {"file": None, "line": None, "error": out[-600:]}


def theorem_at(vfile, line):
    """Name of the lemma/theorem enclosing a line of a .v file."""
    try:
        txt = open(vfile if os.path.isabs(vfile) else os.path.join(COQ, vfile)).read().split("\n")
    except OSError:
        return None
    for i in range(min(line, len(txt)) - 1, -1, -1):
        m = LEMMA_RE.match(txt[i]) or re.match(r"^\s*(Definition|Fixpoint|Instance)\s+([A-Za-z0-9_']+)", txt[i])
        if m:
            return m.group(2)
    return None


class ProofResult:
    def __init__(self):
        self.ok = False
        self.obligations = []
        self.cone = []
        self.assumptions = {}
        self.problems = []      # human-readable strings
        self.broken = None      # dict naming the theorem / file that no longer checks
        self.make_cmd = ""
        self.wall = 0.0
        self.discharged_partial = 0


def check_proofs(pid, theorems, module=None, regen=True, timeout=1500):
    """Build Props/Properties_<pid>.vo from the current sources (Generated.v refreshed from /repo),
    verify no forbidden vernacular, and read back Print Assumptions for the property theorems."""
    t0 = time.time()
    r = ProofResult()
    module = module or ("Props.Properties_%s" % pid)
    vfile = "theories/" + module.replace(".", "/") + ".v"
    target = vfile[:-2] + ".vo"
    r.make_cmd = "make -k -j%d -f Makefile.coq %s (in /verif/coq, after tools/c2v.py)" % (NCPU, target)
    if regen:
        rc, out = regenerate()
        if rc != 0:
            r.problems.append("translator failed: " + out[-800:])
            r.broken = {"what": "translator tools/c2v.py", "detail": out[-800:]}
    ok, out = coq_make([target], timeout=timeout)
    r.cone = coq_cone(vfile)
    r.obligations = count_obligations(r.cone)
    done = [f for f in r.cone if os.path.exists(os.path.join(COQ, f[:-2] + ".vo")) and
            os.path.getmtime(os.path.join(COQ, f[:-2] + ".vo")) >= os.path.getmtime(os.path.join(COQ, f))]
    r.discharged_partial = len(count_obligations(done))
    if not ok:
        e = first_coq_error(out)
        th = theorem_at(e["file"], e["line"]) if e["file"] else None
        r.broken = {"what": "proof obligation", "theorem": th, "file": e["file"], "line": e["line"], "detail": e["error"]}
        r.problems.append("coq build failed at %s:%s (%s): %s" % (e["file"], e["line"], th, e["error"]))
        r.wall = time.time() - t0
        return r
    bad = forbidden_scan(r.cone)
    if bad:
        r.problems.append("forbidden vernacular: %r" % bad[:5])
        r.broken = {"what": "forbidden vernacular", "detail": repr(bad[:5])}
    pa, paout = print_assumptions(module, theorems)
    if pa is None:
        r.problems.append("Print Assumptions failed: " + paout[-500:])
        r.broken = r.broken or {"what": "Print Assumptions", "detail": paout[-500:]}
    else:
        r.assumptions = pa
        for t in theorems:
            txt = pa.get(t)
            if txt is None:
                r.problems.append("theorem %s missing" % t)
                r.broken = r.broken or {"what": "missing theorem", "theorem": t}
            elif "Closed under the global context" not in txt:
                r.problems.append("theorem %s depends on axioms: %s" % (t, txt[:300]))
                r.broken = r.broken or {"what": "axiom dependency", "theorem": t, "detail": txt[:300]}
    if not r.problems and os.environ.get("VERIF_TIER") == "thorough":
        # independent re-check of the compiled files and of everything they depend on
        rc, out = sh(["coqchk", "-o", "-silent", "-Q", "theories", "RtrV", "RtrV." + module], cwd=COQ, timeout=1800)
        tail = " ".join(out.split())[-600:]
        r.assumptions["coqchk"] = tail
        if rc != 0:
            r.problems.append("coqchk failed: " + tail)
            r.broken = {"what": "coqchk", "detail": tail}
        elif "Axioms: <none>" not in out.replace("\n", " ") and "* Axioms: <none>" not in out:
            m = re.search(r"\* Axioms:(.*?)(\* |$)", out, re.S)
            ax = " ".join(m.group(1).split()) if m else "?"
            if ax and ax != "<none>":
                r.problems.append("coqchk reports axioms: " + ax[:300])
                r.broken = {"what": "axiom dependency (coqchk)", "detail": ax[:300]}
    r.ok = not r.problems
    r.wall = time.time() - t0
    return r


# ---------------------------------------------------------------------------
# extracted OCaml model
# ---------------------------------------------------------------------------
def build_model(timeout=900):
    """Extract (Extract/Extract.vo) and compile ocaml/driver.ml -> build/bin/model."""
    ok, out = coq_make(["theories/Extract/Extract.vo"], timeout=timeout)
    if not ok:
        raise BuildError("extraction failed:\n" + out[-3000:])
    src_ml = os.path.join(COQ, "model.ml")
    src_mli = os.path.join(COQ, "model.mli")
    odir = os.path.join(BUILD, "ocaml")
    os.makedirs(odir, exist_ok=True)
    drv = os.path.join(VERIF, "ocaml", "driver.ml")
    key = _sha(open(src_ml, "rb").read(), open(src_mli, "rb").read(), open(drv, "rb").read())
    exe = os.path.join(BUILD, "bin", "model")
    stamp = os.path.join(odir, "stamp")
    if os.path.exists(exe) and os.path.exists(stamp) and open(stamp).read() == key:
        return exe
    for f in (src_ml, src_mli, drv):
        shutil.copy(f, odir)
    os.makedirs(os.path.join(BUILD, "bin"), exist_ok=True)
    tmp_exe = "%s.%d.tmp" % (exe, os.getpid())
    rc, out = sh(["ocamlfind", "ocamlopt", "-O3", "-w", "-a", "-o", tmp_exe, "model.mli", "model.ml", "driver.ml"],
                 cwd=odir, timeout=timeout)
    if rc != 0:
        rc, out = sh(["ocamlfind", "ocamlopt", "-w", "-a", "-o", tmp_exe, "model.mli", "model.ml", "driver.ml"],
                     cwd=odir, timeout=timeout)
    if rc != 0:
        raise BuildError("ocaml build failed:\n" + out[-3000:])
    os.replace(tmp_exe, exe)
    with open(stamp, "w") as f:
        f.write(key)
    return exe


def run_lines(exe, text, timeout=600, env=None, args=()):
    """Feed text on stdin, return (rc, list of output lines)."""
    rc, out = sh([exe] + list(args), input=text, timeout=timeout, env=env)
    return rc, out.split("\n")


def extraction_directives():
    p = "/usr/lib/ocaml/coq/theories/extraction/ExtrOcamlBasic.v"
    try:
        txt = open(p).read()
    except OSError:
        return ["ExtrOcamlBasic.v not readable"]
    ds = re.findall(r"^(Extract[^\n]*?\.)\s*$", txt, re.M)
    return [" ".join(d.split()) for d in ds]


# ---------------------------------------------------------------------------
# known findings, replay, evidence
# ---------------------------------------------------------------------------
def known_findings(pid):
    p = os.path.join(VERIF, "known_findings.jsonl")
    res = []
    if os.path.exists(p):
        for line in open(p):
            line = line.strip()
            if not line or line.startswith("#"):
                continue
            o = json.loads(line)
            if o.get("property") == pid:
                res.append(o)
    return res


def write_replay(pid, obj, tag=None):
    os.makedirs(REPLAY, exist_ok=True)
    p = os.path.join(REPLAY, "%s-%s.json" % (pid, tag or seed()))
    with open(p, "w") as f:
        json.dump(obj, f, indent=1, sort_keys=True, default=str)
    return p


class Check:
    """Book-keeping for one run of one property's check."""

    def __init__(self, pid, tier):
        self.pid = pid
        self.tier = tier
        self.t0 = time.time()
        self.violations = []     # (replay_path, no_input_found: bool, text)
        self.known_hits = {}     # key -> text
        self.cov = {"samples": []}
        self.assumptions = []
        self.trusted = []
        self.proof = None
        self.notes = []

    # -- findings ---------------------------------------------------------
    def classify(self, finding_key):
        """Return the open known-finding record matching finding_key, else None."""
        for k in known_findings(self.pid):
            if k.get("status") == "open" and k.get("key") == finding_key:
                return k
        return None

    def violation(self, replay_obj, key=None, no_input=False, tag=None):
        """Report a violation unless `key` names an open known finding."""
        if key is not None:
            k = self.classify(key)
            if k is not None:
                if key not in self.known_hits:
                    self.known_hits[key] = k.get("what", key)
                return False
        replay_obj = dict(replay_obj)
        replay_obj.setdefault("property", self.pid)
        replay_obj.setdefault("seed", seed())
        replay_obj.setdefault("finding_key", key)
        idx = len(self.violations)
        path = write_replay(self.pid, replay_obj, tag or ("%s-%d" % (seed(), idx)))
        self.violations.append((path, no_input, key))
        return True

    def proof_broken(self, pr, searched):
        """A proof obligation / tie no longer checks and no failing input was found."""
        obj = {"kind": "proof-or-tie-broken", "broken": pr.broken, "problems": pr.problems,
               "searched": searched, "make_cmd": pr.make_cmd}
        return self.violation(obj, key=None, no_input=True, tag="%s-proof" % seed())

    # -- finish -----------------------------------------------------------
    def finish(self, level="proof"):
        wall = time.time() - self.t0
        cov = dict(self.cov)
        pr = self.proof
        if pr is not None:
            cov["obligations"] = max(1, len(pr.obligations))
            cov["discharged"] = len(pr.obligations) if pr.ok else max(1, pr.discharged_partial)
            cov["checker_cmd"] = pr.make_cmd
            cov["proof_cone_files"] = pr.cone
            cov["print_assumptions"] = pr.assumptions
            cov["proof_problems"] = pr.problems
            cov["proof_wall_s"] = round(pr.wall, 2)
        cov.setdefault("trusted_base", [])
        cov["trusted_base"] = list(cov["trusted_base"]) + self.trusted + [
            "Coq 8.16.1 kernel (vm_compute used; no native_compute)",
            "axioms: none (Print Assumptions of every property theorem must read 'Closed under the global context')",
            "tools/c2v.py translator + clang JSON AST (Gen/Generated.v, GeneratedMem.v, GeneratedMemW.v, GeneratedIp.v, GeneratedFsm*.v, "
            "LockSkeletons.v, and by tools/c2v_mgr.py / c2v_send.py / c2v_store.py GeneratedMgr.v, GeneratedSend.v, GeneratedStore.v, regenerated from /repo on this run; the memory-mode part is tested against the compiled functions by tools/footer_diff.py)",
            "extraction: ExtrOcamlBasic only: " + "; ".join(extraction_directives()),
            "correspondence harness (C drivers in /verif/harness, generators and canonicalisation in tools/), gcc, sanitizers",
        ]
        cov["known_findings_hit"] = self.known_hits
        cov["notes"] = self.notes
        if not cov.get("samples"):
            cov["samples"] = ["(none)"]
        cov.setdefault("evaluations", 0)
        cov.setdefault("distinct_nontrivial", 0)
        ev = {"property_id": self.pid, "tier": self.tier, "seed": seed(), "level": level,
              "coverage": cov, "assumptions": self.assumptions, "wall_s": round(wall, 2),
              "violations": len(self.violations)}
        os.makedirs(EVID, exist_ok=True)
        with open(os.path.join(EVID, self.pid + ".json"), "w") as f:
            json.dump(ev, f, indent=1, sort_keys=True, default=str)
        for key, what in sorted(self.known_hits.items()):
            log("KNOWN-FINDING: property=%s %s" % (self.pid, what))
        for path, no_input, key in self.violations:
            log("VIOLATION property=%s replay=%s%s" % (self.pid, path, " no-failing-input-found" if no_input else ""))
        log("[%s %s] evaluations=%s violations=%d known=%d wall=%.1fs" % (
            self.pid, self.tier, cov.get("evaluations"), len(self.violations), len(self.known_hits), wall))
        return 1 if self.violations else 0
