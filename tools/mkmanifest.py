#!/usr/bin/env python3
"""Regenerate MANIFEST.json from tools/manifest_entries.py (kept in one place so it stays valid)."""
import json, os, sys
sys.path.insert(0, os.path.dirname(os.path.abspath(__file__)))
from manifest_entries import CHECKS, NOT_APPLICABLE, ENGINES
V = os.path.dirname(os.path.dirname(os.path.abspath(__file__)))
checks = []
for c in CHECKS:
    pid = c["id"]
    checks.append({
        "property_id": pid,
        "quick_cmd": "python3 tools/check.py %s quick" % pid,
        "thorough_cmd": "python3 tools/check.py %s thorough" % pid,
        "evidence_file": "/verif/evidence/%s.json" % pid,
        "replay_cmd_template": "python3 tools/check.py %s --replay {path}" % pid,
        "engine": c.get("engine", "coq-proof+correspondence"),
        "level_claimed": {"category": c.get("category", "proof"), "text": c["text"], "design_ref": c.get("design_ref", "DESIGN.md section 4, " + pid)},
        "level_note": c["note"],
        "technique": c["technique"],
    })
m = {
    "version": 1,
    "setup_cmd": "python3 tools/setup.py",
    "hooks": {"guard": "RTRLIB_RTRLIB_VERIF", "enable": "harnesses are compiled with -DRTRLIB_RTRLIB_VERIF; no source hook is behind it (link-time --wrap and #include of repo .c files are used instead)",
              "baseline_off_cmd": "sh tools/baseline.sh", "source_commits": [], "add_only": True},
    "engines": ENGINES,
    "checks": checks,
    "notes": "All checks: Coq 8.16.1 theorems over a model tied to /repo on every run (translator tools/c2v.py regenerating Gen/Generated.v and/or differential correspondence of the extracted model against harnesses compiled from /repo's working tree). See DESIGN.md.",
    "not_applicable": NOT_APPLICABLE,
}
json.dump(m, open(os.path.join(V, "MANIFEST.json"), "w"), indent=1)
print("MANIFEST.json: %d checks, %d not_applicable" % (len(checks), len(NOT_APPLICABLE)))
