"""rtrsim.py - PDU encoding/decoding, a truthful cache simulator with fault injection, and the
runner for harness/rtr_run.c.  Shared by the RTR-protocol properties (C03 C04 C05 C07 C08 C13 C14 C17)."""
import os
import re
import struct

import vlib

SERIAL_NOTIFY, SERIAL_QUERY, RESET_QUERY, CACHE_RESPONSE, IPV4_PREFIX, RESERVED, IPV6_PREFIX, EOD, CACHE_RESET, ROUTER_KEY, ERROR = range(11)
PDU_NAMES = ["SERIAL_NOTIFY", "SERIAL_QUERY", "RESET_QUERY", "CACHE_RESPONSE", "IPV4_PREFIX", "RESERVED", "IPV6_PREFIX", "EOD",
             "CACHE_RESET", "ROUTER_KEY", "ERROR"]
MAX_PDU_LEN = 3248
SKI_SIZE, SPKI_SIZE = 20, 91


def hdr(ver, typ, field, length):
    return struct.pack(">BBHI", ver & 0xff, typ & 0xff, field & 0xffff, length & 0xffffffff)


def cache_response(ver, session):
    return hdr(ver, CACHE_RESPONSE, session, 8)


def cache_reset(ver):
    return hdr(ver, CACHE_RESET, 0, 8)


def serial_notify(ver, session, sn):
    return hdr(ver, SERIAL_NOTIFY, session, 12) + struct.pack(">I", sn & 0xffffffff)


def eod(ver, session, sn, refresh=3600, retry=600, expire=7200):
    if ver == 0:
        return hdr(ver, EOD, session, 12) + struct.pack(">I", sn & 0xffffffff)
    return hdr(ver, EOD, session, 24) + struct.pack(">IIII", sn & 0xffffffff, refresh & 0xffffffff, retry & 0xffffffff, expire & 0xffffffff)


def bits_to_bytes(bits):
    v = int(bits, 2) if bits else 0
    return v.to_bytes(len(bits) // 8, "big")


def prefix_pdu(ver, rec, flags):
    """rec = (fam, bits, len, max, asn)"""
    fam, bits, ln, mx, asn = rec[:5]
    if fam == "4":
        return hdr(ver, IPV4_PREFIX, 0, 20) + bytes([flags & 0xff, ln & 0xff, mx & 0xff, 0]) + bits_to_bytes(bits) + struct.pack(">I", asn)
    return hdr(ver, IPV6_PREFIX, 0, 32) + bytes([flags & 0xff, ln & 0xff, mx & 0xff, 0]) + bits_to_bytes(bits) + struct.pack(">I", asn)


LATE_KEYS = 1 << 24


def kid_to_key(kid):
    if kid >= LATE_KEYS:
        # a family of keys as real ones are: one SKI, SPKIs with a common DER header, equal up to their last byte
        # (only on the wire: `pre key` lines, whose bytes harness and model driver compute from the id, never use them)
        fam, tail = (kid >> 8) & 0xff, kid & 0xff
        ski = bytes((fam + i * 7) & 0xff for i in range(SKI_SIZE))
        hdr = bytes.fromhex("3059301306072a8648ce3d020106082a8648ce3d030107034200")
        spki = (hdr + bytes((fam + i) & 0xff for i in range(SPKI_SIZE)))[:SPKI_SIZE - 1] + bytes([tail])
        return ski, spki
    ski = bytes(((kid >> 8) + i * 7) & 0xff for i in range(SKI_SIZE))
    spki = bytes((kid + i * 3) & 0xff for i in range(SPKI_SIZE))
    return ski, spki


def key_pdu(ver, key, flags):
    """key = (asn, kid)"""
    asn, kid = key[:2]
    ski, spki = kid_to_key(kid)
    return struct.pack(">BBBBI", ver & 0xff, ROUTER_KEY, flags & 0xff, 0, 123) + ski + struct.pack(">I", asn) + spki


def error_pdu(ver, code, enc=b"", text=b""):
    ln = 16 + len(enc) + len(text)
    return hdr(ver, ERROR, code, ln) + struct.pack(">I", len(enc)) + enc + struct.pack(">I", len(text)) + text


def parse_pdus(data):
    """Split a byte string into PDUs; returns (list of dicts, leftover, error)."""
    out = []
    i = 0
    while i < len(data):
        if len(data) - i < 8:
            return out, data[i:], "truncated header"
        ver, typ, field, ln = struct.unpack(">BBHI", data[i:i + 8])
        if ln < 8 or ln > MAX_PDU_LEN:
            return out, data[i:], "bad length %d" % ln
        if len(data) - i < ln:
            return out, data[i:], "truncated pdu"
        body = data[i + 8:i + ln]
        d = {"ver": ver, "type": typ, "field": field, "len": ln, "raw": data[i:i + ln]}
        if typ in (SERIAL_QUERY,) and ln == 12:
            d["sn"] = struct.unpack(">I", body)[0]
        if typ == ERROR and ln >= 16:
            el = struct.unpack(">I", body[:4])[0]
            d["enc_len"] = el
            if 4 + el + 4 <= len(body):
                d["enc"] = body[4:4 + el]
                tl = struct.unpack(">I", body[4 + el:8 + el])[0]
                d["text_len"] = tl
                d["text"] = body[8 + el:]
                d["consistent"] = (16 + el + tl == ln)
            else:
                d["consistent"] = False
        out.append(d)
        i += ln
    return out, b"", None


# ---------------------------------------------------------------------------
# running the harness
# ---------------------------------------------------------------------------
_EXE = {}
_DBG = re.compile(r"^\(\d{4}/\d\d/\d\d ")


def impl_exe(san="asan"):
    k = "rtr_run_" + san
    if k not in _EXE:
        _EXE[k] = vlib.build_harness(k, os.path.join(vlib.VERIF, "harness", "rtr_run.c"),
                                     includes_repo_c=("rtrlib/spki/hashtable/ht-spkitable.c",),
                                     wraps=("lrtr_get_monotonic_time", "sleep"), san=san)
    return _EXE[k]


class Script:
    def __init__(self, refresh=3600, expire=7200, retry=600, mode=0):
        self.cfg = (refresh, expire, retry, mode)
        self.pre = []
        self.opens = []
        self.sends = []
        self.evs = []

    def lines(self):
        out = ["cfg %d %d %d %d" % self.cfg] + self.pre
        if self.opens:
            out.append("open " + " ".join(str(int(o)) for o in self.opens))
        if self.sends:
            out.append("send " + " ".join(str(s) for s in self.sends))
        for e in self.evs:
            if e[0] == "data":
                out.append("ev data " + e[1].hex())
            else:
                out.append("ev %s %s" % (e[0], e[1] if len(e) > 1 else ""))
        out.append("run")
        return out

    def data(self, b, chunk=None):
        if chunk is None:
            self.evs.append(("data", bytes(b)))
        else:
            for i in range(0, len(b), chunk):
                self.evs.append(("data", bytes(b[i:i + chunk])))

    def err(self, code):
        self.evs.append(("err", code))

    def wait(self, secs):
        self.evs.append(("wait", secs))

    def stop(self):
        self.evs.append(("stop",))


def run_impl(script_lines, timeout=60, san=None):
    # gcc 12's libasan aborts inside its own sigaltstack interceptor when a thread is cancelled
    # (pthread_cancel from rtr_stop): scripts with a stop event run under UBSan + asserts only
    if san is None:
        san = "ubsan" if any(l.startswith(("ev stop", "stopcb")) for l in script_lines) else "asan"
    rc, out = vlib.run_lines(impl_exe(san), "\n".join(script_lines) + "\n", env=vlib.san_env(), timeout=timeout)
    return rc, [l for l in out if l != "" and not _DBG.match(l)]


class Trace:
    """Parsed harness / model trace."""

    def __init__(self, lines):
        self.lines = lines
        self.sent = b""
        self.send_calls = []
        self.states = []
        self.dumps = []          # (tag, fields dict, records list)
        self.ended = None
        self.crash = None
        cur = None
        known = ("SLEEP", "END", "OPEN", "CLOSE", "SENDFAIL", "SEND", "RECV", "PFXCB", "KEYCB", "STATE", "DUMP", "REC", "ENDDUMP",
                 "INIT", "STARTFAIL", "STOPPING", "STOPCB")
        for i, l in enumerate(lines):
            w = l.split()
            if not w or w[0] not in known:
                self.crash = "\n".join(lines[i:i + 30])
                self.lines = lines[:i]
                break
            if w[0] == "SEND":
                b = bytes.fromhex(w[1]) if len(w) > 1 else b""
                self.sent += b
                self.send_calls.append(b)
            elif w[0] == "STATE":
                self.states.append(w[1])
            elif w[0] == "DUMP":
                f = dict(x.split("=", 1) for x in w[2:])
                cur = (w[1], f, [])
                self.dumps.append(cur)
            elif w[0] == "REC" and cur is not None:
                cur[2].append(w[1])
            elif w[0] == "END":
                self.ended = " ".join(w[1:])

    def final(self):
        return self.dumps[-1] if self.dumps else None


# ---------------------------------------------------------------------------
# the extracted model on the same script, and trace comparison
# ---------------------------------------------------------------------------
def run_model(script_lines, timeout=120):
    exe = vlib.build_model() if "model" not in _EXE else _EXE["model"]
    _EXE["model"] = exe
    rc, out = vlib.run_lines(exe, "\n".join(script_lines) + "\n", args=["rtr"], timeout=timeout)
    return rc, [l for l in out if l != ""]


def canon_trace(lines):
    """Callback lines are compared as sorted blocks (their order inside one table operation depends on
    the table's internal layout, which the set-level RTR model does not have)."""
    out, block = [], []
    for l in lines:
        if l.startswith("PFXCB") or l.startswith("KEYCB"):
            block.append(l)
        else:
            if block:
                out += sorted(block)
                block = []
            out.append(l)
    if block:
        out += sorted(block)
    return out


def first_diff(a, b):
    ca, cb = canon_trace(a), canon_trace(b)
    for i in range(max(len(ca), len(cb))):
        x = ca[i] if i < len(ca) else "<missing>"
        y = cb[i] if i < len(cb) else "<missing>"
        if x != y:
            return i, x, y
    return None


# ---------------------------------------------------------------------------
# cache simulator with the model in the loop: the script is grown exchange by exchange; what the
# client asks is read from the extracted model's trace (Impl is compared against the same script)
# ---------------------------------------------------------------------------
class Cache:
    def __init__(self, rnd, ver=1, big=False):
        self.rnd = rnd
        self.ver = ver
        self.big = big
        self.session = rnd.choice([0, 1, 42, 65535, rnd.randint(0, 65535)])
        self.serial = rnd.choice([0, 1, 7, 2 ** 32 - 2, 2 ** 32 - 1, rnd.randint(0, 2 ** 32 - 1)])
        self.data = []              # list of ("p", rec) / ("k", key)
        self.history = {}           # serial -> data snapshot
        self.pool = self._pool()
        self.ivals = (3600, 600, 7200)
        self.mutate(n=rnd.randint(150, 380) if big else rnd.randint(0, 6))

    def _pool(self):
        rnd = self.rnd
        pool = []
        big = getattr(self, "big", False)
        for _ in range(260 if big else 10):
            fam = rnd.choice("46")
            w = 32 if fam == "4" else 128
            ln = rnd.choice([0, 8, 16, 24, w, rnd.randint(0, w)])
            bits = "".join(rnd.choice("01") for _ in range(ln)) + "0" * (w - ln)
            pool.append(("p", (fam, bits, ln, rnd.choice([ln, w, min(w, ln + 3)]), rnd.choice([0, 1, 65000, 2 ** 32 - 1]))))
        for _ in range(130 if big else 4):
            pool.append(("k", (rnd.choice([1, 65000, 7]), rnd.randint(0, 60000))))
        if rnd.random() < 0.5:
            # two or three keys of one AS and SKI whose SPKIs differ in the last byte only
            a, fam = rnd.choice([1, 65000, 7]), rnd.randrange(256)
            for t in rnd.sample(range(256), rnd.randint(2, 3)):
                pool.append(("k", (a, LATE_KEYS + (fam << 8) + t)))
        out = []
        for x in pool:
            if x not in out:
                out.append(x)
        return out

    def mutate(self, n=None):
        rnd = self.rnd
        self.history[self.serial] = list(self.data)
        n = (rnd.randint(1, 120) if self.big else rnd.randint(1, 4)) if n is None else n
        if n and not self.big and rnd.random() < 0.12:
            self.data = []          # the cache's data set becomes empty (empty full responses, withdraw-all deltas)
            n = 0
        elif n and not self.big and self.ver == 1 and rnd.random() < 0.06:
            self.data = [x for x in self.data if x[0] == "k"]     # router keys only: responses without any prefix PDU
            n = 0
        for _ in range(n):
            x = rnd.choice(self.pool)
            if x in self.data:
                self.data.remove(x)
            else:
                self.data.append(x)
        self.serial = (self.serial + 1) & 0xffffffff
        self.history[self.serial] = list(self.data)

    def new_session(self):
        self.session = (self.session + self.rnd.randint(1, 1000)) & 0xffff
        self.history = {self.serial: list(self.data)}

    def item_pdu(self, it, flags):
        return prefix_pdu(self.ver, it[1], flags) if it[0] == "p" else key_pdu(self.ver, it[1], flags)

    def full(self):
        """Truthful answer to a Reset Query, as a list of PDUs."""
        return [cache_response(self.ver, self.session)] + [self.item_pdu(x, 1) for x in self.data] + \
               [eod(self.ver, self.session, self.serial, *self.ivals)]

    def answer(self, q):
        """Truthful answer to a parsed query PDU."""
        if q["type"] == RESET_QUERY:
            return self.full()
        if q["type"] == SERIAL_QUERY:
            if q["field"] != self.session or q.get("sn") not in self.history:
                return [cache_reset(self.ver)]
            old = self.history[q["sn"]]
            out = [cache_response(self.ver, self.session)]
            out += [self.item_pdu(x, 0) for x in old if x not in self.data]
            out += [self.item_pdu(x, 1) for x in self.data if x not in old]
            out.append(eod(self.ver, self.session, self.serial, *self.ivals))
            return out
        return []


FAULTS = ["err_big", "trunc_err", "trunc_close", "timeout", "close_now", "bad_len_small", "bad_len_big", "bad_len_type", "bad_type",
          "bad_version", "bad_flags", "dup_announce", "unknown_withdraw", "eod_session", "cr_session", "spurious_reset",
          "err_nodata", "err_unsupported_ver", "err_other", "unexpected_pdu", "prefix_len_big", "notify_inside", "garbage",
          "announce_withdraw_same", "eod_v0_in_v1", "stop", "downgrade_error", "intr_before", "trunc_intr"]


def client_waiting(trace_lines):
    """What is the client doing when the receive script ran out?  Returns (kind, last_query_dict)."""
    sent = b""
    last_q = None
    state = None
    for l in trace_lines:
        if l.startswith("SEND "):
            sent = bytes.fromhex(l.split()[1]) if len(l.split()) > 1 else b""
            ps, _, _ = parse_pdus(sent)
            for p in ps:
                if p["type"] in (SERIAL_QUERY, RESET_QUERY):
                    last_q = p
        elif l.startswith("STATE "):
            state = int(l.split()[1])
            if state not in (3,):       # leaving SYNC invalidates the pending query unless re-sent
                if state != 1:
                    pass
        elif l.startswith("OPEN"):
            last_q = None
    return state, last_q


def build_conversation(rnd, nex=6, fault_p=0.45, cfg=None, chunking=None, faults=None, pre=True, final_good=0, plan=None, plan_pre=False):
    """Grow a script with the model in the loop. Returns (Script, meta).
    plan: a fixed list, one entry per query the client sends ("truthful" or a fault name); while the client is
    ESTABLISHED the refresh timer is let run out.  Replaces the random choices (a told story instead of a random one).
    An entry may carry prefixes that change the cache before it answers: "m:" its data set changes (new serial), "e:" its
    data set becomes empty, "k:" it loses every prefix and keeps its router keys, "s:" it starts a new session."""
    cfg = cfg or {}
    if plan is not None:
        plan = list(plan)
        nex, final_good, pre = 3 * len(plan) + 2, 0, plan_pre
    s = Script(refresh=cfg.get("refresh", rnd.choice([1, 30, 3600, 86400])),
               expire=cfg.get("expire", rnd.choice([600, 7200, 172800])),
               retry=cfg.get("retry", rnd.choice([1, 600, 7200])),
               mode=cfg.get("mode", rnd.randint(0, 3)))
    # now and then a cache with hundreds of records: responses cross the client's PDU-store growth steps (100, 200, ...)
    cache = Cache(rnd, ver=cfg.get("ver", rnd.choice([1, 1, 1, 0])), big=cfg.get("big", rnd.random() < 0.06))
    cache.ivals = cfg.get("ivals", (rnd.choice([0, 1, 3600, 86400, 86401, 2 ** 32 - 1]), rnd.choice([0, 1, 600, 7200, 7201]),
                                    rnd.choice([599, 600, 7200, 172800, 172801, 2 ** 31, 2 ** 32 - 1])))   # accept-any mode: last_update + expire passes 2^32
    if pre:
        for _ in range(rnd.randint(0, 3)):
            it = rnd.choice([x for x in cache.pool if not (x[0] == "k" and x[1][1] >= LATE_KEYS)] or cache.pool[:1])
            src = rnd.choice([2, 3, 0])          # 0: added by the application itself (socket NULL)
            line = ("pre pfx %s %s %d %d %d %d" % (it[1] + (src,))) if it[0] == "p" else ("pre key %d %d %d" % (it[1] + (src,)))
            if line not in s.pre:
                s.pre.append(line)
    s.opens = [rnd.random() > 0.15 for _ in range(40)] + [True] * 10
    if rnd.random() < 0.3:
        s.sends = [rnd.choice([1, 3, 8, 11, 12, 100]) for _ in range(rnd.randint(1, 12))]
        if rnd.random() < 0.3:
            s.sends.insert(rnd.randint(0, len(s.sends)), "e1")
    meta = {"exchanges": [], "cache_final": None}
    chunk = chunking if chunking is not None else rnd.choice([None, None, 1, 3, 7, "rand"])

    def deliver(b):
        if chunk is None:
            s.data(b)
        elif chunk == "rand":
            i = 0
            while i < len(b):
                n = rnd.randint(1, 40)
                s.data(b[i:i + n])
                i += n
        else:
            s.data(b, chunk)

    total = nex + final_good
    for k in range(total):
        rc, tr_ = run_model(s.lines())
        if not tr_ or not any(l.startswith("END recv") for l in tr_):
            break
        state, q = client_waiting(tr_)
        good = k >= nex
        if plan is not None and not plan:
            break
        if plan is not None and (state == 1 or q is None and state not in (3,)):
            s.wait(s.cfg[0] + 1)
            meta["exchanges"].append("refresh-timeout")
            continue
        if state == 1 or q is None and state not in (3,):
            # ESTABLISHED (or idle): notify, let the refresh timer fire, or misbehave
            x = rnd.random()
            if good or x < 0.4:
                s.wait(s.cfg[0] + rnd.choice([0, 1, 5]))
                meta["exchanges"].append("refresh-timeout")
            elif x < 0.7:
                if rnd.random() < 0.5:
                    cache.mutate()
                deliver(serial_notify(cache.ver, cache.session, cache.serial))
                meta["exchanges"].append("notify")
            elif x < 0.8:
                s.stop()
                meta["exchanges"].append("stop")
            elif x < 0.86:
                # half of the time the failure (interrupted / broken / closed read) comes after part of the refresh
                # interval has passed: what the client does next depends on the time that is left, not on the whole interval
                if rnd.random() < 0.5 and s.cfg[0] > 1:
                    s.wait(rnd.choice([1, s.cfg[0] // 2, s.cfg[0] - 1]))
                    s.err(3)
                    meta["exchanges"].append("intr-mid-wait")
                else:
                    s.err(rnd.choice([1, 4, 3]))
                    meta["exchanges"].append("err-while-established")
            elif x < 0.93:
                # a PDU that is not a Serial Notify and whose payload dribbles in late: the client re-enters its
                # wait when the refresh deadline may already be over
                it = next((i for i in cache.pool if i[0] == "p"), None)
                b = prefix_pdu(cache.ver, it[1], 1) if it else cache_response(cache.ver, cache.session)
                s.data(b[:8])
                if len(b) > 8:
                    s.wait(rnd.choice([1, 2, 5, 31, 59]))
                    s.data(b[8:])
                meta["exchanges"].append("late-junk-while-established")
            else:
                deliver(rnd.choice([cache_reset(cache.ver), prefix_pdu(cache.ver, cache.pool[0][1], 1) if cache.pool[0][0] == "p" else cache_reset(cache.ver),
                                    hdr(cache.ver, 77, 0, 8)]))
                meta["exchanges"].append("junk-while-established")
            continue
        if q is None:
            # in SYNC without a parsable query (partial sends): let it time out
            s.wait(61)
            meta["exchanges"].append("timeout-noquery")
            continue
        if not good and plan is None and rnd.random() < 0.35:
            cache.mutate()
        if not good and plan is None and rnd.random() < 0.08:
            cache.new_session()
        f = None
        if plan is not None:
            f = plan.pop(0)
            while len(f) > 2 and f[1] == ":":
                if f[0] == "m":
                    cache.mutate()
                elif f[0] == "e":
                    cache.mutate(n=0); cache.data = []; cache.history[cache.serial] = []
                elif f[0] == "k":
                    cache.mutate(n=0); cache.data = [x for x in cache.data if x[0] == "k"]; cache.history[cache.serial] = list(cache.data)
                elif f[0] == "s":
                    cache.new_session()
                f = f[2:]
            f = None if f == "truthful" else f
        elif not good and rnd.random() < fault_p:
            f = rnd.choice(faults or FAULTS)
        pdus = cache.answer(q)
        meta["exchanges"].append(f or "truthful")
        b = b"".join(pdus)
        if f is None:
            deliver(b)
        elif f == "trunc_err":
            deliver(b[:rnd.randint(0, max(0, len(b) - 1))]); s.err(1)
        elif f == "trunc_intr":
            # the receive call is interrupted (TR_INTR) in the middle of the answer: at a PDU boundary after the Cache Response,
            # or inside a PDU; the rest of the answer follows (the client has given the exchange up by then)
            cut = len(pdus[0]) + sum(len(x) for x in pdus[1:rnd.randint(1, max(1, len(pdus) - 1))]) if rnd.random() < 0.6 else rnd.randint(1, max(1, len(b) - 1))
            deliver(b[:cut]); s.err(3); deliver(b[cut:])
        elif f == "trunc_close":
            deliver(b[:rnd.randint(0, max(0, len(b) - 1))]); s.err(4)
        elif f == "timeout":
            deliver(b[:rnd.randint(0, max(0, len(b) - 1))]); s.wait(61)
        elif f == "close_now":
            s.err(4)
        elif f in ("bad_len_small", "bad_len_big", "bad_len_type", "bad_type", "bad_version", "bad_flags", "prefix_len_big"):
            i = rnd.randrange(len(pdus))
            p = bytearray(pdus[i])
            if f == "bad_len_small":
                p[4:8] = struct.pack(">I", rnd.randint(0, 7))
            elif f == "bad_len_big":
                p[4:8] = struct.pack(">I", rnd.choice([3249, 70000, 2 ** 32 - 1]))
            elif f == "bad_len_type":
                ln = struct.unpack(">I", bytes(p[4:8]))[0] + rnd.choice([-1, 1, 4])
                p[4:8] = struct.pack(">I", max(8, ln))
                p = p[:max(8, ln)] + bytearray(max(0, ln - len(p)))
            elif f == "bad_type":
                p[1] = rnd.choice([5, 11, 255, 1, 2])
            elif f == "bad_version":
                p[0] = rnd.choice([0, 1, 2, 255])
            elif f == "bad_flags" and len(p) > 8 and p[1] in (4, 6, 9):
                p[2 if p[1] == 9 else 8] = rnd.choice([2, 255])
            elif f == "prefix_len_big" and p[1] in (4, 6):
                p[9] = rnd.choice([33, 129, 200, 255]); p[10] = 255
            deliver(b"".join(pdus[:i]) + bytes(p) + b"".join(pdus[i + 1:]))
        elif f == "dup_announce":
            items = [x for x in pdus[1:-1]] or [cache.item_pdu(rnd.choice(cache.pool), 1)]
            x = rnd.choice(items)
            y = bytearray(x); y[2 if y[1] == 9 else 8] = 1
            j = rnd.randint(1, max(1, len(pdus) - 1))
            deliver(b"".join(pdus[:j]) + bytes(y) + bytes(y) + b"".join(pdus[j:]))
        elif f == "unknown_withdraw":
            j = rnd.randint(1, max(1, len(pdus) - 1))
            deliver(b"".join(pdus[:j]) + cache.item_pdu(rnd.choice(cache.pool), 0) + cache.item_pdu(rnd.choice(cache.pool), 0) + b"".join(pdus[j:]))
        elif f == "announce_withdraw_same":
            x = rnd.choice(cache.pool)
            j = rnd.randint(1, max(1, len(pdus) - 1))
            deliver(b"".join(pdus[:j]) + cache.item_pdu(x, 1) + cache.item_pdu(x, 0) + cache.item_pdu(x, 1) + cache.item_pdu(x, 1) + b"".join(pdus[j:]))
        elif f == "eod_session":
            deliver(b"".join(pdus[:-1]) + eod(cache.ver, (cache.session + 1) & 0xffff, cache.serial, *cache.ivals))
        elif f == "cr_session":
            deliver(cache_response(cache.ver, (cache.session + 7) & 0xffff) + b"".join(pdus[1:]))
        elif f == "spurious_reset":
            deliver(cache_reset(cache.ver))
        elif f == "err_nodata":
            deliver(error_pdu(cache.ver, 2, q["raw"], b"no data"))
        elif f == "err_nodata_other_ver":
            # "No Data Available" reported in the OTHER protocol version (Error Reports are exempt from the version check): must not
            # change what the client makes of the PDUs that follow on this connection
            deliver(error_pdu(1 - cache.ver if cache.ver in (0, 1) else 0, 2, q["raw"], b"no data"))
        elif f == "other_version_answer":
            # the truthful answer, every PDU in the other protocol version (router keys left out for version 0)
            ov = 1 - cache.ver if cache.ver in (0, 1) else 0
            saved = cache.ver
            cache.ver = ov
            try:
                alt = [x for x in cache.answer(q) if not (ov == 0 and x[1] == 9)]
            finally:
                cache.ver = saved
            deliver(b"".join(alt))
        elif f == "err_unsupported_ver":
            deliver(error_pdu(rnd.choice([0, 0, 1, 2]), 4, q["raw"], b""))
        elif f == "intr_before":
            # the receive call is interrupted (TR_INTR) before the first byte of the answer; the answer follows
            s.err(3)
            deliver(b)
        elif f == "downgrade_error":
            # "Unsupported Protocol Version" sent in the next lower version: the client downgrades and reconnects at once
            deliver(error_pdu(max(0, cache.ver - 1), 4, q["raw"], b""))
        elif f == "err_other":
            deliver(error_pdu(cache.ver, rnd.choice([0, 1, 3, 5, 6, 7, 8, 99]), rnd.choice([b"", q["raw"]]), rnd.choice([b"", b"x" * 20])))
        elif f == "err_big":
            tot = rnd.choice([MAX_PDU_LEN, MAX_PDU_LEN - 1, MAX_PDU_LEN + 1, 2000])
            enc = q["raw"]
            deliver(error_pdu(cache.ver, rnd.choice([0, 2, 3]), enc, b"t" * max(0, tot - 16 - len(enc))))
        elif f == "unexpected_pdu":
            j = rnd.randint(0, len(pdus) - 1)
            deliver(b"".join(pdus[:j]) + rnd.choice([hdr(cache.ver, SERIAL_QUERY, 1, 12) + b"\0\0\0\1", hdr(cache.ver, RESET_QUERY, 0, 8),
                                                     cache_response(cache.ver, cache.session)]) + b"".join(pdus[j:]))
        elif f == "notify_inside":
            j = rnd.randint(0, len(pdus) - 1)
            deliver(b"".join(pdus[:j]) + serial_notify(cache.ver, cache.session, cache.serial) + b"".join(pdus[j:]))
        elif f == "garbage":
            deliver(bytes(rnd.randint(0, 255) for _ in range(rnd.randint(1, 60))))
        elif f == "eod_v0_in_v1":
            deliver(b"".join(pdus[:-1]) + eod(1 - cache.ver if cache.ver in (0, 1) else 0, cache.session, cache.serial, *cache.ivals))
        elif f == "stop":
            deliver(b[:rnd.randint(0, len(b))]); s.stop()
        else:
            deliver(b)
    meta["cache_final"] = {"session": cache.session, "serial": cache.serial, "data": list(cache.data), "ver": cache.ver}
    return s, meta


def _script_from_lines(lines):
    s = Script()
    for l in lines:
        w = l.split()
        if not w:
            continue
        if w[0] == "cfg":
            s.cfg = tuple(int(x) for x in w[1:5])
        elif w[0] == "pre":
            s.pre.append(l.strip())
        elif w[0] == "open":
            s.opens += [x != "0" for x in w[1:]]
        elif w[0] == "send":
            s.sends += w[1:]
        elif w[0] == "ev":
            if w[1] == "data":
                s.evs.append(("data", bytes.fromhex(w[2]) if len(w) > 2 else b""))
            elif w[1] == "stop":
                s.evs.append(("stop",))
            else:
                s.evs.append((w[1], int(w[2])))
    return s


Script.from_lines = staticmethod(_script_from_lines)


def shrink_script(s, failing, budget=60):
    """Drop events / open entries / pre lines while `failing(script)` stays true."""
    import copy
    cur = copy.deepcopy(s)
    runs = 0
    for attr in ("evs", "pre", "sends"):
        chunk = max(1, len(getattr(cur, attr)) // 2)
        while chunk >= 1 and runs < budget:
            i = 0
            progressed = False
            while i < len(getattr(cur, attr)) and runs < budget:
                cand = copy.deepcopy(cur)
                lst = getattr(cand, attr)
                del lst[i:i + chunk]
                runs += 1
                if failing(cand):
                    cur = cand
                    progressed = True
                else:
                    i += chunk
            if not progressed:
                chunk //= 2
    return cur
