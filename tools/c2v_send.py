#!/usr/bin/env python3
"""c2v_send.py - translate the SEND path of rtrlib/rtr/packets.c from clang's AST into Coq (property C14).

    python3 tools/c2v_send.py [output.v]          (writes coq/theories/Gen/GeneratedSend.v, only if its text changes)
Library use (hook for c2v.main()):  import c2v_send; text, problems = c2v_send.generate_send()

Translated (SEND_MEMW: memory mode with stores, class c2v.TrMemW; SEND_LEAFS: effect mode with memory, class TrSend):
    rtr_pdu_header_to_network_byte_order, rtr_pdu_footer_to_network_byte_order, rtr_pdu_to_network_byte_order
    rtr_send_pdu, rtr_send_error_pdu, rtr_send_error_pdu_from_network, rtr_send_error_pdu_from_host,
    rtr_send_serial_query, rtr_send_reset_query
over the functions of Gen/GeneratedMem.v / Gen/GeneratedMemW.v (rtr_get_pdu_type, rtr_pdu_convert_header_byte_order,
rtr_pdu_convert_footer_byte_order), which are reused, not translated again.

Class TrSend extends c2v.TrEff3 (vocabulary Base/Eff.v, Base/EffMem.v, Base/Mem.v, Base/MemW.v) by:
  * PARAMETERS: the socket first (the store, as in every effect-mode function); behind it any mix of
      - pointer parameters: each brings a memory object of its own,  (m_<p> : list Z) (v_<p> : option Z)  (offset or NULL);
        the function must not store through them (refused), so callers' objects never change: nothing is handed back;
      - integer parameters (v_<p> : Z).
  * VARIABLE-LENGTH ARRAY locals `char a[n]` / `uint8_t a[n]` (n an integer local or parameter):
        eguard (0 <? n) (let m_a : list Z := zeros n in ...)
    - a memory object of SYMBOLIC size; C11 6.7.6.2p5 wants n > 0, otherwise the behaviour is undefined (EUndef).  The
    object starts as zeros (C: indeterminate).  Every later access is guarded by ld_ok / st_ok against its length.
  * STRUCT locals (struct pdu_serial_query pdu): memory object of sizeof bytes (c2v.TrEff3); NEW: field stores
    `pdu.f = e`   ->   eguard (st_ok m_pdu (ptr_add (Some 0) offsetof_<struct>__f) size) (let m_pdu := stu m_pdu ... e in ...)
    with offsets / sizes from c2v's probe program (Gen/Generated.v).  Padding / unassigned bytes stay 0.
  * STORES THROUGH POINTERS into a local object (`err_pdu->len = msg_size;`  `*((uint32_t *)(err_pdu->rest + n)) = v;`):
    same shape, pointer term from c2v.TrMem.pexpr / paddr.  A pointer local declared without initialiser is NULL until
    assigned; it points into the object it is assigned from.
  * memcpy(d, s, n) between two different known objects (c2v.TrEff3): guards ld_ok / st_ok over the whole ranges, mcopy.
  * calls of functions translated IN THIS FILE with buffer and scalar arguments:
        ebind (<f>_gen <objects and pointers, scalars, in parameter order> <socket>) (fun r <socket> => ...)
    a NULL argument is the empty object [] with the pointer (@None Z); `&local` / an array / a pointer are (object, offset).
  * calls of memory-mode writers of one pointer argument (rtr_pdu_to_network_byte_order(buf)):  eopt (<f>_gen m p) (fun m => ...)
  * EXTERNAL calls (tr_send_all, rtr_change_socket_state) are ECall nodes as in c2v.TrEff3; the buffer handed to
    tr_send_all travels as  length-of-the-object :: its bytes  followed by the scalar arguments (len, timeout); pointer
    fields of the socket (rtr_socket->tr_socket) are omitted.
A function that cannot be translated comes out as `Definition <f>_untranslated := tt.` and an entry in
`send_translator_problems`; no exception leaves generate_send().
"""
import os
import re
import sys

sys.path.insert(0, "/verif/tools")
import c2v   # noqa: E402
import vlib  # noqa: E402

from c2v import Untranslatable, inner, int_type, is_ptr_type, gname, strip_casts, is_null_ptr  # noqa: E402

SEND_OUT = os.path.join(vlib.THEORIES, "Gen", "GeneratedSend.v")
CFILE = "rtrlib/rtr/packets.c"
SEND_MEMW = ["rtr_pdu_header_to_network_byte_order", "rtr_pdu_footer_to_network_byte_order", "rtr_pdu_to_network_byte_order"]
SEND_LEAFS = ["rtr_send_pdu", "rtr_send_error_pdu", "rtr_send_error_pdu_from_network", "rtr_send_error_pdu_from_host",
              "rtr_send_serial_query", "rtr_send_reset_query"]
CASTS = ("ImplicitCastExpr", "ParenExpr", "CStyleCastExpr")
SOCK_RE = r"struct rtr_socket \*"


class TrSend(c2v.TrEff3):
    def __init__(self, fn, eff_known, mem_known, memw_known, enums, sizes):
        c2v.TrEff3.__init__(self, fn, eff_known, mem_known, memw_known, enums, sizes, {})
        self.param_objs = set()

    # -- memory ----------------------------------------------------------------
    def paddr(self, n):
        if n.get("kind") == "DeclRefExpr" and n["referencedDecl"]["name"] in self.arrays:
            return [], "(Some 0)"
        return c2v.TrEff3.paddr(self, n)

    def vla(self, d):
        """(element size, Coq term of the element count) of a variable-length array declaration, else None"""
        q = d["type"].get("desugaredQualType", d["type"]["qualType"])
        m = re.fullmatch(r"(.*?)\s*\[(\w+)\]", q.replace("const ", "").strip())
        if not m or m.group(2).isdigit() or not int_type(m.group(1)):
            return None
        if m.group(2) not in self.locals or m.group(2) in self.arrays or m.group(2) in self.ptr_locals:
            raise Untranslatable("array size %s is not an integer local" % m.group(2))
        return max(8, int_type(m.group(1))[0]) // 8, gname(m.group(2))

    def is_store_target(self, lv):
        return self.in_struct(lv) or self.in_buffer(lv)

    def store_stmt(self, s, nxt):
        op = s["opcode"]
        lhs, rhs = inner(s)
        if self.calls_in(lhs) or self.calls_in(rhs):
            raise Untranslatable("call inside a store")
        t = self.ty(lhs)
        if t is None:
            raise Untranslatable("store of a non-integer " + self.qt(lhs))
        size = max(8, t[0]) // 8
        if op == "=":
            g, val = self.expr(rhs)
        else:
            fake = {"kind": "BinaryOperator", "opcode": op[:-1], "type": s.get("computeResultType", s.get("type")),
                    "inner": [self.rvalue_of(lhs), rhs]}
            g, val = self.expr(fake)
            val = self.wrap(s, val)
        ga, p = self.paddr(lhs)
        m = self.objof(lhs)
        if m in self.param_objs:
            raise Untranslatable("store into the object of a parameter")
        body = "let %s := stu %s %s %d %s in\n%s" % (m, m, p, size, val, nxt())
        return self.eguarded(g + ga + ["(st_ok %s %s %d)" % (m, p, size)], body)

    # -- calls -------------------------------------------------------------------
    def emit_call(self, c, var, nxt):
        name = self.callee(c)
        info = self.eff_known.get(name)
        if info is None or "params" not in info:
            return c2v.TrEff3.emit_call(self, c, var, nxt)
        args = inner(c)[1:]
        sv = gname(self.sock)
        if len(args) != len(info["params"]) + 1:
            raise Untranslatable("call to %s: argument count" % name)
        a0 = strip_casts(args[0], CASTS)
        if not (a0.get("kind") == "DeclRefExpr" and a0["referencedDecl"]["name"] == self.sock):
            raise Untranslatable("call to %s: the first argument is not the socket" % name)
        g, ts = [], []
        for a, kd in zip(args[1:], info["params"]):
            if kd == "buf":
                if is_null_ptr(a):
                    ts += ["(@nil Z)", "(@None Z)"]
                    continue
                ba = self.buffer_arg(a)
                if ba is None:
                    raise Untranslatable("call to %s: a pointer argument points into no known object" % name)
                ts += [ba[0], ba[1]]
            else:
                ga, ta = self.expr(a)
                g += ga
                ts.append(ta)
        return self.eguarded(g, "ebind (%s_gen %s) (fun %s %s =>\n%s)" % (name, " ".join(ts + [sv]), var or "_", sv, nxt()))

    # -- statements ----------------------------------------------------------------
    def stmts(self, lst, k):
        if not lst:
            return k()
        s, rest = lst[0], lst[1:]
        kind = s.get("kind")
        nxt = lambda: self.stmts(rest, k)  # noqa: E731
        if kind == "DeclStmt":
            ds = inner(s)
            if len(ds) == 1 and ds[0].get("kind") == "VarDecl" and not inner(ds[0]):
                d = ds[0]
                q = d["type"].get("desugaredQualType", d["type"]["qualType"])
                v = self.vla(d)
                if v is not None:
                    esz, cnt = v
                    obj = "m_" + d["name"]
                    n = cnt if esz == 1 else "(%s * %d)" % (cnt, esz)
                    self.locals.add(d["name"])
                    self.arrays[d["name"]] = [obj, True]
                    self.obj_of[d["name"]] = obj
                    self.decl_order.append(d["name"])
                    return "eguard (0 <? %s) (let %s : list Z := zeros %s in\n%s)" % (cnt, obj, n, nxt())
                if is_ptr_type(q):
                    self.locals.add(d["name"])
                    self.ptr_locals.add(d["name"])
                    self.decl_order.append(d["name"])
                    return "let %s := (@None Z) in\n%s" % (gname(d["name"]), nxt())
        if kind == "BinaryOperator" and s.get("opcode") == "=" and is_ptr_type(self.qt(s)):
            lhs, rhs = inner(s)
            ll = strip_casts(lhs, ("ParenExpr",))
            if ll.get("kind") != "DeclRefExpr" or ll["referencedDecl"]["name"] not in self.ptr_locals \
                    or ll["referencedDecl"]["name"] in self.param_ptrs:
                raise Untranslatable("assignment to a pointer that is not a local")
            if self.calls_in(rhs):
                raise Untranslatable("call in a pointer assignment")
            nm = ll["referencedDecl"]["name"]
            if is_null_ptr(rhs):
                return "let %s := (@None Z) in\n%s" % (gname(nm), nxt())
            g, t = self.pexpr(rhs)
            o = self.objof(rhs)
            if self.obj_of.get(nm) not in (None, o):
                raise Untranslatable("pointer %s moves from one object to another" % nm)
            self.obj_of[nm] = o
            return self.eguarded(g, "let %s := %s in\n%s" % (gname(nm), t, nxt()))
        if kind in ("BinaryOperator", "CompoundAssignOperator") and s.get("opcode", "").endswith("=") \
                and s["opcode"] not in ("==", "!=", "<=", ">=") and self.is_store_target(strip_casts(inner(s)[0], ("ParenExpr",))):
            return self.store_stmt(s, nxt)
        return c2v.TrEff3.stmts(self, lst, k)

    # -- whole function ------------------------------------------------------------
    def function(self, mutates=False):
        fn = self.fn
        params = [c for c in inner(fn) if c.get("kind") == "ParmVarDecl"]
        if not params or not re.fullmatch(SOCK_RE, params[0]["type"]["qualType"].replace("const ", "").strip()):
            raise Untranslatable("the first parameter is not the socket")
        self.sock = params[0]["name"]
        self.locals.add(self.sock)
        self.ptr_params = [self.sock]
        self.result_kind = "eff"
        self.param_ptrs = set()
        sig, kinds = [], []
        for p in params[1:]:
            q = p["type"].get("desugaredQualType", p["type"]["qualType"])
            self.locals.add(p["name"])
            if int_type(q) or int_type(p["type"]["qualType"]):
                sig.append("(%s : Z)" % gname(p["name"]))
                kinds.append("Z")
            elif is_ptr_type(q) and "struct rtr_socket" not in q:
                obj = "m_" + p["name"]
                self.ptr_locals.add(p["name"])
                self.param_ptrs.add(p["name"])
                self.obj_of[p["name"]] = obj
                self.param_objs.add(obj)
                sig += ["(%s : list Z)" % obj, "(%s : option Z)" % gname(p["name"])]
                kinds.append("buf")
            else:
                raise Untranslatable("parameter type " + q)
        sig.append("(%s : store)" % gname(self.sock))
        body = [c for c in inner(fn) if c.get("kind") == "CompoundStmt"][0]
        top = inner(body)
        for i, c in enumerate(top):
            if c.get("kind") == "LabelStmt":
                self.labels[c.get("declId")] = [inner(c)[-1]] + top[i + 1:]
        rq = fn["type"]["qualType"].split("(")[0].strip()
        if not int_type(rq):
            raise Untranslatable("return type " + rq)
        self.fall = lambda: "EUndef (* falls off the end *)"
        term = self.stmts(top, self.fall)
        text = "Definition %s_gen %s : eff :=\n%s.\n" % (fn["name"], " ".join(sig), term)
        return text, {"ret": "Z", "params": kinds, "buf": False, "fuel": False}


def generate_send():
    """text of Gen/GeneratedSend.v and the list of problems"""
    out, problems = [], []
    w = out.append
    w("(* GENERATED by tools/c2v_send.py (effect mode with memory: the send path of rtrlib/rtr/packets.c) from the")
    w("   repository sources - do not edit.  Shapes: see the header of tools/c2v_send.py. *)")
    w("From RtrV Require Import Base.CSem Base.Mem Base.MemW Base.Eff Base.EffMem Gen.Generated Gen.GeneratedMem Gen.GeneratedMemW.")
    w("Local Open Scope string_scope.\nLocal Open Scope Z_scope.\n")
    try:
        memw_known, enums_all, sizes = c2v.memw_signatures()
        mem_known = dict(c2v._MEM_CTX.get("known", {}))
    except Exception as e:  # noqa: BLE001
        problems.append("context: %s" % e)
        memw_known, enums_all, sizes, mem_known = {}, {}, {}, {}
    if sizes.get(("E", "little_endian")) != 1:
        problems.append("host is not little-endian: loads and stores are not modelled")

    def failed(fname, e):
        problems.append("function %s: %s" % (fname, e))
        w("(* %s could not be translated: %s *)" % (fname, str(e).replace("*)", "* )")))
        w("Definition %s_untranslated := tt.\n" % fname)
    for fname in SEND_MEMW:
        try:
            fn = c2v.find_def(CFILE, fname)
            if fn is None:
                raise Untranslatable("definition not found")
            text, sig = c2v.TrMemW(fn, memw_known, enums_all, sizes, {}).function()
            memw_known[fname] = sig
            w("(* %s : %s (memory mode with stores) *)" % (CFILE, fname))
            w(text)
        except Exception as e:  # noqa: BLE001
            failed(fname, e)
    eff_known = {}
    for fname in SEND_LEAFS:
        try:
            fn = c2v.find_def(CFILE, fname)
            if fn is None:
                raise Untranslatable("definition not found")
            text, info = TrSend(fn, eff_known, mem_known, memw_known, enums_all, sizes).function()
            eff_known[fname] = info
            w("(* %s : %s *)" % (CFILE, fname))
            w(text)
        except Exception as e:  # noqa: BLE001
            failed(fname, "%s: %s" % (type(e).__name__, e))
    w("Definition send_translator_problems : list string := [%s]." % "; ".join(c2v.coq_string(p[:200]) for p in problems))
    return "\n".join(out) + "\n", problems


def main():
    path = sys.argv[1] if len(sys.argv) > 1 else SEND_OUT
    try:
        text, problems = generate_send()
    except Exception as e:  # noqa: BLE001
        print("c2v_send: generator failed:", e)
        return 1
    c2v.write_if_changed(path, text, os.path.basename(path))
    for p in problems:
        print("c2v_send: problem:", p)
    return 0


if __name__ == "__main__":
    sys.exit(main())
