#!/bin/sh
# cq.sh <target.vo> [timeout-seconds]: refresh _CoqProject/Makefile.coq and build one target under a timeout
cd /verif/coq && python3 -c "import sys;sys.path.insert(0,'../tools');import vlib;vlib.coq_project()" && (ulimit -v 16000000; timeout ${2:-300} make -k -j8 -f Makefile.coq "$1") 2>&1 | grep -v "^WARNING conda" | tail -${3:-25}
