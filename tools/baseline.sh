#!/bin/sh
# Build /repo the way the suite expects (no -DRTRLIB_RTRLIB_VERIF) and run the pinned test suite.
# Exit 0 iff every test of BASELINE.json's stable_pass list passes.
set -e
cd /repo
if [ ! -f _build/build.ninja ] && [ ! -f _build/Makefile ]; then cmake -G Ninja -B _build >/dev/null; fi
cmake --build _build >/dev/null 2>&1 || cmake --build _build
ctest --test-dir _build -j8 --timeout 900 2>&1 | tee /tmp/verif-baseline.log | tail -15
# /repo tracks its _build directory: put the two ninja bookkeeping files the build just rewrote back, so that the tree stays clean
git -C /repo checkout -- _build/.ninja_deps _build/.ninja_log 2>/dev/null || true
python3 - <<'PY'
import json,re,sys
base=json.load(open('/root/.vp/BASELINE.json'))
want=sorted(set(t.split('::')[0] for t in base['stable_pass']))
log=open('/tmp/verif-baseline.log').read()
passed=set(re.findall(r'Test\s+#\d+:\s+(\S+)\s+\.+\s+Passed',log))
missing=[t for t in want if t not in passed]
print('baseline: %d/%d stable test programs passed'%(len(want)-len(missing),len(want)))
sys.exit(1 if missing else 0)
PY
