"""C12 - Generated BGPsec signatures verify under an independent RFC 8205 implementation.

Decided by: Coq theorems (Props/Properties_C12.v): C12_layout, C12_size, C12_codes, C12_generate,
C12_roundtrip over the model Bgpsec/Align.v + Sign.v (+ Validate.v for the round trip).

Independent implementation: the extracted [signing_digest] / [digest_for_hop] of DigestSpec.v
(written from RFC 8205 4.2/5.2) produce the octets; OpenSSL's EVP interface (and, for a sample,
the `openssl dgst -sha256 -verify` / `openssl asn1parse` command line) decides whether the
library's signature verifies over them under the public key.  Never the library's own validator.

Tie (Model vs Impl): bytes handed to hash_byte_sequence by rtr_bgpsec_generate_signature vs the
model's SIGNING stream, req_stream_size, return codes of every error path in priority order.
"""
import json
import os
import tempfile
import time

import vlib
from props import C11 as base

THEOREMS = ["C12_layout", "C12_size", "C12_codes", "C12_generate", "C12_roundtrip", "C12_roundtrip_after_fix"]
CORPUS = os.path.join(vlib.VERIF, "corpus", "C12")
CODES = base.CODES


class Finding(base.Finding):
    pass


def impl_sign(env, c, keyid=None, raw=None):
    op = ("sign %d" % keyid) if raw is None else ("sign_raw %s" % (raw or "-"))
    out = env.h.ask(base.data_lines(c) + [op])
    bad = [o for o in out[:-1] if o.startswith("error")]
    if bad:
        raise vlib.BuildError("harness rejected a generated case: %s" % bad[0])
    p = out[-1].split()
    hashed = [] if p[3] == "-" else [("" if x == "-" else x) for x in p[3].split(",")]
    return int(p[1]), (None if p[2] == "-" else p[2]), hashed


def model_sign(env, c, privok, ecsize, sig):
    out = env.m.ask(base.data_lines(c) + ["signdigest", "gensig %s %d %s" % (privok, ecsize, sig or "-")])
    sd = out[-2].split()[1]
    g = out[-1].split()
    if g[1] == "UB":
        return sd, None, None, None
    return sd, int(g[1]), (None if g[2] == "-" else g[2]), (None if g[3] == "-" else g[3])


def gen_signing_case(rnd, env, nhops=None):
    """An update with N-1 spec-signed hops to which the signer (hop 0) has prepended its segment."""
    n = nhops or (rnd.choice(base.LONG_PATHS) if rnd.random() < 0.03 else rnd.choice([1, 1, 2, 2, 3, 3, 4, 5, 6, 7, 8]))
    c = base.gen_case(rnd, env, nhops=n)
    # hop 0 is the library's: drop its (independently made) signature
    c["sigs"] = c["sigs"][1:]
    c["signer"] = c["hopkeys"][0]
    return c


def script_for(env, c, op):
    used = sorted(set(c.get("hopkeys", [])) | ({c["signer"]} if "signer" in c else set()))
    ls = ["keyload %d %s" % (i, env.keys[i]["priv"]) for i in used]
    return ls + base.table_lines(c) + base.data_lines(c) + [op]


def openssl_cli_check(spki_hex, msg_hex, sig_hex):
    """Third opinion from the openssl command line: dgst -verify and asn1parse."""
    d = tempfile.mkdtemp(prefix="c12-", dir=vlib.BUILD)
    try:
        for name, hx in (("pub.der", spki_hex), ("msg.bin", msg_hex), ("sig.der", sig_hex)):
            with open(os.path.join(d, name), "wb") as f:
                f.write(bytes.fromhex(hx))
        rc1, o1 = vlib.sh(["openssl", "dgst", "-sha256", "-keyform", "DER", "-verify", "pub.der", "-signature", "sig.der",
                           "msg.bin"], cwd=d, timeout=60)
        rc2, o2 = vlib.sh(["openssl", "asn1parse", "-inform", "DER", "-in", "sig.der"], cwd=d, timeout=60)
        ints = o2.count("INTEGER")
        return (rc1 == 0 and "Verified OK" in o1), (rc2 == 0 and "SEQUENCE" in o2 and ints == 2), (o1 + o2)[-400:]
    finally:
        for f in os.listdir(d):
            os.unlink(os.path.join(d, f))
        os.rmdir(d)


def examine_sign(env, c, stats, cli=False):
    key = env.keys[c["signer"]]
    rc, sig, hashed = impl_sign(env, c, keyid=c["signer"])
    stats["evaluations"] += 1
    sd, mrc, msig, mh = model_sign(env, c, "1", 72, sig or "30060201010201" + "01")
    if rc != CODES["SUCCESS"] or sig is None:
        raise Finding("impl-vs-spec", "sign-failed", {"impl_rc": rc, "expected": 0, "check": {"type": "rc_in", "values": [0]}}, c)
    # Spec vs Impl: what was hashed is the RFC signing digest ...
    if sd == "None" or hashed != [sd]:
        raise Finding("impl-vs-spec", "signing-layout", {"impl_hashed": hashed, "rfc_signing_digest": sd,
                                                         "check": {"type": "hashed_eq", "hop": 0, "bytes": sd}}, c)
    # ... and the signature verifies over the *spec* octets under the public key, independently
    evp, low = env.iverify(key["spki"], sd, sig)
    if evp != 1:
        raise Finding("impl-vs-spec", "signature-rejected", {"signature": sig, "rfc_signing_digest": sd, "evp_verdict": evp}, c)
    der = env.h.ask1("derchk %s" % sig).split()
    if der[:2] != ["der", "ok"]:
        raise Finding("impl-vs-spec", "signature-not-der", {"signature": sig, "derchk": " ".join(der)}, c)
    # Model vs Impl
    if mrc != rc or (mh is not None and [mh] != hashed):
        raise Finding("model-vs-impl", "tie:sign", {"impl_rc": rc, "model_rc": mrc, "impl_hashed": hashed, "model_hashed": mh,
                                                    "check": {"type": "hashed_eq", "hop": 0, "bytes": mh}}, c)
    isz, ib = base.impl_align(env, c, "S")
    mreq, mtot, mb = base.model_align(env, c, "S")
    if isz != mreq or ib != mb:
        raise Finding("model-vs-impl", "tie:align", {"impl_size": isz, "model_req": mreq, "impl_bytes": ib, "model_bytes": mb,
                                                     "op": "align S", "check": {"type": "align_eq", "size": mreq, "bytes": mb}}, c)
    stats["sig_len"][der[2]] = stats["sig_len"].get(der[2], 0) + 1
    if cli:
        v, a, log = openssl_cli_check(key["spki"], sd, sig)
        stats["cli_checks"] += 1
        if not (v and a):
            raise Finding("impl-vs-spec", "openssl-cli-rejects", {"verify": v, "asn1": a, "log": log, "signature": sig}, c)
    return sig, sd


def error_cases(rnd, env, c):
    """(description, case, operation, admissible codes by the property text)"""
    out = []
    n = len(c["secs"])
    key = env.keys[c["signer"]]

    def mk(desc, f, op=None, codes=None):
        d = json.loads(json.dumps(c))
        d["table"] = [tuple(e) for e in d.get("table", [])]
        if f:
            f(d)
        out.append((desc, d, op, codes))

    bad = bytearray(bytes.fromhex(key["priv"]))
    bad[rnd.randrange(7, 39)] ^= 1 << rnd.randrange(8)          # the private scalar no longer matches the public point
    mk("private key with one flipped bit", None, ("raw", bytes(bad).hex()), {CODES["LOAD_PRIV_KEY_ERROR"]})
    mk("random bytes as private key", None, ("raw", bytes(rnd.randrange(256) for _ in range(121)).hex()), {CODES["LOAD_PRIV_KEY_ERROR"]})
    mk("truncated private key", None, ("raw", key["priv"][:2 * rnd.randrange(1, 100)]), {CODES["LOAD_PRIV_KEY_ERROR"]})
    mk("unsupported suite", lambda d: d.__setitem__("alg", rnd.choice([0, 2, 9, 255])), None, {CODES["UNSUPPORTED_ALGORITHM_SUITE"]})
    mk("unsupported AFI", lambda d: (d.__setitem__("nafi", rnd.choice([0, 3, 77, 65535])), d.__setitem__("afi", d["nafi"])), None, {CODES["UNSUPPORTED_AFI"]})
    mk("as many signatures as segments", lambda d: d.__setitem__("counts", [n, n]), None, {CODES["WRONG_SEGMENT_COUNT"]})
    mk("count fields off by two", lambda d: d.__setitem__("counts", [n, (n + 1) % 65536]), None, {CODES["WRONG_SEGMENT_COUNT"]})
    mk("signature count off by a multiple of 256", lambda d: d.__setitem__("counts", [n, n - 1 + rnd.choice([256, 512, 65280])]), None,
       {CODES["WRONG_SEGMENT_COUNT"]})
    mk("no secure-path segment", lambda d: (d.__setitem__("secs", []), d.__setitem__("sigs", [])), None, {CODES["INVALID_ARGUMENTS"], CODES["WRONG_SEGMENT_COUNT"]})
    mk("suite + AFI + counts + bad key", lambda d: (d.__setitem__("alg", 3), d.__setitem__("nafi", 5), d.__setitem__("afi", 5), d.__setitem__("counts", [n, n])),
       ("raw", "00" * 121), {CODES["UNSUPPORTED_ALGORITHM_SUITE"], CODES["UNSUPPORTED_AFI"], CODES["WRONG_SEGMENT_COUNT"], CODES["LOAD_PRIV_KEY_ERROR"]})
    mk("AFI + counts", lambda d: (d.__setitem__("nafi", 0), d.__setitem__("afi", 0), d.__setitem__("counts", [n + 1, n + 1])), None,
       {CODES["UNSUPPORTED_AFI"], CODES["WRONG_SEGMENT_COUNT"]})
    mk("counts + bad key", lambda d: d.__setitem__("counts", [n, n + 3]), ("raw", "30" * 121), {CODES["WRONG_SEGMENT_COUNT"], CODES["LOAD_PRIV_KEY_ERROR"]})
    return out


def examine_error(env, desc, d, op, codes, stats):
    if op:
        rc, sig, hashed = impl_sign(env, d, raw=op[1])
        privok = "0"
    else:
        rc, sig, hashed = impl_sign(env, d, keyid=d["signer"])
        privok = "1"
    stats["evaluations"] += 1
    stats["codes"][str(rc)] = stats["codes"].get(str(rc), 0) + 1
    sd, mrc, msig, mh = model_sign(env, d, privok, 72, "3006020101020101")
    opline = ("sign_raw %s" % op[1]) if op else ("sign %d" % d["signer"])
    if rc == CODES["SUCCESS"] or sig is not None:
        raise Finding("impl-vs-spec", "error-not-reported", {"what": desc, "impl_rc": rc, "expected_one_of": sorted(codes),
                                                             "op": opline, "check": {"type": "rc_in", "values": sorted(codes)}}, d)
    if rc not in codes:
        raise Finding("impl-vs-spec", "wrong-code", {"what": desc, "impl_rc": rc, "expected_one_of": sorted(codes),
                                                     "op": opline, "check": {"type": "rc_in", "values": sorted(codes)}}, d)
    if mrc != rc:
        raise Finding("model-vs-impl", "tie:sign-code", {"what": desc, "impl_rc": rc, "model_rc": mrc, "op": opline,
                                                         "check": {"type": "rc_in", "values": [mrc]}}, d)
    if op and codes == {CODES["LOAD_PRIV_KEY_ERROR"]}:
        # the answer depends on the key handed in, not on what was asked before: the same unloadable key again (a good
        # key has been used earlier in this process), then the good key again
        rc2, sig2, _h = impl_sign(env, d, raw=op[1])
        stats["evaluations"] += 1
        stats["repeated_bad_key"] = stats.get("repeated_bad_key", 0) + 1
        if rc2 != rc or sig2 is not None:
            raise Finding("impl-vs-spec", "error-not-reported", {
                "what": desc + ", handed in a second time after a successful signature with another key", "impl_rc": rc2,
                "first_attempt_rc": rc, "expected_one_of": sorted(codes),
                "op": "sign %d\n%s\n%s" % (d["signer"], opline, opline), "check": {"type": "rc_in", "values": sorted(codes)}}, d)


def roundtrip(rnd, env, stats):
    """Originate and forward hop by hop with *library* signatures; then (a) the library validates the
    result as VALID, (b) every hop's signature verifies independently over the spec digest."""
    n = rnd.choice([1, 2, 3, 3, 4, 5, 6, 8])
    afi = rnd.choice([1, 2])
    nlen, nl_exact, nl_buf = base.gen_nlri(rnd, afi)
    hopkeys = [rnd.randrange(len(env.keys)) for _ in range(n)]
    asns = [base.gen_asn(rnd) for _ in range(n)]
    final_target = base.gen_asn(rnd)
    c = {"alg": 1, "safi": rnd.choice([1, 2, 128]), "afi": afi, "my_as": 0, "target": 0, "nafi": afi, "nsafi": 1,
         "nlen": nlen, "nlri": nl_buf, "secs": [], "sigs": [], "counts": None, "hopkeys": [], "table": []}
    # origin is the last element of the wire-order lists: build from the origin upwards
    for i in range(n - 1, -1, -1):
        c["secs"].insert(0, [rnd.choice([1, 1, 0, 2, 255]), rnd.choice([0, 0x80]), asns[i]])
        c["hopkeys"].insert(0, hopkeys[i])
        c["target"] = asns[i - 1] if i > 0 else final_target
        c["my_as"] = asns[i]
        c["signer"] = hopkeys[i]
        rc, sig, hashed = impl_sign(env, c, keyid=hopkeys[i])
        stats["evaluations"] += 1
        if rc != CODES["SUCCESS"] or not sig:
            raise Finding("impl-vs-spec", "sign-failed", {"impl_rc": rc, "hop_from_origin": n - 1 - i}, c)
        c["sigs"].insert(0, [env.keys[hopkeys[i]]["ski"], sig])
    c["table"] = base.gen_table(rnd, env, c)
    digs = base.spec_digests(env, c)
    for k in range(n):
        evp, low = env.iverify(env.keys[c["hopkeys"][k]]["spki"], digs[k], c["sigs"][k][1])
        if evp != 1:
            raise Finding("impl-vs-spec", "roundtrip-signature-rejected", {"hop": k, "rfc_digest": digs[k], "signature": c["sigs"][k][1]}, c)
    rc, hashed = base.impl_validate(env, c)
    mrc, unknown, mh = base.model_validate(env, c, digs)
    stats["roundtrips"] += 1
    stats["roundtrip_hops"][str(n)] = stats["roundtrip_hops"].get(str(n), 0) + 1
    if rc != CODES["VALID"]:
        raise Finding("impl-vs-spec", "roundtrip-not-valid", {"impl_rc": rc, "expected": 1, "check": {"type": "rc_in", "values": [1]}}, c)
    if mrc != rc:
        raise Finding("model-vs-impl", "tie:return-code", {"impl_rc": rc, "model_rc": mrc, "check": {"type": "rc_in", "values": [mrc]}}, c)
    return c


def shrink_sign(env, c, fails, budget=24):
    best, steps = c, 0

    def attempt(mod):
        nonlocal best, steps
        if steps >= budget:
            return False
        steps += 1
        d = json.loads(json.dumps(best))
        try:
            if mod(d) is False:
                return False
            if fails(d):
                best = d
                return True
        except (base.Finding, vlib.BuildError, base.Crash):
            pass
        return False

    def drop_oldest(d):
        if len(d["secs"]) <= 1 or not d["sigs"]:
            return False
        d["secs"].pop(); d["sigs"].pop(); d["hopkeys"].pop()
    while attempt(drop_oldest):
        pass
    attempt(lambda d: (d.__setitem__("nlen", 24), d.__setitem__("nlri", "c00002" + "00" * 29), d.__setitem__("afi", 1), d.__setitem__("nafi", 1)))
    attempt(lambda d: [s.__setitem__(0, 1) or s.__setitem__(1, 0) for s in d["secs"]] and None)
    attempt(lambda d: d.__setitem__("safi", 1))
    return best, steps


def report(chk, env, f, op, steps=None):
    c = f.case
    obj = {"kind": f.kind, "finding": f.key, "detail": f.detail, "case": c, "check": f.detail.get("check"),
           "harness_script": script_for(env, c, f.detail.get("op", op)),
           "replay_cmd": "python3 tools/check.py C12 --replay <this file>", "shrink_steps": steps}
    return chk.violation(obj, key=None)


def run(chk):
    t0 = time.time()
    rnd = vlib.rng(12)
    pr = vlib.check_proofs("C12", THEOREMS)
    chk.proof = pr
    quick = chk.tier == "quick"
    ncases = 150 if quick else 1500
    ntrips = 60 if quick else 600
    stats = {"evaluations": 0, "codes": {}, "sig_len": {}, "hops": {}, "afi": {}, "nlri_len_class": {}, "cli_checks": 0,
             "error_cases": 0, "roundtrips": 0, "roundtrip_hops": {}, "shrink_steps": 0, "corpus": 0}
    samples = []
    env = base.Env(nkeys=6)
    findings = 0
    try:
        ok, a, b = base.check_codes(env)
        if not ok:
            raise Finding("model-vs-impl", "tie:codes", {"impl": a, "model": b}, {"secs": [], "sigs": [], "table": [], "alg": 1, "safi": 1, "afi": 1, "my_as": 0, "target": 0, "nafi": 1, "nsafi": 1, "nlen": 0, "nlri": ""})
        variant = base.detect_variant(env)
        stats["model_variant"] = variant
        chk.notes.append("validator model matched by /repo on this run: %s (C12_roundtrip%s applies)" % (
            variant, "" if variant == "ski-only" else "_after_fix"))
        if os.path.isdir(CORPUS):
            for fn in sorted(os.listdir(CORPUS)):
                if not fn.endswith(".json"):
                    continue
                o = json.load(open(os.path.join(CORPUS, fn)))
                env2 = base.Env(preset_keys=o["keys"])
                env2.variant = variant
                stats["corpus"] += 1
                try:
                    c = o["case"]
                    c["table"] = [tuple(e) for e in c.get("table", [])]
                    try:
                        examine_sign(env2, c, stats, cli=True)
                    except base.Finding as f:
                        f.detail["corpus_file"] = fn
                        report(chk, env2, f, "sign %d" % c["signer"])
                        findings += 1
                finally:
                    env2.close()
        for i in range(ncases):
            if time.time() - t0 > (120 if quick else 1200) and i >= 10:
                chk.notes.append("time budget reached after %d signing cases" % i)
                break
            c = gen_signing_case(rnd, env, nhops={3: 43, 8: 44, 13: 86}.get(i))
            n = len(c["secs"])
            stats["hops"][str(n)] = stats["hops"].get(str(n), 0) + 1
            stats["afi"][str(c["afi"])] = stats["afi"].get(str(c["afi"]), 0) + 1
            w = 32 if c["afi"] == 1 else 128
            cls = "0" if c["nlen"] == 0 else ("max" if c["nlen"] == w else ("aligned" if c["nlen"] % 8 == 0 else "unaligned"))
            stats["nlri_len_class"][cls] = stats["nlri_len_class"].get(cls, 0) + 1
            if len(samples) < 4:
                samples.append({"hops": n, "afi": c["afi"], "nlri_len": c["nlen"], "secs": c["secs"], "target": c["target"],
                                "existing_sig_lens": [len(g[1]) // 2 for g in c["sigs"]]})
            try:
                # the signer's nonce decides the DER length of the signature (69 bytes or fewer when r or s has leading zero bytes,
                # about 1 draw in 250): every fourth case forces a short one, every eighth the longest form
                cls = {1: (8, 69), 5: (8, 69), 3: (72, 72)}.get(i % 8, (0, 0))
                env.h.ask(["sigclass %d %d" % cls])
                stats.setdefault("forced_signature_length", {}).setdefault("%d-%d" % cls, 0)
                stats["forced_signature_length"]["%d-%d" % cls] += 1
                try:
                    examine_sign(env, c, stats, cli=(i % (6 if quick else 20) == 0))
                finally:
                    env.h.ask(["sigclass 0 0"])
                for desc, d, op, codes in error_cases(rnd, env, c):
                    stats["error_cases"] += 1
                    examine_error(env, desc, d, op, codes, stats)
                if i % 4 == 0:
                    examine_sign(env, c, stats)      # the good key again after the unloadable ones
            except base.Finding as f:
                if cls != (0, 0) and "op" not in f.detail:
                    f.detail["op"] = "sigclass %d %d\nsign %d" % (cls + (f.case.get("signer", 0),))
                    f.detail["forced_signature_length"] = list(cls)
                    report(chk, env, f, "sign %d" % f.case.get("signer", 0))
                elif f.kind == "impl-vs-spec" and f.key in ("signing-layout", "signature-rejected", "sign-failed"):
                    def fails(d, key=f.key):
                        try:
                            examine_sign(env, d, {"evaluations": 0, "codes": {}, "sig_len": {}, "cli_checks": 0})
                        except base.Finding as g:
                            return g.key == key
                        return False
                    best, steps = shrink_sign(env, f.case, fails)
                    stats["shrink_steps"] += steps
                    try:
                        examine_sign(env, best, {"evaluations": 0, "codes": {}, "sig_len": {}, "cli_checks": 0})
                    except base.Finding as g:
                        f = g
                    report(chk, env, f, "sign %d" % f.case["signer"], steps)
                else:
                    report(chk, env, f, "sign %d" % f.case.get("signer", 0))
                findings += 1
                if findings >= 3:
                    break
            except base.Crash as e:
                chk.violation({"kind": "harness-crash", "sent": e.sent, "log": e.log, "case": c,
                               "harness_script": script_for(env, c, "sign %d" % c["signer"])}, key=None)
                findings += 1
                env.restart_harness()
        for i in range(ntrips):
            if findings >= 3:
                break
            try:
                roundtrip(rnd, env, stats)
            except base.Finding as f:
                report(chk, env, f, "validate")
                findings += 1
            except base.Crash as e:
                chk.violation({"kind": "harness-crash", "sent": e.sent, "log": e.log}, key=None)
                findings += 1
                env.restart_harness()
    except base.Finding as f:
        report(chk, env, f, "codes")
    finally:
        stats["independent_verifications"] = env.n_iverify
        stats["independent_signatures"] = env.n_isign
        env.close()
    chk.cov.update({
        "evaluations": stats["evaluations"],
        "distinct_nontrivial": sum(stats["hops"].values()) + stats["roundtrips"] + stats["error_cases"],
        "rule": "one evaluation = one call of rtr_bgpsec_generate_signature on the real library with a fresh P-256 key; "
                "non-trivial = signing cases (signature verified independently over the extracted RFC digest, hashed bytes "
                "compared), error cases (codes + priority) and hop-by-hop round trips",
        "samples": samples, "distribution": stats,
        "tie": "(b) correspondence: extracted Align/Sign model vs real library (req_stream_size, SIGNING stream bytes, bytes "
               "handed to hash_byte_sequence, return codes on every error path)",
        "oracle": "extracted DigestSpec.signing_digest/digest_for_hop + EVP_DigestVerify + d2i_ECDSA_SIG; sample re-checked with "
                  "`openssl dgst -sha256 -verify` and `openssl asn1parse`",
    })
    chk.assumptions += [
        "C12_roundtrip assumes sign/verify are a matching pair (pair_verifies), keys load (pair_loads) and DER signatures "
        "have 8..ECDSA_size octets (sign_length); prefix length <= 128; fewer than 256 hops; total digest < 65536 octets",
        "the round-trip table may hold a hop's key under any AS (see C11 finding ski-only-lookup); the tests register it under the hop's AS",
        "sig_len equals the signature buffer's length; nlri buffer holds ceil(nlri_len/8) octets; data and data->nlri non-NULL",
        "allocation failures are not modelled; little-endian host",
    ]
    chk.trusted += ["OpenSSL 3 library and command line (ECDSA, SHA-256, DER)", "hand-written models Bgpsec/Align.v, Sign.v"]
    if not pr.ok and not chk.violations:
        chk.proof_broken(pr, "%d evaluations (signing cases, error cases, round trips): nothing found" % stats["evaluations"])


def replay(path):
    return base.replay(path, "C12")
