"""C07 - data that can no longer be refreshed expires; stopping a socket removes its data.

Decided by: Coq theorems of Props/Properties_C07.v over Rtr/RtrModel.v (invariant of every reachable world, the
bookkeeping last_update tracks the history, expiry check at every connect, stop, others untouched, failed reloads
keep the timestamp).  Tie: the real state-machine thread of /repo (harness/rtr_run.c) and the extracted model print
the same trace on every script.  Failing-input search: an oracle that reads only the Impl trace and the script:
ghost last_success = virtual time of the last SYNC -> ESTABLISHED transition since the last stop; at every OPEN line,
if t - last_success > expire the socket's replayed record set must be empty and the next query a Reset Query."""
import json
import os
import time

import rtrsim as R
import vlib
from props import C07_lib as L

THEOREMS = ["C07_initial", "C07_invariant", "C07_last_update_step", "C07_last_update_tracks", "C07_ghost_is_a_ghost",
            "C07_expire", "C07_expiry_boundary", "C07_expire_history", "C07_restart_reset_query", "C07_stop", "C07_others",
            "C07_failed_sync_keeps_timestamp", "C07_interrupted_reload_example", "C07_purge_translated", "C07_fsm_step_translated", "C07_stop_translated", "C07_run_translated"]

HOWS = ["err", "close", "timeout", "intr", "mal:len_small", "mal:len_big", "mal:len_type", "mal:type", "mal:version", "mal:flags",
        "mal:plen", "unexpected", "stop"]


# ---------------------------------------------------------------------------
# generator: sync, [Cache Reset + reload cut at PDU k], unreachable around the expiry deadline, reconnect
# ---------------------------------------------------------------------------
def plan(rnd, tier):
    expire = rnd.choice([600, 600, 7200, 172800])
    retry = rnd.choice([1, 1, 600, 7200])
    refresh = rnd.choice([1, 3600, 86400])
    mode = rnd.randint(0, 3)
    delta = rnd.choice([-1, -1, 0, 0, 1, 1, 1, rnd.randint(2, 50), rnd.choice([10 ** 5, 10 ** 6])])
    scen = rnd.choice(["plain", "reload", "reload", "reload", "twice", "stop-mid", "stop-unreachable", "delta-fault", "huge-expire"])
    how = rnd.choice(HOWS[:-1])
    return {"cfg": (refresh, expire, retry, mode), "delta": delta, "scen": scen, "how": how,
            "ver": rnd.choice([1, 1, 0]), "chunk": rnd.choice([None, None, 7, "rand"]), "k": rnd.randint(0, 8),
            "partial": rnd.random() < 0.3, "npre": rnd.randint(0, 3), "via": rnd.choice(["notify", "notify", "refresh"])}


def align(rnd, refresh, retry, target, cost, via):
    """When must the failing exchange start (x seconds after the success, plus d seconds of silence inside the failing
    receive) so that the j-th connection attempt afterwards happens exactly `target` seconds after the success?"""
    jmax = 700 if retry == 1 else 60
    if via == "refresh":
        x = refresh
    else:
        j = max(1, min(jmax, (target - cost) // retry))
        x = min(max(0, target - cost - j * retry), refresh - 1)
    rem = target - cost - x
    j, d = rem // retry, rem % retry
    aligned = j >= 1 and j <= jmax and d < 60 and not (cost and d)
    if not aligned:
        d = 0
        j = max(1, min(jmax, j + 1))
    return x, d, j, aligned


def build_huge(rnd, p):
    """accept-any mode and an End of Data whose expire interval is near 2^32: last_update + expire does not fit 32 bits; the data
    must survive every reconnect of the run (nothing here lasts that long)"""
    refresh, expire, retry, _mode = p["cfg"]
    big = rnd.choice([2 ** 32 - 1, 2 ** 32 - 1000, 2 ** 31, 2 ** 32 - 1])
    p["cfg"] = (refresh, expire, retry, 1)
    p["ver"] = 1
    p["expire_eff"] = big
    c = L.Conv(rnd, p["cfg"], ver=1, ivals=(refresh, retry, big), npre=p["npre"], chunk=p["chunk"], nopens=800)
    c.cache.mutate(n=rnd.randint(2, 5))
    if not c.cache.data:
        c.cache.mutate(n=3)
    ok = c.answer()
    if ok:
        ok = c.refresh(extra=1) if p["via"] == "refresh" else c.notify_after(rnd.choice([0, 1, refresh - 1]))
    if ok:
        ok = c.cut(rnd.randint(0, 2), rnd.choice(["err", "close", "timeout"]))
    if ok:
        c.fail_opens(rnd.choice([0, 1, 3]))
    return c


def build(rnd, p):
    if p["scen"] == "huge-expire":
        return build_huge(rnd, p)
    refresh, expire, retry, mode = p["cfg"]
    c = L.Conv(rnd, p["cfg"], ver=p["ver"], npre=p["npre"], chunk=p["chunk"], nopens=800)
    c.cache.mutate(n=rnd.randint(2, 5))
    if not c.cache.data:
        c.cache.mutate(n=3)
    ok = c.answer()                         # first synchronisation: last_success = 1000
    cost = 60 if p["how"] == "timeout" else 0
    x, d, j, aligned = align(rnd, refresh, retry, expire + p["delta"], cost, p["via"])
    p["aligned"] = aligned
    if ok and p["via"] == "refresh":
        ok = c.refresh(extra=1)
    elif ok:
        ok = c.notify_after(x)
    if ok and d:
        c.wait(d)                           # silence inside the receive of rtr_sync (< 60 s: no timeout)
    if ok and p["scen"] in ("reload", "twice", "stop-mid"):
        if rnd.random() < 0.5:
            c.cache.mutate()
        ok = c.cache_reset()                # Serial Query answered by Cache Reset -> Reset Query
        if ok:
            ok = c.cut(p["k"], "stop" if p["scen"] == "stop-mid" else p["how"], partial=p["partial"])
    elif ok and p["scen"] == "delta-fault":
        c.cache.mutate()
        ok = c.cut(p["k"], p["how"], partial=p["partial"])
    elif ok:
        ok = c.cut(0, p["how"] if p["how"] in ("err", "close", "timeout", "intr") else "err")
    if ok:
        c.fail_opens(j - 1 + rnd.choice([0, 0, 1, 2]))
        if p["scen"] == "twice":
            # reconnect after the failed opens, a second reload interrupted at another PDU, unreachable again
            state, q, end = c.position()
            if state == 3 and q is not None and end and "recv" in end:
                c.cut(rnd.randint(0, 8), rnd.choice(HOWS[:-1]), partial=rnd.random() < 0.3)
                c.fail_opens(rnd.randint(1, 3))
        elif p["scen"] == "stop-unreachable":
            # the application stops the socket at the first receive after the unreachable phase
            state, q, end = c.position()
            if end and "recv" in end:
                c.stop()
    return c


def gen(rnd, tier):
    p = plan(rnd, tier)
    c = build(rnd, p)
    # finally: a reachable, correct cache
    for _ in range(4):
        state, q, end = c.position()
        if end is None or "recv" not in end:
            break
        if state == 3 and q is not None:
            c.answer()
        elif state == 1:
            if rnd.random() < 0.3:
                c.stop()
            else:
                break
        else:
            c.wait(61)
    meta = c.meta()
    meta["plan"] = {k: (list(v) if isinstance(v, tuple) else v) for k, v in p.items()}
    meta["built_ok"] = c.ok
    return c.s, meta


# ---------------------------------------------------------------------------
# oracle: reads the Impl trace (and what the script delivered, for the clock)
# ---------------------------------------------------------------------------
def oracle(tr, script, meta, stats=None):
    lines = tr.lines
    try:
        ann = L.annotate(lines, script)
    except L.ClockError as e:
        return {"key": "clock", "what": "the trace does not fit the script's events: %s" % e}
    expire = script.cfg[1]
    eff = (meta.get("plan") or {}).get("expire_eff")
    if eff:
        expire = eff          # accept-any mode: the first End of Data (the only source of data) put this value in force
    for l in lines:
        if l.startswith("DUMP "):
            f = dict(x.split("=", 1) for x in l.split()[2:])
            if int(f["expire"]) not in (expire, script.cfg[1]):
                # a (fabricated) End of Data changed the expire interval: outside what this oracle can date
                if stats is not None:
                    stats["skipped_interval_change"] = stats.get("skipped_interval_change", 0) + 1
                return None
    records = set()           # replay of the callbacks: records of source 1
    foreign0 = None
    last_success = None       # ghost
    prev_state = None
    pending_open = None       # (index, must_reset)
    since_marker = []         # removal callbacks since the last non-callback line
    i = 0
    n = len(lines)
    while i < n:
        l = lines[i]
        w = l.split()
        t = ann[i]["t"]
        if w[0] in ("PFXCB", "KEYCB"):
            rec = w[1][1:]
            if L.own(rec):
                if w[1][0] == "+":
                    if rec in records:
                        return {"key": "callback-replay", "what": "add callback for a record already present", "at": i, "line": l[:160]}
                    records.add(rec)
                else:
                    if rec not in records:
                        return {"key": "callback-replay", "what": "removal callback for an absent record", "at": i, "line": l[:160]}
                    records.discard(rec)
                    since_marker.append(rec)
            else:
                return {"key": "foreign-callback", "what": "a callback reports a record of another source", "at": i, "line": l[:160]}
            i += 1
            continue
        if w[0] == "STATE":
            st = int(w[1])
            if prev_state == 3 and st == 1:
                last_success = t
            prev_state = st
        elif w[0] == "OPEN":
            age = None if last_success is None else t - last_success
            if stats is not None:
                b = "none" if age is None else ("<-1" if age - expire < -1 else ">+1" if age - expire > 1 else str(age - expire))
                stats["open_delta"][b] = stats["open_delta"].get(b, 0) + 1
            if age is None or age > expire:
                if records:
                    return {"key": "no-expiry", "what": "transport opened %s after the last successful synchronisation (expire %d) "
                            "with %d record(s) of this socket still present" % ("with no success since start/stop" if age is None else "%d s" % age,
                                                                                  expire, len(records)),
                            "at": i, "t": t, "last_success": last_success, "records": sorted(records)[:3]}
                if w[1] == "ok":
                    pending_open = (i, True)
            else:
                if since_marker:
                    return {"key": "premature-expiry", "what": "records were removed at a connect only %d s after the last success (expire %d)" % (age, expire),
                            "at": i, "t": t, "last_success": last_success}
                if w[1] == "ok":
                    pending_open = (i, False)
        elif w[0] == "SEND" and pending_open is not None:
            ps, _, _ = R.parse_pdus(bytes.fromhex(w[1]) if len(w) > 1 else b"")
            qs = [p for p in ps if p["type"] in (R.SERIAL_QUERY, R.RESET_QUERY)]
            if qs:
                if pending_open[1] and qs[0]["type"] != R.RESET_QUERY:
                    return {"key": "no-reset-query", "what": "after expiry the conversation did not restart with a Reset Query",
                            "open_at": pending_open[0], "at": i, "sent": w[1][:48]}
                pending_open = None
        elif w[0] == "DUMP":
            tag = w[1]
            recs = []
            j = i + 1
            while j < n and lines[j].startswith("REC "):
                recs.append(lines[j].split()[1])
                j += 1
            mine = set(r for r in recs if L.own(r))
            foreign = sorted(r for r in recs if not L.own(r))
            if foreign0 is None:
                foreign0 = foreign
                if mine:
                    return {"key": "init-not-empty", "what": "records of source 1 before the run", "records": sorted(mine)[:3]}
            elif foreign != foreign0:
                return {"key": "others-touched", "what": "records of other sources differ from the pre-populated ones at DUMP %s" % tag,
                        "at": i, "before": foreign0[:4], "after": foreign[:4]}
            if mine != records:
                return {"key": "dump-vs-callbacks", "what": "DUMP %s: table contents of source 1 differ from the callback replay" % tag, "at": i,
                        "only_in_table": sorted(mine - records)[:3], "only_in_replay": sorted(records - mine)[:3]}
            f = dict(x.split("=", 1) for x in w[2:])
            if tag == "stopped":
                if mine:
                    return {"key": "stop-leaves-records", "what": "records of the stopped socket remain", "at": i, "records": sorted(mine)[:3]}
                if f["reqsess"] != "1" or f["serial"] != "0" or f["last_update"] != "0" or f["state"] != "10":
                    return {"key": "stop-bookkeeping", "what": "after rtr_stop: " + " ".join("%s=%s" % (k, f[k]) for k in ("state", "reqsess", "serial", "last_update")), "at": i}
                last_success = None
                prev_state = None
                if stats is not None:
                    stats["stops"] += 1
        if w[0] not in ("RECV",):
            since_marker = []
        i += 1
    if stats is not None:
        stats["successes"] += sum(1 for k in range(1, len(tr.states)) if tr.states[k - 1] == "3" and tr.states[k] == "1")
    return None


# ---------------------------------------------------------------------------
def check_one(script, meta, stats):
    r = L.run_pair(script)
    tr = R.Trace(r["impl"])
    if r["hung"]:
        return ("hang", {"key": "hang", "what": "the state machine did not finish the script within the wall-clock limit (it terminates only by "
                         "script exhaustion): it loops without consuming input", "tail": r["impl"][-6:]}, r)
    if tr.crash:
        return ("crash", {"key": "crash", "what": "sanitizer/assert abort or garbage in the Impl trace", "detail": tr.crash[-1500:]}, r)
    d = R.first_diff(r["impl"], r["model"])
    o = oracle(tr, script, meta, stats)          # the property oracle never looks at the model
    if o:
        if d:
            o = dict(o, tie_also_broken={"index": d[0], "impl": d[1][:200], "model": d[2][:200]})
        return ("spec", o, r)
    if d:
        return ("tie", {"key": "tie", "what": "Impl and Model traces differ", "index": d[0], "impl": d[1][:300], "model": d[2][:300]}, r)
    return None


def run(chk):
    rnd = vlib.rng(707)
    pr = vlib.check_proofs("C07", THEOREMS)
    chk.proof = pr
    quick = chk.tier == "quick"
    n = 140 if quick else 4000
    budget = 110 if quick else 1500
    t0 = time.time()
    stats = {"open_delta": {}, "stops": 0, "successes": 0}
    dist = {}
    nrun = nontriv = 0
    samples = []
    first_bad = None
    todo = L.corpus_scripts("C07")
    ncorpus = len(todo)
    seen = set()
    for k in range(n + ncorpus):
        if time.time() - t0 > budget:
            chk.notes.append("time budget reached after %d scripts" % nrun)
            break
        if todo:
            s, meta = todo.pop(0)
        else:
            s, meta = gen(rnd, chk.tier)
        res = check_one(s, meta, stats)
        nrun += 1
        key = hash("\n".join(s.lines()))
        if key not in seen:
            seen.add(key)
            if len(meta["exchanges"]) >= 3 or meta["exchanges"][0].startswith("corpus:"):
                nontriv += 1
        for x in meta["exchanges"]:
            x = x.split("@")[0] if x.startswith("cut@") else x.split("+")[0] if x.startswith("notify+") else x.split("*")[0]
            dist[x] = dist.get(x, 0) + 1
        if "plan" in meta:
            pk = "scenario:" + meta["plan"]["scen"]
            dist[pk] = dist.get(pk, 0) + 1
            hk = "fault:" + meta["plan"]["how"]
            dist[hk] = dist.get(hk, 0) + 1
        if len(samples) < 2:
            samples.append({"exchanges": meta["exchanges"], "plan": meta.get("plan"), "script_head": s.lines()[:6]})
        if res:
            first_bad = (s, meta, res)
            break
    chk.cov.update({
        "evaluations": nrun, "distinct_nontrivial": nontriv,
        "rule": "one evaluation = one script (sync, optional Cache Reset + reload cut at PDU k by transport error / close / timeout / "
                "malformed or unexpected PDU / stop, open failures costing retry_iv around the expiry deadline, reconnect with a correct cache; "
                "plus corpus/C07/*.txt) run on the real state-machine thread (rtr_run.c, asserts, ASan/UBSan) and on the extracted model; "
                "non-trivial = distinct script with >= 3 conversation steps",
        "samples": samples, "input_distribution": dist,
        "open_events_by_age_minus_expire": stats["open_delta"], "stops_checked": stats["stops"], "successful_syncs": stats["successes"],
        "corpus_scripts": ncorpus, "scripts_skipped_by_oracle_interval_change": stats.get("skipped_interval_change", 0),
        "tie": "(b) line-by-line equality of the Impl and Model traces (callback blocks sorted)",
    })
    chk.assumptions += ["transport callbacks return >= 1 byte or an error and honour their timeout (the mock does)",
                        "one socket; other sources appear as pre-populated records", "little-endian host",
                        "the End of Data PDUs of the simulated cache carry the configured intervals (interval handling itself is C17)",
                        "model environment: bytes are 0..255 and waits are non-negative (Tm / env_ok); clock starts at 1000 > 0"]
    chk.trusted += ["tools/props/C07_lib.py annotate(): re-plays the mock transport to date every trace line (cross-checked against every "
                    "OPEN / WOULDBLOCK / DUMP time stamp in the trace)"]
    if first_bad:
        s, meta, (kind, info, r) = first_bad

        def failing(sc):
            x = check_one(sc, meta, None)
            return bool(x) and x[0] == kind and x[1].get("key") == info.get("key")
        small = L.shrink(s, failing) if kind != "hang" else s
        chk.violation({"kind": {"tie": "impl-vs-model (tie)", "spec": "impl-vs-spec", "crash": "impl-crash", "hang": "impl-hang"}[kind],
                       "script": small.lines(), "exchanges": meta["exchanges"], "plan": meta.get("plan"), "detail": info, "proof": pr.broken,
                       "replay_cmd": "python3 tools/check.py C07 --replay <this file>"}, key=info.get("key"))
    elif not pr.ok:
        chk.proof_broken(pr, "%d scripts on Impl/Model + oracle: no disagreement" % nrun)


def replay(path):
    o = json.load(open(path))
    if "script" not in o:
        print("replay file names no input:", json.dumps(o.get("broken")))
        return 1
    s = L.script_from_lines(o["script"])
    res = check_one(s, {"exchanges": o.get("exchanges", [])}, None)
    r = L.run_pair(s)
    print("\n".join(l[:200] for l in r["impl"] if not l.startswith("RECV")))
    print("result:", None if res is None else (res[0], res[1]))
    return 1 if res else 0
