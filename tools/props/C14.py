"""C14 - every PDU sent is well-formed; error reports echo the offending PDU exactly.

Decided by: Coq theorems (Props/Properties_C14.v) about the executable RTR model (Rtr/RtrModel.v):
wf_pdu of everything the model builds, tr_send_all for every partial-write script, the whole-model
trace relation (every run of run_fsm hands the transport a sequence of send attempts of well-formed
PDUs of the then-current version), and one theorem per violation class (exactly one report, code,
encapsulated prefix, text).
Tie (checked on every run): the REAL rtr.c/packets.c state machine (harness/rtr_run.c, ASan+UBSan,
asserts on) and the extracted model run the same scripts; every trace line must be equal.
Failing-input search: an independent python oracle (C14_lib.py) on the Impl trace: re-frames all sent
bytes into PDUs, checks them, checks every Error Report against its own class table and against the
bytes the script delivered, and - for the scripts with exactly one injected violation - demands exactly
one report with exactly the expected bytes.
thorough tier: the same harness built with clang MemorySanitizer, its send callback checking every byte
handed to the transport (C-level 'no uninitialised byte is sent')."""
import collections
import json
import os
import re
import shutil
import time

import rtrsim as R
import vlib

from . import C14_lib as L

THEOREMS = ["C14_queries_wf", "C14_query_bytes", "C14_reports_wf", "C14_report_bytes", "C14_send_all", "C14_send_all_bytes",
            "C14_run_attempts", "C14_run_stream", "C14_fsm_step", "C14_report_bad_length", "C14_report_bad_size",
            "C14_report_bad_version", "C14_report_wrong_session", "C14_report_unexpected_in_sync",
            "C14_report_unexpected_in_store", "C14_report_prefix_length", "C14_report_eod_session", "C14_report_updates",
            "C14_update_codes", "C14_Q_meaning", "C14_no_report_for_error", "C14_bytes", "C14_texts_bytes", "C14_serial_query_translated", "C14_reset_query_translated", "C14_send_pdu_translated", "C14_error_from_network_translated"]
CORPUS = os.path.join(vlib.VERIF, "corpus", "C14")
FAULTS = ["bad_len_small", "bad_len_big", "bad_len_type", "bad_type", "bad_version", "bad_flags", "dup_announce",
          "unknown_withdraw", "eod_session", "cr_session", "unexpected_pdu", "prefix_len_big", "garbage", "err_other",
          "announce_withdraw_same", "eod_v0_in_v1", "trunc_err", "notify_inside", "err_unsupported_ver"]


def corpus():
    res = []
    if os.path.isdir(CORPUS):
        for f in sorted(os.listdir(CORPUS)):
            if f.endswith(".txt"):
                res.append((f, [l.rstrip("\n") for l in open(os.path.join(CORPUS, f)) if l.strip() and not l.startswith("#")]))
    return res


def examine(lines, scen=None, timeout=60):
    """Run one script on Impl and Model; return (finding or None, impl trace, stats)."""
    rc, impl, model = L.run_both(lines, timeout=timeout)
    cr = L.crashed(rc, impl)
    if cr:
        return {"kind": "crash", "key": "crash", "detail": cr, "model": model[-15:]}, impl, None
    d = R.first_diff(impl, model)
    tr = R.Trace(impl)
    fin = tr.final()
    fver = int(fin[1]["version"]) if fin else None
    s, probs = L.check_wellformed(impl, fver)
    if probs:
        return {"kind": "sent-not-wellformed", "key": "wf", "detail": probs[:5], "tie_diff": d}, impl, s
    probs = L.check_reports(s, L.delivered(lines))
    if probs:
        return {"kind": "report-not-justified", "key": "report", "detail": probs[:5], "tie_diff": d}, impl, s
    if scen is not None:
        j = L.judge_scenario(scen, impl)
        if j:
            return {"kind": "report-per-violation", "key": "report:" + scen.cls, "detail": j, "class": scen.cls,
                    "expected_report": scen.expect.hex(), "tie_diff": d}, impl, s
    if d:
        return {"kind": "impl-vs-model (tie)", "key": "tie", "detail": {"line": d[0], "impl": d[1], "model": d[2]}}, impl, s
    return None, impl, s


def still_fails(key):
    def f(lines):
        fnd, _, _ = examine(lines)
        return fnd is not None and fnd["key"].split(":")[0] == key.split(":")[0]
    return f


def report(chk, fnd, lines, impl, meta, shrink=True):
    small = lines
    if shrink and fnd["kind"] != "report-per-violation":
        try:
            small = L.shrink_events(lines, still_fails(fnd["key"]), budget=40)
            f2, impl2, _ = examine(small)
            if f2 is not None:
                fnd, impl = f2, impl2
            else:
                small = lines
        except Exception:  # noqa: BLE001
            small = lines
    sends = [l for l in impl if l.startswith(("SEND", "RECV", "STATE", "CLOSE", "OPEN"))]
    chk.violation({"kind": fnd["kind"], "finding": fnd, "meta": meta, "script": small, "impl_trace_excerpt": sends[-40:],
                   "replay_cmd": "python3 tools/check.py C14 --replay <this file>"}, key=fnd["key"])


def build_msan():
    """rtr_run.c with MemorySanitizer; the mock's send callback checks every byte it is handed."""
    if not shutil.which("clang"):
        return None, "clang not installed"
    src = open(os.path.join(vlib.VERIF, "harness", "rtr_run.c")).read()
    hook = ("#if defined(__has_feature)\n#if __has_feature(memory_sanitizer)\n#include <sanitizer/msan_interface.h>\n"
            "#define C14_CHECK_INIT(p, n) __msan_check_mem_is_initialized((p), (n))\n#endif\n#endif\n"
            "#ifndef C14_CHECK_INIT\n#define C14_CHECK_INIT(p, n) ((void)0)\n#endif\n")
    marker = "static int m_send(const void *s, const void *pdu, const size_t len, const time_t timeout)\n{\n"
    if marker not in src:
        return None, "harness/rtr_run.c: m_send not found (cannot insert the initialisedness check)"
    src = hook + src.replace(marker, marker + "\tC14_CHECK_INIT(pdu, len);\n")
    d = os.path.join(vlib.BUILD, "c14")
    os.makedirs(d, exist_ok=True)
    path = os.path.join(d, "rtr_run_msan.c")
    if not os.path.exists(path) or open(path).read() != src:
        with open(path, "w") as f:
            f.write(src)
    try:
        exe = vlib.build_harness("rtr_run_c14_msan", path, includes_repo_c=("rtrlib/spki/hashtable/ht-spkitable.c",),
                                 wraps=("lrtr_get_monotonic_time", "sleep"), san="none", cc="clang", opt="-O1",
                                 extra=["-fsanitize=memory", "-fno-omit-frame-pointer", "-fsanitize-memory-track-origins"],
                                 libs=("-fsanitize=memory", "-lpthread"))
    except vlib.BuildError as e:
        return None, str(e)[-600:]
    return exe, None


def msan_run(exe, lines):
    env = dict(os.environ)
    env["MSAN_OPTIONS"] = "exitcode=97:halt_on_error=1"
    rc, out = vlib.run_lines(exe, "\n".join(lines) + "\n", env=env, timeout=60)
    out = [l for l in out if l and not R._DBG.match(l)]
    return rc, out


def run(chk):
    rnd = vlib.rng(14)
    pr = vlib.check_proofs("C14", THEOREMS)
    chk.proof = pr
    L.setup("c14")
    quick = chk.tier == "quick"
    t0 = time.time()
    nrun, found = 0, 0
    classes = collections.Counter()
    codes = collections.Counter()
    phases = collections.Counter()
    nsent = 0
    samples = []

    def note_stats(s):
        nonlocal nsent
        if s is None:
            return
        for p in s.pdus:
            if p["complete"]:
                nsent += 1
                if p["raw"][1] == 10:
                    codes[L.be16(p["raw"], 2)] += 1

    # 00. the send loop itself on a transport whose calls take time (the model's send path has no clock)
    ncases, bad = L.tr_loops_check(rnd, "send", 400 if quick else 20000)
    nrun += ncases
    if bad:
        found += 1
        chk.violation({"kind": "tr_send_all on a slow transport (impl vs the loop of C14_send_all)", "detail": bad,
                       "replay_cmd": "echo '<case>' | build/bin/tr_loops_asan"}, key="send-loop")
    # 0. corpus
    for name, lines in corpus():
        fnd, impl, s = examine(lines)
        nrun += 1
        note_stats(s)
        if fnd:
            found += 1
            report(chk, fnd, lines, impl, {"corpus": name})
    # 1. every violation class x PDU type x hostile field values x phase x version
    scen = L.scenarios(rnd, chk.tier)
    for i, sc in enumerate(scen):
        lines = sc.lines()
        fnd, impl, s = examine(lines, sc)
        nrun += 1
        note_stats(s)
        classes[sc.cls] += 1
        phases[sc.phase] += 1
        if len(samples) < 4 and i % 300 == 0:
            samples.append({"class": sc.cls, "note": sc.note, "script": lines})
        if fnd and found < 6:
            found += 1
            report(chk, fnd, lines, impl, {"class": sc.cls, "phase": sc.phase, "ver": sc.ver, "note": sc.note}, shrink=False)
    # 2. the same conversations under partial writes and send errors
    step = 9 if quick else 2
    npat = 0
    for i, sc in enumerate(scen):
        if i % step:
            continue
        pats = [L.SEND_PATTERNS[1 + (i // step) % (len(L.SEND_PATTERNS) - 1)]]
        if sc.phase == "first":
            pats += [[1000000, rnd.choice([1, 5, 8, 15, 17]), "e1"], ["e1"], [4, "e1"], [1000000, "e1"]][(i // step) % 4:][:1]
        for pat in pats:
            sc.script.sends = list(pat)
            lines = sc.lines()
            fnd, impl, s = examine(lines, sc)
            nrun += 1
            npat += 1
            note_stats(s)
            if fnd and found < 6:
                found += 1
                report(chk, fnd, lines, impl, {"class": sc.cls, "phase": sc.phase, "ver": sc.ver, "note": sc.note, "sends": pat[:8]},
                       shrink=False)
        sc.script.sends = []
    # 3. random conversations with the model in the loop (several faults per conversation, random chunking and writes)
    nconv = 60 if quick else 600
    exch = collections.Counter()
    for k in range(nconv):
        if quick and time.time() - t0 > 130:
            chk.notes.append("conversation budget reached after %d conversations" % k)
            break
        s, meta = R.build_conversation(rnd, nex=rnd.randint(3, 7), fault_p=0.6, faults=FAULTS, final_good=rnd.randint(0, 1),
                                        cfg={"big": (not quick) and rnd.random() < 0.05})
        lines = s.lines()
        fnd, impl, st = examine(lines)
        nrun += 1
        note_stats(st)
        for e in meta["exchanges"]:
            exch[e] += 1
        if fnd and found < 6:
            found += 1
            report(chk, fnd, lines, impl, {"exchanges": meta["exchanges"]})
    # 4. thorough: MemorySanitizer on the bytes handed to the transport
    msan = {"built": False}
    if not quick:
        exe, err = build_msan()
        if exe is None:
            chk.notes.append("MemorySanitizer build unavailable: " + err)
            msan["error"] = err
        else:
            msan["built"] = True
            nms = 0
            for i, sc in enumerate(scen):
                if i % 3:
                    continue
                lines = sc.lines()
                rc, out = msan_run(exe, lines)
                nms += 1
                if rc != 0 or not out or not out[-1].startswith("ENDDUMP"):
                    txt = "\n".join(out[-25:])
                    found += 1
                    chk.violation({"kind": "uninitialised-or-crash (MemorySanitizer)", "script": lines, "rc": rc, "detail": txt[-3000:],
                                   "meta": {"class": sc.cls, "note": sc.note},
                                   "replay_cmd": "python3 tools/check.py C14 --replay <this file>"}, key="msan")
                    break
            msan["scripts"] = nms
    chk.cov.update({
        "evaluations": nrun,
        "distinct_nontrivial": sum(1 for c in classes if classes[c]) * 3 + len(exch),
        "rule": "evaluation = one script run on Impl (real rtr.c/packets.c, ASan+UBSan+asserts) and on the extracted model, traces "
                "compared line by line, oracle applied to the Impl trace; non-trivial = violation classes x phases reached + kinds "
                "of exchanges in the random conversations",
        "violation_classes": dict(classes), "phases": dict(phases), "scripts_with_partial_writes_or_send_errors": npat,
        "random_conversations_exchanges": dict(exch), "complete_pdus_sent_by_impl": nsent, "error_report_codes_seen": dict(codes),
        "class_table": {c: {"code": v[0], "encapsulated": v[1], "text": (v[2] or b"<session ids>").decode("latin1").rstrip("\0")}
                        for c, v in L.CLASS.items()},
        "rfc8210_section12_observations": L.RFC_NOTES,
        "msan": msan,
        "samples": samples,
        "tie": "(b) real state machine thread vs extracted model on identical scripts: every trace line equal (callback blocks sorted)",
    })
    chk.assumptions += [
        "little-endian host (the byte-order conversions of packets.c are exercised on the real code, not modelled)",
        "the transport accepts >= 1 byte per successful send call (a transport accepting 0 bytes would make tr_send_all spin; "
        "the model returns an error there)",
        "rtr_stop is not concurrent with a send (the model's send_pdu sends nothing in state SHUTDOWN, as the C does)",
        "'no byte sent stems from uninitialised memory' is a statement about C memory; in the model every sent byte is, by "
        "construction, a received byte, a socket field or a constant (C14_bytes); the C side is checked by MemorySanitizer in "
        "the thorough tier",
    ]
    chk.trusted += ["harness/rtr_run.c mock transport and virtual clock", "tools/props/C14_lib.py oracle and its class table"]
    if found == 0 and not pr.ok:
        chk.proof_broken(pr, "%d scripts (all violation classes, partial writes, random conversations): Impl == Model, oracle silent" % nrun)


def replay(path):
    o = json.load(open(path))
    lines = o.get("script")
    if not lines:
        print("replay file names no input:", json.dumps(o.get("broken") or o.get("kind")))
        return 1
    L.setup("c14")
    if o.get("kind", "").startswith("uninitialised"):
        exe, err = build_msan()
        if exe is None:
            print("MemorySanitizer build unavailable:", err)
            return 1
        rc, out = msan_run(exe, lines)
        print("\n".join(out[-30:]))
        return 0 if rc == 0 else 1
    scen = None
    fnd0 = o.get("finding") or {}
    if fnd0.get("expected_report") is not None:
        scen = L.Scen(fnd0.get("class"), 0, "", None, b"", 0)
        scen.expect = bytes.fromhex(fnd0["expected_report"])
        scen.note = "replay"
    fnd, impl, _ = examine(lines, scen)
    print("\n".join(impl))
    print("finding:", json.dumps(fnd, default=str)[:2000])
    return 1 if fnd else 0
