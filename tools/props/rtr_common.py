"""Shared runner for the RTR-protocol properties checked by the orchestrator (C13, C17): conversations
from rtrsim.build_conversation, Impl vs Model trace equality (tie), a property oracle on the Impl trace."""
import json
import os
import time

import rtrsim as R
import vlib


def consumed_pdus(trace_lines, script):
    """Re-frame what the client read: follows RECV lines (header 8 bytes, then len-8 payload unless the
    client gave the PDU up right after the header). Returns a list of dicts
    {conn, first, raw, complete, at (trace index of completion), closed_event}."""
    stream = b"".join(e[1] for e in script.evs if e[0] == "data")
    pos = 0
    out = []
    conn = 0
    first = True
    cur = b""
    phase = "hdr"
    need = 8
    n = len(trace_lines)
    for i, l in enumerate(trace_lines):
        w = l.split()
        if w[0] == "OPEN":
            conn += 1
            first = True
            cur, phase, need = b"", "hdr", 8
        elif w[0] == "RECV":
            res = w[3]
            if res in ("WOULDBLOCK", "ERR", "STOP"):
                if res == "ERR":
                    out.append({"conn": conn, "event": "err", "code": int(w[4]), "at": i})
                cur, phase, need = b"", "hdr", 8
                continue
            k = int(res)
            cur += stream[pos:pos + k]
            pos += k
            if len(cur) == need:
                if phase == "hdr":
                    ln = int.from_bytes(cur[4:8], "big")
                    nxt = trace_lines[i + 1].split()[0] if i + 1 < n else "END"
                    ent = {"conn": conn, "first": first, "raw": cur, "complete": ln == 8, "at": i, "hdr_only": True}
                    out.append(ent)
                    first = False
                    if nxt == "RECV" and 8 < ln <= R.MAX_PDU_LEN:
                        phase, need = "body", ln
                        ent["hdr_only"] = False
                    else:
                        cur, phase, need = b"", "hdr", 8
                else:
                    out[-1]["raw"] = cur
                    out[-1]["complete"] = True
                    out[-1]["at_end"] = i
                    cur, phase, need = b"", "hdr", 8
    return out


def run_property(chk, theorems, gen, oracle, pid, budget_quick=100, n_quick=120, n_thorough=3000, module=None):
    rnd = vlib.rng(sum(ord(c) for c in pid))
    pr = vlib.check_proofs(pid, theorems, module=module)
    chk.proof = pr
    n = n_quick if chk.tier == "quick" else n_thorough
    budget = budget_quick if chk.tier == "quick" else 2400
    t0 = time.time()
    nrun = 0
    dist = {}
    first_bad = None
    samples = []
    distinct = set()
    nontriv = 0
    # corpus first
    cdir = os.path.join(vlib.VERIF, "corpus", pid)
    scripts = []
    if os.path.isdir(cdir):
        for f in sorted(os.listdir(cdir)):
            if f.endswith(".txt"):
                scripts.append((R.Script.from_lines([x.rstrip("\n") for x in open(os.path.join(cdir, f))]), {"exchanges": ["corpus:" + f]}))
    for k in range(n):
        if time.time() - t0 > budget:
            chk.notes.append("time budget reached after %d conversations" % nrun)
            break
        if scripts:
            s, meta = scripts.pop(0)
        else:
            s, meta = gen(rnd)
        lines = s.lines()
        rc, a = R.run_impl(lines)
        rc2, b = R.run_model(lines)
        nrun += 1
        for x in meta["exchanges"]:
            dist[x] = dist.get(x, 0) + 1
        key = hash("\n".join(lines))
        if key not in distinct:
            distinct.add(key)
            if len(meta["exchanges"]) >= 3 and any(x not in ("truthful", "refresh-timeout") for x in meta["exchanges"]):
                nontriv += 1
        if len(samples) < 2:
            samples.append({"exchanges": meta["exchanges"], "script_head": lines[:8]})
        tr = R.Trace(a)
        d = R.first_diff(a, b)
        viol = None
        if tr.crash:
            viol = ("crash", {"what": "sanitizer/assert abort or garbage in the Impl trace", "detail": tr.crash[-1500:]})
        elif d:
            viol = ("tie", {"what": "Impl and Model traces differ", "index": d[0], "impl": d[1][:400], "model": d[2][:400]})
        else:
            o = oracle(tr, s, meta)
            if o:
                viol = ("spec", o)
        if viol:
            first_bad = (s, meta, viol)
            break
    chk.cov.update({
        "evaluations": nrun, "distinct_nontrivial": nontriv,
        "rule": "one evaluation = one scripted conversation (cache simulator with the model in the loop, faults injected) run on the real "
                "state-machine thread of /repo (rtr_run.c: mock transport, virtual clock, asserts, ASan/UBSan) and on the extracted model; "
                "non-trivial = distinct script with >= 3 exchanges of which at least one is not a plain truthful answer / refresh timeout",
        "samples": samples, "input_distribution": dist,
        "tie": "(b) line-by-line equality of the Impl and Model traces (callback blocks sorted)",
    })
    chk.assumptions += ["transport callbacks return >= 1 byte or an error and honour their timeout (the mock does)",
                        "one socket; other sources appear as pre-populated records", "little-endian host"]
    if first_bad:
        s, meta, (kind, info) = first_bad

        def failing(sc):
            rc, a = R.run_impl(sc.lines())
            rc2, b = R.run_model(sc.lines())
            tr = R.Trace(a)
            if kind == "crash":
                return bool(tr.crash)
            if kind == "tie":
                return bool(R.first_diff(a, b))
            return bool(not tr.crash and not R.first_diff(a, b) and oracle(tr, sc, meta))
        small = R.shrink_script(s, failing)
        chk.violation({"kind": "impl-vs-" + ("model (tie)" if kind == "tie" else "spec" if kind == "spec" else "crash"),
                       "script": small.lines(), "exchanges": meta["exchanges"], "detail": info, "proof": pr.broken,
                       "replay_cmd": "python3 tools/check.py %s --replay <this file>" % pid},
                      key=info.get("key") if isinstance(info, dict) else None)
    elif not pr.ok:
        chk.proof_broken(pr, "%d conversations on Impl/Model + oracle: no disagreement" % nrun)


def replay_script(path, oracle):
    o = json.load(open(path))
    if "script" not in o:
        print("replay file names no input:", json.dumps(o.get("broken")))
        return 1
    s = R.Script.from_lines(o["script"])
    rc, a = R.run_impl(s.lines())
    rc2, b = R.run_model(s.lines())
    tr = R.Trace(a)
    d = R.first_diff(a, b)
    print("\n".join(l[:200] for l in a if not l.startswith("RECV")))
    print("crash:", tr.crash)
    print("tie diff:", d)
    res = oracle(tr, s, {"exchanges": o.get("exchanges", [])}) if not tr.crash else None
    print("oracle:", res)
    return 1 if (tr.crash or d or res) else 0
