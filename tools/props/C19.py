"""C19 - address text conversion round-trips and agrees with the platform parser.

Decided by: Coq theorems (theories/Props/Properties_C19.v) about a Gallina model written after
the C loops of rtrlib/lib/ipv4.c, ipv6.c and the dispatch in ip.c, plus an independent grammar
(RFC 4291 2.2 / dotted quad) standing in for inet_pton.

Tie (checked on every run): harness/iptext.c calls the real lrtr_ip_addr_to_str /
lrtr_ip_str_to_addr / lrtr_ip_str_cmp (three builds: gcc ASan+UBSan, gcc plain with the stack and
the output struct pre-filled with two patterns, clang MemorySanitizer when clang is present); the
extracted model (ocaml/c19_driver.ml) runs the same lines; results must be equal, including which
of the eight words the parser never assigned.  The executable reference parsers of Grammar.v are
compared with the platform's inet_pton on every parsed string.

Spec-vs-Impl search (always): text produced by the library parses back (library and inet_pton) to
the same address; inet_pton accepts => the library accepts with the same bytes; two runs with
different stack/output garbage return the same address; nothing is stored beyond the given length.
"""
import hashlib
import json
import os
import shutil

import vlib

THEOREMS = ["C19_rt4", "C19_rt6", "C19_out_in_grammar4", "C19_out_in_grammar6", "C19_accepts",
            "C19_refuted", "C19_deterministic_outside_known", "C19_unwritten_exactly",
            "C19_deterministic_fixed", "C19_fixed_agrees", "C19_never_stuck",
            "C19_bounds4", "C19_bounds4_fixed", "C19_bounds6", "C19_ref_sound"]

KEY_SHORT = "ipv6-short-form-unwritten-words"
CORPUS = os.path.join(vlib.VERIF, "corpus", "C19")
B8 = [0, 1, 9, 10, 99, 100, 199, 200, 255]
W16 = [0x1, 0xffff, 0x0abc, 0xf, 0x10, 0xff, 0x100, 0xfff, 0x1000, 0x8000, 0xa, 0xfffe]


# ---------------------------------------------------------------------------
# builds
# ---------------------------------------------------------------------------
def build_model():
    ok, out = vlib.coq_make(["theories/Extract/Extract_C19.vo"], timeout=900)
    if not ok:
        raise vlib.BuildError("extraction of the C19 model failed:\n" + out[-3000:])
    ml, mli = os.path.join(vlib.COQ, "c19_model.ml"), os.path.join(vlib.COQ, "c19_model.mli")
    drv = os.path.join(vlib.VERIF, "ocaml", "c19_driver.ml")
    key = hashlib.sha1(b"\0".join(open(f, "rb").read() for f in (ml, mli, drv))).hexdigest()
    odir = os.path.join(vlib.BUILD, "ocaml_c19")
    exe = os.path.join(vlib.BUILD, "bin", "c19_model")
    stamp = os.path.join(odir, "stamp")
    if os.path.exists(exe) and os.path.exists(stamp) and open(stamp).read() == key:
        return exe
    os.makedirs(odir, exist_ok=True)
    os.makedirs(os.path.join(vlib.BUILD, "bin"), exist_ok=True)
    for f in (ml, mli, drv):
        shutil.copy(f, odir)
    rc, out = vlib.sh(["ocamlfind", "ocamlopt", "-w", "-a", "-o", exe, "c19_model.mli", "c19_model.ml", "c19_driver.ml"],
                      cwd=odir, timeout=600)
    if rc != 0:
        raise vlib.BuildError("ocaml build of the C19 model failed:\n" + out[-3000:])
    with open(stamp, "w") as f:
        f.write(key)
    return exe


def build_impls():
    src = os.path.join(vlib.VERIF, "harness", "iptext.c")
    exes = {"asan": vlib.build_harness("iptext", src, san="asan"),
            "plain": vlib.build_harness("iptext_plain", src, san="none")}
    if shutil.which("clang"):
        try:
            exes["msan"] = vlib.build_harness("iptext_msan", src, san="none", cc="clang",
                                              extra=["-fsanitize=memory", "-fno-omit-frame-pointer"],
                                              libs=("-fsanitize=memory", "-lpthread"))
        except vlib.BuildError as e:  # the gcc builds carry the run; say so
            exes["msan_error"] = str(e)[-400:]
    return exes


# ---------------------------------------------------------------------------
# line protocol
# ---------------------------------------------------------------------------
def esc(b):
    if isinstance(b, str):
        b = b.encode("latin-1")
    return "".join(chr(c) if 0x21 <= c <= 0x7e and c != 0x5c else "\\x%02x" % c for c in b)


def unesc(s):
    out, i = bytearray(), 0
    while i < len(s):
        if s[i] == "\\" and s[i + 1:i + 2] == "x" and i + 3 < len(s):
            out.append(int(s[i + 2:i + 4], 16))
            i += 4
        else:
            out.append(ord(s[i]))
            i += 1
    return bytes(out)


def fields(line):
    p = line.split(" ")
    d = {"op": p[0]}
    for x in p[1:]:
        if "=" in x:
            k, v = x.split("=", 1)
            d[k] = v
    return d


def run_exe(exe, lines, env=None):
    """Run all lines; on a crash (sanitizer report) find the first line that kills the process."""
    text = "".join(l + "\n" for l in lines)
    rc, out = vlib.run_lines(exe, text, env=env, timeout=1200)
    out = [o for o in out if o.startswith(("to4", "to6", "from", "bad-op"))]
    crash = None
    if rc != 0 or len(out) != len(lines):
        k = min(len(out), len(lines) - 1)
        rc1, out1 = vlib.run_lines(exe, lines[k] + "\n", env=env, timeout=60)
        crash = (k, lines[k], "\n".join(out1[-30:])[-2500:])
    return out, crash


def addr_of_line(line):
    p = line.split(" ")
    if p[0] == "to4":
        return "4:%08x" % int(p[1]), int(p[2])
    return "6:" + ":".join("%x" % int(w, 16) for w in p[1:9]), int(p[9])


# ---------------------------------------------------------------------------
# evaluation of a batch of lines: tie + spec
# ---------------------------------------------------------------------------
class Finding:
    def __init__(self, kind, key, line, detail):
        self.kind, self.key, self.line, self.detail = kind, key, line, detail


def evaluate(lines, model_exe, impls, stats=None):
    """Return (findings, variant_votes).  variant_votes counts, over the strings on which the model
    of the current code and the model of the repaired code differ, which one Impl agrees with."""
    fnd = []
    votes = {"current": 0, "fixed": 0, "to4_current": 0, "to4_fixed": 0}
    mout, mcrash = run_exe(model_exe, lines)
    if mcrash:
        fnd.append(Finding("model-crash", None, mcrash[1], {"output": mcrash[2]}))
        return fnd, votes
    outs = {}
    for name in ("asan", "plain", "msan"):
        if name not in impls:
            continue
        sel = lines if name == "asan" else [l for l in lines if l.startswith("from")]
        o, crash = run_exe(impls[name], sel, env=vlib.san_env())
        if crash:
            fnd.append(Finding("impl-crash", "crash:" + crash[1].split(" ")[0], crash[1],
                               {"build": name, "output": crash[2]}))
            return fnd, votes
        outs[name] = dict(zip(sel, o))
    for line, mo in zip(lines, mout):
        m = fields(mo)
        a = fields(outs["asan"][line])
        if line.startswith("to"):
            addr, ln = addr_of_line(line)
            v = "4" if line.startswith("to4") else "6"
            # --- tie (to4: the model of the code as it is, or of the proposed truncation repair)
            rcs = [m.get("rc")] + ([m.get("rcf")] if "rcf" in m else [])
            if (m.get("out"), m.get("n")) != (a.get("out"), a.get("n")) or a.get("rc") not in rcs:
                fnd.append(Finding("tie", "tie:to" + v, line, {"model": mo, "impl": outs["asan"][line]}))
            elif len(set(rcs)) == 2:
                votes["to4_current" if a.get("rc") == rcs[0] else "to4_fixed"] += 1
            # --- spec: bounds
            if a.get("canary") != "ok" or int(a.get("n", "0")) > ln:
                fnd.append(Finding("spec-bounds", "bounds:to" + v, line, {"impl": outs["asan"][line], "len": ln}))
            need = 16 if v == "4" else 46
            if v == "6" and (a.get("rc") == "-1") != (ln < 46):
                fnd.append(Finding("spec-bounds", "bounds:rc6", line, {"impl": outs["asan"][line], "len": ln}))
            # --- spec: round trip, only promised for a buffer of the documented size
            if ln >= need:
                exp_p = addr if v == "6" else "4:%s" % addr[2:]
                if a.get("rc") != "0" or a.get("back") != addr or a.get("pton") != exp_p or a.get("cmp") != "1":
                    fnd.append(Finding("spec-roundtrip", "roundtrip:to" + v, line, {"impl": outs["asan"][line], "expected": addr}))
            elif stats is not None and v == "4" and a.get("rc") == "0" and a.get("back") not in (addr, "none"):
                stats["to4_short_buffer_success_but_truncated"] = stats.get("to4_short_buffer_success_but_truncated", 0) + 1
            if stats is not None and v == "6":
                stats["nt_same" if a.get("nt") == a.get("out") else "nt_differs"] = stats.get(
                    "nt_same" if a.get("nt") == a.get("out") else "nt_differs", 0) + 1
            continue
        # ---- from
        cur, fix = m.get("lib"), m.get("fix")
        allr = []
        for name in outs:
            f = fields(outs[name][line])
            allr.append((name, f.get("r0"), f.get("r1")))

        def agrees(model_res):
            for name, r0, r1 in allr:
                for r in (r0, r1):
                    if name == "msan":
                        if r != model_res:
                            return False
                    else:
                        mw, rw = model_res.split(":"), r.split(":")
                        if len(mw) != len(rw) or any(x != "?" and x != y for x, y in zip(mw, rw)):
                            return False
            return True
        ok_cur, ok_fix = agrees(cur), agrees(fix)
        if cur != fix:
            if ok_cur and not ok_fix:
                votes["current"] += 1
            elif ok_fix and not ok_cur:
                votes["fixed"] += 1
        if not ok_cur and not ok_fix:
            fnd.append(Finding("tie", "tie:from", line, {"model_current": cur, "model_fixed": fix, "impl": allr}))
        # spec: determinism
        pl = fields(outs["plain"][line])
        nondet = pl.get("r0") != pl.get("r1") or any("?" in (r0 or "") + (r1 or "") for n_, r0, r1 in allr if n_ == "msan")
        if nondet:
            key = KEY_SHORT if ("?" in (cur or "") and ok_cur) else "nondet:other"
            fnd.append(Finding("spec-determinism", key, line, {"impl": allr, "model": cur,
                       "why": "the returned address differs between two runs of the same text (stack / output pre-filled with 0x00 vs 0xA5)"
                              " or contains uninitialised bytes (MemorySanitizer)"}))
        # spec: inet_pton accepts => library accepts with the same result
        p4, p6 = a.get("p4"), a.get("p6")
        for want in (("4:" + p4) if p4 != "-" else None, ("6:" + p6) if p6 != "-" else None):
            if want and any(r0 != want or r1 != want for _, r0, r1 in allr):
                fnd.append(Finding("spec-accepts", "accepts:" + want[0], line, {"inet_pton": want, "impl": allr}))
        # grammar vs platform
        if m.get("ref4") != p4 or m.get("ref6") != p6:
            fnd.append(Finding("grammar-vs-inet_pton", "grammar", line, {"ref4": m.get("ref4"), "p4": p4, "ref6": m.get("ref6"), "p6": p6}))
        if stats is not None:
            r = a.get("r0", "")
            cls = ("lib-accepts" if r != "-1" else "lib-rejects") + "/" + ("pton-accepts" if (p4 != "-" or p6 != "-") else "pton-rejects")
            stats[cls] = stats.get(cls, 0) + 1
    return fnd, votes


# ---------------------------------------------------------------------------
# generators
# ---------------------------------------------------------------------------
def longest_run(ws):
    bp, bl, cp, cl = -1, 0, 0, 0
    for i, w in enumerate(ws):
        if w:
            cl = 0
        else:
            if not cl:
                cp = i
            cl += 1
            if cl > bl:
                bp, bl = cp, cl
    return (bp, bl) if bl >= 2 else (-1, bl)


def gen_to6(tier, rnd, dist):
    out = []
    fills = [lambda: 0x1, lambda: 0xffff, lambda: 0x0abc, lambda: rnd.choice(W16), lambda: rnd.randint(1, 0xffff)]
    reps = 1 if tier == "quick" else 6
    for pat in range(256):
        for f in fills:
            for _ in range(reps):
                ws = [0 if (pat >> (7 - i)) & 1 == 0 else f() for i in range(8)]
                out.append((ws, 46))
    # embedded-IPv4 looking addresses and their neighbours
    heads = [[0, 0, 0, 0, 0, 0], [0, 0, 0, 0, 0, 0xffff], [0, 0, 0, 0, 0, 0xfffe], [0, 0, 0, 0, 0, 1],
             [0, 0, 0, 0, 0xffff, 0], [0, 0, 0, 0, 1, 0xffff], [1, 0, 0, 0, 0, 0xffff], [0, 0, 0, 0, 0xffff, 0xffff]]
    n = 40 if tier == "quick" else 600
    for h in heads:
        for _ in range(n):
            a, b = rnd.choice(B8), rnd.choice(B8)
            c, d = rnd.choice(B8), rnd.choice(B8)
            out.append((h + [a << 8 | b, c << 8 | d], 46))
        for t in ([0, 0], [0, 1], [1, 0], [0xffff, 0xffff], [0, 0x100]):
            out.append((h + t, 46))
    # buffer lengths for the bounds clause
    samples = [[0] * 8, [0xffff] * 8, [0, 0, 0, 0, 0, 0xffff, 0xffff, 0xffff], [1, 0, 0, 0, 0, 0, 0, 1], [0xabcd, 0, 0x1234] + [0xffff] * 5]
    for ws in samples:
        for ln in list(range(0, 51)) + [64, 255, 256, 4096, 2 ** 31 - 1, 2 ** 31, 2 ** 32 - 1]:
            out.append((ws, ln))
    for ws, ln in out:
        bp, bl = longest_run(ws)
        k = "run@%d len%d" % (bp, bl) if bp >= 0 else "no-run"
        dist["to6_runs"][k] = dist["to6_runs"].get(k, 0) + 1
    return ["to6 " + " ".join("%x" % w for w in ws) + " %d" % ln for ws, ln in out]


def gen_to4(tier, rnd, dist):
    vals = []
    prod = [(a, b, c, d) for a in B8 for b in B8 for c in B8 for d in B8]
    if tier == "quick":
        vals += rnd.sample(prod, 2400)
        nr = 600
    else:
        vals += prod
        nr = 100000 - len(prod)
    near = [0, 1, 2, 8, 9, 10, 11, 98, 99, 100, 101, 127, 128, 198, 199, 200, 201, 254, 255]
    for _ in range(nr):
        vals.append(tuple(rnd.choice(near) if rnd.random() < 0.5 else rnd.randint(0, 255) for _ in range(4)))
    out = [((a << 24 | b << 16 | c << 8 | d), 16) for a, b, c, d in vals]
    for a in (0, 0xffffffff, 0x01020304, 0x0a141e28, 0x64c8ff00, 0xc0a80101):
        for ln in list(range(0, 51)) + [255, 4096, 2 ** 31 - 1, 2 ** 31, 2 ** 32 - 1]:
            out.append((a, ln))
    for a, ln in out:
        k = "digits=%d" % sum(len(str((a >> s) & 255)) for s in (24, 16, 8, 0))
        dist["to4_text_digits"][k] = dist["to4_text_digits"].get(k, 0) + 1
    return ["to4 %d %d" % (a, ln) for a, ln in out]


def gen_group(rnd):
    v = rnd.choice(W16 + [0, rnd.randint(0, 0xffff)])
    s = "%x" % v
    s = "0" * rnd.randint(0, 4 - len(s)) + s if rnd.random() < 0.4 else s
    return "".join(c.upper() if rnd.random() < 0.3 else c for c in s)


def gen_quad(rnd):
    return ".".join(str(rnd.choice(B8 + [rnd.randint(0, 255)])) for _ in range(4))


def gen_valid(rnd):
    """a string of one of the RFC 4291 2.2 forms (or a dotted quad)"""
    k = rnd.random()
    if k < 0.15:
        return gen_quad(rnd)
    with4 = rnd.random() < 0.3
    total = 6 if with4 else 8
    if rnd.random() < 0.3:
        gs = [gen_group(rnd) for _ in range(total)]
        return ":".join(gs + ([gen_quad(rnd)] if with4 else []))
    n = rnd.randint(0, total - 1)
    npre = rnd.randint(0, n)
    pre = [gen_group(rnd) for _ in range(npre)]
    post = [gen_group(rnd) for _ in range(n - npre)] + ([gen_quad(rnd)] if with4 else [])
    return ":".join(pre) + "::" + ":".join(post)


ALPHABET = "0123456789abcdefABCDEFgGxX:.:. +-\t/%,\x80\xff"


def mutate(s, rnd):
    b = list(s)
    k = rnd.random()
    pos = rnd.randint(0, len(b))
    c = rnd.choice(ALPHABET)
    if k < 0.4 and b:
        b[min(pos, len(b) - 1)] = c
    elif k < 0.7:
        b.insert(pos, c)
    elif b:
        del b[min(pos, len(b) - 1)]
    return "".join(b)


def gen_from(tier, rnd, outs, dist):
    cases = []  # (category, string)
    for s in outs:
        cases.append(("library-output", s))
    nvalid = 700 if tier == "quick" else 20000
    valid = [gen_valid(rnd) for _ in range(nvalid)]
    # every position and count of "::"
    for total, tail in ((8, []), (6, ["1.2.3.4"])):
        for n in range(0, total + 1):
            for npre in range(0, n + 1):
                pre = ["%x" % (i + 1) for i in range(npre)]
                post = ["%x" % (i + 0xa) for i in range(n - npre)] + tail
                valid.append(":".join(pre) + "::" + ":".join(post))
        for n in range(0, total + 2):
            valid.append(":".join(["%x" % (i + 1) for i in range(n)] + tail))
    for s in valid:
        cases.append(("grammar", s))
    base = list(outs) + valid
    ntr = 120 if tier == "quick" else 2500
    for s in rnd.sample(base, min(ntr, len(base))):
        for k in range(len(s)):
            cases.append(("truncation", s[:k]))
    nmu = 2500 if tier == "quick" else 80000
    for _ in range(nmu):
        cases.append(("mutation", mutate(rnd.choice(base), rnd)))
    nm2 = 300 if tier == "quick" else 8000
    for _ in range(nm2):
        cases.append(("mutation2", mutate(mutate(rnd.choice(base), rnd), rnd)))
    seen, out = set(), []
    for cat, s in cases:
        s = s.split("\0")[0].replace("\n", "")
        if s in seen:
            continue
        seen.add(s)
        dist["from_category"][cat] = dist["from_category"].get(cat, 0) + 1
        out.append("from " + esc(s))
    return out


def corpus_lines():
    out = []
    if os.path.isdir(CORPUS):
        for f in sorted(os.listdir(CORPUS)):
            if f.endswith(".txt"):
                for l in open(os.path.join(CORPUS, f)):
                    l = l.rstrip("\n")
                    if l and not l.startswith("#"):
                        out.append(l)
    return out


# ---------------------------------------------------------------------------
# shrinking
# ---------------------------------------------------------------------------
def shrink(f, model_exe, impls):
    """Greedy minimisation of one failing line keeping the same finding key."""
    def still(line):
        fs, _ = evaluate([line], model_exe, impls)
        return any(x.key == f.key and x.kind == f.kind for x in fs)
    line = f.line
    if line.startswith("from"):
        s = unesc(line[5:])
        changed = True
        while changed and len(s) > 0:
            changed = False
            for i in range(len(s)):
                t = s[:i] + s[i + 1:]
                if still("from " + esc(t)):
                    s, changed = t, True
                    break
        # simplify digits
        for i in range(len(s)):
            for repl in (b"1", b"0"):
                if s[i:i + 1] not in (b":", b".", b"0", b"1") and s[i:i + 1].isalnum():
                    t = s[:i] + repl + s[i + 1:]
                    if still("from " + esc(t)):
                        s = t
                        break
        return "from " + esc(s)
    p = line.split(" ")
    if p[0] == "to6":
        for i in range(1, 9):
            for repl in ("0", "1"):
                if p[i] not in ("0", "1"):
                    q = p[:i] + [repl] + p[i + 1:]
                    if still(" ".join(q)):
                        p = q
                        break
        return " ".join(p)
    if p[0] == "to4":
        a = int(p[1])
        for sh in (24, 16, 8, 0):
            for repl in (0, 1):
                b = (a & ~(0xff << sh)) | (repl << sh)
                if ((a >> sh) & 0xff) > 1 and still("to4 %d %s" % (b, p[2])):
                    a = b
                    break
        return "to4 %d %s" % (a, p[2])
    return line


# ---------------------------------------------------------------------------
def run(chk):
    rnd = vlib.rng(19)
    if os.path.isdir(vlib.REPLAY):          # replay files of earlier runs of this property are stale
        for f in os.listdir(vlib.REPLAY):
            if f.startswith("C19-%s-" % vlib.seed()):
                os.remove(os.path.join(vlib.REPLAY, f))
    pr = vlib.check_proofs("C19", THEOREMS)
    chk.proof = pr
    if chk.tier == "thorough" and pr.ok:      # independent re-check of the compiled proofs
        rc, out = vlib.sh(["coqchk", "-silent", "-o", "-Q", "theories", "RtrV", "RtrV.Props.Properties_C19"],
                          cwd=vlib.COQ, timeout=3000)
        chk.cov["coqchk"] = " ".join(out.split())[-400:]
        if rc != 0 or "Axioms: <none>" not in out:
            pr.ok = False
            pr.problems.append("coqchk: " + out[-600:])
            pr.broken = {"what": "coqchk", "detail": out[-600:]}
    model_exe = build_model()
    impls = build_impls()
    if "msan_error" in impls:
        chk.notes.append("clang MemorySanitizer build unavailable: " + impls.pop("msan_error"))
    dist = {"to6_runs": {}, "to4_text_digits": {}, "from_category": {}}
    stats = {}
    lines = corpus_lines()
    ncorpus = len(lines)
    to_lines = gen_to6(chk.tier, rnd, dist) + gen_to4(chk.tier, rnd, dist)
    findings, votes = evaluate(lines + to_lines, model_exe, impls, stats)
    # strings produced by the library itself seed the parser inputs
    outs = set()
    o, _ = run_exe(impls["asan"], to_lines, env=vlib.san_env())
    for l in o:
        f = fields(l)
        if f.get("rc") == "0" and f.get("out"):
            outs.add(unesc(f["out"]).decode("latin-1"))
    from_lines = gen_from(chk.tier, rnd, sorted(outs), dist)
    f2, v2 = evaluate(from_lines, model_exe, impls, stats)
    findings += f2
    for k in votes:
        votes[k] += v2[k]
    total = ncorpus + len(to_lines) + len(from_lines)
    variant = "fixed" if votes["fixed"] and not votes["current"] else "current"
    variant4 = "fixed" if votes["to4_fixed"] and not votes["to4_current"] else "current"
    for x, y, what in (("current", "fixed", "lrtr_ipv6_str_to_addr"), ("to4_current", "to4_fixed", "lrtr_ipv4_addr_to_str")):
        if votes[x] and votes[y]:   # neither model explains the implementation on all inputs
            findings.append(Finding("tie", "tie:mixed-variants", (from_lines or to_lines)[0],
                                    {"what": what + " agrees with the model of the current code on some inputs and with the "
                                             "model of the repaired code on others", "votes": votes}))
    nontriv = len(to_lines) + sum(v for k, v in stats.items() if k.startswith(("lib-accepts", "lib-rejects/pton-accepts")))
    chk.cov.update({
        "evaluations": total, "distinct_nontrivial": nontriv,
        "rule": "distinct op lines; non-trivial = a to-text conversion, or a parsed string that the library or inet_pton accepts "
                "(strings both reject are counted in evaluations only)",
        "samples": (lines[:3] + to_lines[:2] + to_lines[1300:1302] + from_lines[:3] + from_lines[-4:]),
        "distribution": dist, "outcomes": stats,
        "model_variant_matching_impl": {"lrtr_ipv6_str_to_addr": variant, "lrtr_ipv4_addr_to_str": variant4}, "variant_votes": votes,
        "impl_builds": sorted(k for k in impls),
        "exhaustive": False,
        "tie": "(b) differential: extracted model vs real functions on identical lines (text, return code, bytes stored, "
               "which words were never assigned); Grammar.v reference parsers vs inet_pton on every parsed string",
    })
    chk.assumptions += [
        "glibc semantics of sscanf(\"%3hhu\") and snprintf/sprintf(\"%hhu\", \"%x\", \"%d\") as modelled in Ipv4Text.v/Ipv6Text.v (validated against the real functions on this run)",
        "strings are NUL-terminated byte strings (the model sees the bytes before the first NUL)",
        "gcc: buff[0] << 24 for buff[0] >= 128 yields the expected bit pattern (signed overflow in ipv4.c, UBSan shift-base off)",
        "round trip is promised for buffers of at least INET_ADDRSTRLEN / INET6_ADDRSTRLEN bytes (documented precondition of the API)",
    ]
    chk.trusted += ["platform inet_pton/inet_ntop (glibc) as the oracle for 'the platform parser'",
                    "MemorySanitizer / stack pre-fill as detectors of never-assigned result words"]
    if stats.get("to4_short_buffer_success_but_truncated"):
        chk.notes.append("observation (not counted as a violation: the API documents len >= INET_ADDRSTRLEN): lrtr_ipv4_addr_to_str returns 0 "
                         "with truncated text for shorter buffers (%d cases); see proposed_fixes/C19-ipv4-truncation.diff"
                         % stats["to4_short_buffer_success_but_truncated"])
    if variant4 == "fixed":
        chk.notes.append("Impl agrees with the model of the repaired lrtr_ipv4_addr_to_str (ipv4_to_str_fixed); theorem C19_bounds4_fixed applies")
    if variant == "fixed":
        chk.notes.append("Impl agrees with the model of the repaired parser (str_to_ipv6_fixed); theorems C19_deterministic_fixed / C19_fixed_agrees apply")
    # report: one violation per key, shrunk
    by_key = {}
    for f in findings:
        by_key.setdefault((f.kind, f.key), []).append(f)
    for (kind, key), fs in sorted(by_key.items(), key=lambda kv: str(kv[0])):
        f = fs[0]
        if key is not None and chk.classify(key) is not None:
            chk.violation({}, key=key)
            continue
        small = f.line
        try:
            if key != "tie:mixed-variants":
                small = shrink(f, model_exe, impls)
        except Exception as e:  # noqa: BLE001
            chk.notes.append("shrink failed: %r" % (e,))
        sf, _ = evaluate([small], model_exe, impls)
        det = next((x.detail for x in sf if x.key == key), f.detail)
        chk.violation({"kind": kind, "input": {"line": small, "original_line": f.line},
                       "detail": det, "count_in_this_run": len(fs),
                       "other_inputs": [x.line for x in fs[1:6]],
                       "proof": pr.broken,
                       "replay_cmd": "python3 tools/check.py C19 --replay <this file>"}, key=key)
    if not findings and not pr.ok:
        chk.proof_broken(pr, "%d lines through model, three builds of the real functions, inet_pton: all as specified" % total)
    elif not pr.ok:
        chk.notes.append("proof problems: %r" % (pr.problems,))


def replay(path):
    o = json.load(open(path))
    inp = o.get("input")
    if not inp:
        print("replay file names no input:", json.dumps(o.get("broken") or o.get("detail")))
        return 1
    model_exe = build_model()
    impls = build_impls()
    impls.pop("msan_error", None)
    line = inp["line"]
    print("op      :", line)
    mo, _ = run_exe(model_exe, [line])
    print("model   :", mo[0] if mo else "?")
    for name in sorted(impls):
        if name != "asan" and not line.startswith("from"):
            continue
        out, crash = run_exe(impls[name], [line], env=vlib.san_env())
        print("impl/%-5s: %s" % (name, out[0] if out else ("crash: " + (crash[2] if crash else "?"))))
    fs, _ = evaluate([line], model_exe, impls)
    for f in fs:
        print("FINDING kind=%s key=%s detail=%s" % (f.kind, f.key, json.dumps(f.detail, default=str)[:600]))
    return 1 if fs else 0
