"""C16 - concurrent readers and writers of the tables are linearizable and race-free.

Decided by: Coq theorems (Props/Properties_C16.v): race freedom of well-locked programs and linearizability of
one-critical-section operations for any number of threads / programs, and the lock-discipline check evaluated by
vm_compute on the lock skeletons that tools/c2v.py regenerates from trie-pfx.c / ht-spkitable.c on this run
(Gen/LockSkeletons.v).  Which side of the known finding the tree is on is evaluated here: when the full check is
true the theorem C16_instance is proved on the spot; when it is false the failing functions are reported.

Supporting, not the claim: harness/conc_stress.c under ThreadSanitizer (reader threads validate / look up /
enumerate while a writer runs a cyclic script; each result must be the Spec answer for a version inside the call)."""
import json
import os
import re
import time

import vlib

THEOREMS = ["C16_race_free", "C16_protected", "C16_unlocked_read_races", "C16_atomic_step", "C16_atomic", "C16_atomic_meaning", "C16_pfx_calls",
            "C16_translation_complete", "C16_lifecycle_balanced", "C16_instance_decided", "C16_instance_outside_known",
            "C16_admitted_is", "C16_instance_race_free", "C16_instance_all_iterations", "C16_one_section_per_operation", "C16_helpers_lock_free", "C16_readers_store_nothing"]

KEY_FOR_EACH = "for-each-root-read-before-lock"
KEY_SPKI_DIFF = "spki-notify-diff-unlocked-traversal"
FOR_EACH_FUNCS = ("pfx_table_for_each_ipv4_record", "pfx_table_for_each_ipv6_record", "pfx_table_copy_except_socket",
                  "pfx_table_notify_diff")
TRUSTED = [
    "pthread rwlocks implement the rules of Conc/RwLock.v (readers share, a writer excludes everybody)",
    "race-free executions are sequentially consistent on the hardware (C11 / POSIX memory model)",
    "tools/c2v.py skeleton extractor: which expressions are accesses to table state (LValueToRValue conversions / assignments of lvalues "
    "that designate tbl->{ipv4,ipv6,hashtable,list,cmp_fp} or memory reached through pointers loaded from them), inlining of same-file "
    "callees and callbacks, constant propagation of flags through callback-argument structs",
    "R/W classification table HELPER_RW of tools/c2v.py (trie_*, tommy_*, static node helpers of trie-pfx.c); update_fp and lock are not table state",
    "callbacks (update_fp, for_each fp) do not touch table memory except through the public functions",
    "TSan runs sample schedules; they are supporting evidence and the source of replays, not the claim",
]


# ---------------------------------------------------------------------------
# the instance, evaluated on the skeletons of this run
# ---------------------------------------------------------------------------
def instance_status():
    body = ("From Coq Require Import List String.\n"
            "From RtrV Require Import Conc.RwLock Gen.LockSkeletons Conc.LockCheck.\n"
            "Eval vm_compute in (paths_check (fun _ => no_tol), progs_check (fun _ => no_tol)).\n"
            "Eval vm_compute in failing_paths.\nEval vm_compute in failing_progs.\nEval vm_compute in skeleton_problems.\n"
            "Eval vm_compute in map (fun f => (f, find (fun p => negb (well_locked p)) (paths_of f))) failing_paths.\n")
    rc, out = vlib.coq_eval("C16_status", body, timeout=300)
    st = {"rc": rc, "raw": out[-4000:], "full": None, "failing": [], "problems": [], "witness": ""}
    if rc != 0:
        return st
    parts = re.split(r"\n\s*= ", "\n" + out)
    vals = [p.split("\n     : ")[0] for p in parts[1:]]
    if len(vals) >= 4:
        st["full"] = "false" not in vals[0]
        names = lambda t: re.findall(r'"([^"]+)"', t)  # noqa: E731
        st["failing"] = sorted(set(names(vals[1]) + names(vals[2])))
        st["problems"] = names(vals[3])
        st["witness"] = " ".join(vals[4].split())[:3000] if len(vals) > 4 else ""
    return st


def prove_full_instance():
    body = ("From Coq Require Import List String.\n"
            "From RtrV Require Import Conc.RwLock Gen.LockSkeletons Conc.LockCheck.\n"
            "Theorem C16_instance : paths_check (fun _ => no_tol) = true /\\ progs_check (fun _ => no_tol) = true.\n"
            "Proof. split; vm_compute; reflexivity. Qed.\nPrint Assumptions C16_instance.\n")
    rc, out = vlib.coq_eval("C16_instance", body, timeout=300)
    return rc == 0 and "Closed under the global context" in out, out[-800:]


def key_of_function(f):
    base = f.split("@")[0]
    if base in FOR_EACH_FUNCS:
        return KEY_FOR_EACH
    if base == "spki_table_notify_diff":
        return KEY_SPKI_DIFF
    return "lock-discipline:" + base


# ---------------------------------------------------------------------------
# stress harness
# ---------------------------------------------------------------------------
def gen_script(rnd, nops=70, root_toggle=True, big_keys=False):
    """A cyclic writer script (ends where it starts: both tables empty) and a query set aimed at it."""
    def bits(n, fam):
        w = 32 if fam == "4" else 128
        return "".join(rnd.choice("01") for _ in range(n)) + "0" * (w - n)
    pool = []
    for _ in range(10):
        fam = rnd.choice("446")
        ln = rnd.randint(0, 24)
        pool.append((fam, bits(ln, fam), ln, min(32 if fam == "4" else 128, ln + rnd.randint(0, 8)), rnd.randint(1, 5), rnd.randint(1, 2)))
    base = bits(8, "4")
    for ln in (8, 12, 16, 20):                 # a nested chain: pull-ups on removal
        pool.append(("4", base[:ln] + "0" * (32 - ln), ln, 24, rnd.randint(1, 5), 1))
    pool.append(("4", base[:16] + "0" * 16, 16, 24, 7, 2))   # same prefix, other source
    kpool = [(rnd.randint(1, 4), rnd.randint(1, 6), rnd.randint(1, 2)) for _ in range(8)]
    if big_keys:
        # enough router keys for the hash table to cross its growth steps (32, 64, 128) while readers look keys up
        kpool = [(rnd.randint(1, 60), rnd.randint(1, 6), rnd.randint(1, 2)) for _ in range(170)]
    kpool = list(dict.fromkeys(kpool))
    live, keys, ops = [], [], []
    fmt = lambda k, r: "op %s%s %s %d %d %d %d" % ((k, r[0]) + r[1:])  # noqa: E731
    for _ in range(nops):
        x = rnd.random()
        if root_toggle and x < 0.12 and not any(r[0] == "6" for r in live):
            # the first IPv6 record appears and disappears again: writes pfx_table->ipv6
            c = [r for r in pool if r[0] == "6"]
            if c:
                r = rnd.choice(c)
                ops += [fmt("a", r), fmt("r", r)]
            continue
        if x < 0.4 and rnd.random() < 0.2 and (live or keys):
            # removal by source: several records of one source go in one call (nodes emptied and pulled up inside)
            srcid = rnd.choice([1, 2])
            if rnd.random() < 0.7 or not keys:
                live = [r for r in live if r[5] != srcid]
                ops.append("op sp %d" % srcid)
            else:
                keys = [k for k in keys if k[2] != srcid]
                ops.append("op sk %d" % srcid)
            continue
        if x < (0.4 if not big_keys else 0.1):
            c = [r for r in pool if r not in live]
            if c:
                r = rnd.choice(c)
                live.append(r)
                ops.append(fmt("a", r))
        elif x < (0.7 if not big_keys else 0.15):
            if live:
                r = rnd.choice(live)
                live.remove(r)
                ops.append(fmt("r", r))
        elif x < 0.85 or (big_keys and len(keys) < 140 and x < 0.97):
            c = [k for k in kpool if k not in keys]
            if c:
                k = rnd.choice(c)
                keys.append(k)
                ops.append("op ka %d %d %d" % k)
        elif keys:
            k = rnd.choice(keys)
            keys.remove(k)
            ops.append("op kr %d %d %d" % k)
    while live:
        ops.append(fmt("r", live.pop(rnd.randrange(len(live)))))
    while keys:
        ops.append("op kr %d %d %d" % keys.pop())
    qs = []
    for fam, b, ln, mx, asn, src in pool:
        w = 32 if fam == "4" else 128
        ql = min(w, ln + rnd.randint(0, 6))
        qb = b[:ln] + "".join(rnd.choice("01") for _ in range(ql - ln)) + "0" * (w - ql)
        qs.append("q %s %s %d %d" % (fam, qb, ql, rnd.choice([asn, asn, rnd.randint(1, 5)])))
    for k in kpool[:6] + (kpool[40:46] + kpool[100:104] if big_keys else []):
        qs.append("k %d %d" % (k[0], k[1]))
    return ops, qs


def corpus_scripts():
    d = os.path.join(vlib.VERIF, "corpus", "C16")
    res = []
    if os.path.isdir(d):
        for f in sorted(os.listdir(d)):
            if f.endswith(".txt"):
                lines = [l.rstrip("\n") for l in open(os.path.join(d, f)) if l.strip() and not l.startswith("#")]
                res.append((f, [l for l in lines if l.startswith("op ")], [l for l in lines if l[:2] in ("q ", "k ")]))
    return res


def tsan_env():
    e = dict(os.environ)
    e["TSAN_OPTIONS"] = "exitcode=66:halt_on_error=0:report_signal_unsafe=0:second_deadlock_stack=0"
    return e


def stress_exe():
    return vlib.build_harness("conc_stress_tsan", os.path.join(vlib.VERIF, "harness", "conc_stress.c"), san="tsan", opt="-O1")


def run_stress(ops, qs, readers, ms, seed, enum, diff, timeout=None):
    text = "\n".join(ops + qs + ["run %d %d %d %d %d" % (readers, ms, seed, int(enum), int(diff))]) + "\n"
    rc, out = vlib.sh([stress_exe()], input=text, env=tsan_env(), timeout=timeout or (ms / 1000.0 * 6 + 120))
    res = {"rc": rc, "done": None, "mismatch": [], "seq_mismatch": [], "reports": [], "abort": None, "input": text}
    for line in out.split("\n"):
        if line.startswith("DONE "):
            res["done"] = dict((k, int(v)) for k, v in (x.split("=") for x in line.split()[1:]))
        elif line.startswith("MISMATCH"):
            res["mismatch"].append(line)
        elif line.startswith("SEQ-MISMATCH") or line.startswith("ERROR"):
            res["seq_mismatch"].append(line)
        elif "Assertion" in line and "failed" in line:
            res["abort"] = line.strip()
    for rep in re.split(r"={18}\n", out):
        if "WARNING: ThreadSanitizer" in rep:
            kind = re.search(r"WARNING: ThreadSanitizer: ([^\n(]+)", rep).group(1).strip()
            frames = re.findall(r"#\d+ (\w+) ", rep)
            res["reports"].append({"kind": kind, "functions": [f for f in dict.fromkeys(frames) if not f.startswith("pthread")][:8],
                                   "text": rep[:1800]})
    if rc not in (0, 66) and res["abort"] is None and res["done"] is None:
        res["abort"] = "exit code %s: %s" % (rc, out[-400:])
    return res


def classify_report(rep):
    fs = rep["functions"]
    if any(f in ("pfx_table_for_each_ipv4_record", "pfx_table_for_each_ipv6_record", "pfx_table_for_each_rec") for f in fs):
        return KEY_FOR_EACH
    if "spki_table_notify_diff" in fs or "differ" in fs:
        return KEY_SPKI_DIFF
    return "tsan:" + "/".join(fs[:2])


def classify_abort(text):
    if "pfx_table_for_each" in text:
        return KEY_FOR_EACH
    if "spki_table_notify_diff" in text:
        return KEY_SPKI_DIFF
    return "crash"


def run(chk):
    rnd = vlib.rng(16)
    pr = vlib.check_proofs("C16", THEOREMS)
    chk.proof = pr
    chk.trusted += TRUSTED
    chk.assumptions += ["the tables are used only through the public functions; distinct table parameters of one call denote distinct tables",
                        "lifecycle functions (init / free*) are called by a thread that owns the table exclusively",
                        "version stamps in conc_stress.c are relaxed atomics; their validity as call/return stamps relies on x86-TSO"]
    st = instance_status()
    full_proved = None
    if st["full"] is True:
        full_proved, txt = prove_full_instance()
        chk.notes.append("full lock-discipline check is TRUE on this tree; theorem C16_instance proved now: %s" % full_proved)
        if not full_proved:
            chk.violation({"kind": "instance-theorem", "detail": txt}, no_input=True, tag="%s-instance" % vlib.seed())
    elif st["full"] is False:
        chk.notes.append("full lock-discipline check is FALSE: failing functions %s" % st["failing"])
        bykey = {}
        for f in st["failing"]:
            bykey.setdefault(key_of_function(f), []).append(f)
        for key, fs in sorted(bykey.items()):
            chk.violation({"kind": "lock-discipline (translator skeleton + Coq checker)", "functions": fs,
                           "what": "a path of these functions touches table state outside the critical section that guards it",
                           "witness_paths": st["witness"], "theorem": "C16_instance_decided : ~ C16_full on this tree",
                           "replay_cmd": "python3 tools/check.py C16 --replay <this file>"}, key=key, tag="%s-skel-%s" % (vlib.seed(), key.replace(":", "_")))
    else:
        chk.notes.append("instance status could not be evaluated: " + st["raw"][-400:])
    if st["problems"]:
        chk.violation({"kind": "translator", "problems": st["problems"]}, no_input=True, tag="%s-translator" % vlib.seed())

    # ---- stress (supporting) ----
    quick = chk.tier == "quick"
    readers = 4 if quick else min(12, max(4, vlib.NCPU - 2))
    plan = []        # (name, ops, qs, ms, enum, diff)
    for name, ops, qs in corpus_scripts():
        plan.append(("corpus/" + name, ops, qs, 2500 if quick else 15000, True, False))
    nscripts = 2 if quick else 8
    for i in range(nscripts):
        ops, qs = gen_script(rnd, nops=rnd.randint(50, 90))
        plan.append(("gen%d/no-enum" % i, ops, qs, 9000 if quick else 40000, False, False))
        plan.append(("gen%d/enum" % i, ops, qs, 4000 if quick else 20000, True, False))
    ops, qs = gen_script(rnd, nops=60)
    plan.append(("notify-diff", ops, qs, 4000 if quick else 20000, False, True))
    ops, qs = gen_script(rnd, nops=420, big_keys=True)
    plan.append(("big-key-table", ops, qs, 6000 if quick else 30000, False, False))
    totals = {"validate": 0, "get_all": 0, "search_by_ski": 0, "enumerate": 0, "writer_ops": 0, "overlapped": 0, "diff_calls": 0,
              "unchecked_wide_windows": 0}
    runs, findings = [], {}
    for name, ops, qs, ms, enum, diff in plan:
        r = run_stress(ops, qs, readers, ms, vlib.seed() + len(runs), enum, diff)
        summary = {"run": name, "ms": ms, "readers": readers, "done": r["done"], "tsan_reports": len(r["reports"]), "abort": r["abort"],
                   "mismatches": len(r["mismatch"])}
        runs.append(summary)
        if r["done"]:
            for k in totals:
                totals[k] += r["done"].get(k, 0)
        bad = []
        for rep in r["reports"]:
            bad.append((classify_report(rep), {"tsan": rep["kind"], "functions": rep["functions"], "report": rep["text"]}))
        if r["abort"]:
            bad.append((classify_abort(r["abort"]), {"abort": r["abort"]}))
        for m in r["mismatch"][:3]:
            bad.append(("not-linearizable", {"mismatch": m}))
        for m in r["seq_mismatch"][:3]:
            bad.append(("sequential-mismatch", {"mismatch": m}))
        for key, what in bad:
            if key not in findings:
                findings[key] = {"kind": "stress (ThreadSanitizer / linearizability window)", "run": name, "observed": what,
                                 "script": r["input"].split("\n"),
                                 "replay_cmd": "python3 tools/check.py C16 --replay <this file>"}
    for key, obj in sorted(findings.items()):
        chk.violation(obj, key=key, tag="%s-stress-%s" % (vlib.seed(), re.sub(r"\W+", "_", key)[:40]))
    ops_total = totals["validate"] + totals["get_all"] + totals["search_by_ski"] + totals["enumerate"]
    chk.cov.update({
        "evaluations": ops_total, "distinct_nontrivial": sum(len(p[1]) * len(p[2]) for p in plan),
        "rule": "one evaluation = one reader operation (validate_r / get_all / search_by_ski / for_each) completed on the real tables under TSan "
                "while the writer thread ran (how many complete depends on the machine and its load).  non-trivial = distinct "
                "(writer operation, reader query) pairs of the scripts that were run - a count that does not depend on the schedule; "
                "how many reader operations actually overlapped a complete writer operation in this run is stress_totals.overlapped.  "
                "Distinct interleavings cannot be counted; schedules are whatever the OS produced during the stated run times.",
        "samples": runs[:8], "stress_totals": totals, "readers": readers,
        "instance": {"full_check": st["full"], "failing_functions": st["failing"], "C16_instance_proved_now": full_proved,
                     "translator_problems": st["problems"]},
        "tie": "(a) translator: lock skeletons regenerated into Gen/LockSkeletons.v, instance theorems re-checked by the Coq build; "
               "(b) supporting: conc_stress.c on /repo's tables under TSan",
        "input_distribution": {"scripts": len(plan), "script_ops": [len(p[1]) for p in plan], "queries": [len(p[2]) for p in plan]},
    })
    if not pr.ok and not chk.violations:
        chk.proof_broken(pr, "stress runs under TSan: %d reader operations, no report" % ops_total)
    elif not pr.ok:
        chk.proof_broken(pr, "see also the other replays of this run")


def replay(path):
    o = json.load(open(path))
    if o.get("script"):
        lines = [l for l in o["script"] if l.strip()]
        ops = [l for l in lines if l.startswith("op ")]
        qs = [l for l in lines if l[:2] in ("q ", "k ")]
        runl = [l for l in lines if l.startswith("run ")][0].split()
        bad = 0
        for attempt in range(3):
            r = run_stress(ops, qs, int(runl[1]), max(3000, int(runl[2])), int(runl[3]) + attempt, int(runl[4]), int(runl[5]))
            print("attempt %d: done=%s tsan_reports=%d abort=%s mismatches=%d" % (attempt, r["done"], len(r["reports"]), r["abort"], len(r["mismatch"])))
            for rep in r["reports"][:2]:
                print(rep["text"])
            bad += bool(r["reports"] or r["abort"] or r["mismatch"])
            if bad:
                break
        return 1 if bad else 0
    if o.get("functions"):
        st = instance_status()
        print("full check:", st["full"], "failing:", st["failing"])
        print(st["witness"])
        return 1 if any(f in st["failing"] for f in o["functions"]) else 0
    print("replay file names no input:", json.dumps(o.get("broken") or o.get("detail"))[:2000])
    return 1
