"""Shared helpers of the C07 / C08 checks: plan-driven conversations with the model in the loop, a virtual-clock
reconstruction of an Impl trace (replaying what the mock transport consumed from the script), callback replay,
and the runner (Impl vs Model trace equality = the tie; oracle on the Impl trace = the property)."""
import copy
import json
import os
import struct
import time

import rtrsim as R
import vlib


# ---------------------------------------------------------------------------
# annotate a trace with the virtual time at which each line was printed
# ---------------------------------------------------------------------------
class ClockError(Exception):
    pass


def annotate(lines, script):
    """Returns a list of dicts {i, line, t (clock after the line), consumed: [events fully consumed by a RECV]}.
    Re-plays the mock's m_recv on the script's events, guided by the RECV lines of the trace."""
    evs = [list(e) for e in script.evs if not (e[0] == "data" and len(e[1]) == 0)]
    iev, off = 0, 0
    t = 1000
    out = []
    for i, l in enumerate(lines):
        w = l.split()
        info = {"i": i, "line": l, "kind": w[0] if w else "", "consumed": []}
        if not w:
            out.append(dict(info, t=t))
            continue
        if w[0] == "SLEEP":
            t += int(w[1])
        elif w[0] == "RECV":
            timeout = int(w[1].split("=")[1])
            res = w[3]
            left = max(0, timeout)
            while True:
                if iev >= len(evs):
                    raise ClockError("trace line %d reads past the script: %s" % (i, l))
                e = evs[iev]
                if e[0] == "wait":
                    v = int(e[1])
                    if v <= left:
                        t += v
                        left -= v
                        iev += 1
                        info["consumed"].append(("wait", v))
                        continue
                    e[1] = v - left
                    t += left
                    info["touched_wait"] = True
                    if res != "WOULDBLOCK":
                        raise ClockError("line %d: expected WOULDBLOCK, trace says %s" % (i, l))
                    break
                if e[0] == "err":
                    iev += 1
                    info["consumed"].append(("err", int(e[1])))
                    if res != "ERR":
                        raise ClockError("line %d: expected ERR, trace says %s" % (i, l))
                    break
                if e[0] == "stop":
                    iev += 1
                    info["consumed"].append(("stop",))
                    if res != "STOP":
                        raise ClockError("line %d: expected STOP, trace says %s" % (i, l))
                    break
                # data
                try:
                    n = int(res)
                except ValueError:
                    raise ClockError("line %d: data available but trace says %s" % (i, l))
                if n > len(e[1]) - off or n <= 0:
                    raise ClockError("line %d: %d bytes reported, %d available" % (i, n, len(e[1]) - off))
                info["bytes"] = e[1][off:off + n]
                off += n
                if off == len(e[1]):
                    iev += 1
                    off = 0
                break
            if res == "WOULDBLOCK":
                tt = int(w[4].split("=")[1])
                if tt != t:
                    raise ClockError("line %d: clock %d, trace says %d" % (i, t, tt))
        elif w[0] == "OPEN":
            tt = int(w[2].split("=")[1])
            if tt != t:
                raise ClockError("line %d: clock %d, OPEN says %d" % (i, t, tt))
        elif w[0] == "DUMP":
            f = dict(x.split("=", 1) for x in w[2:])
            if int(f["t"]) != t:
                raise ClockError("line %d: clock %d, DUMP says %s" % (i, t, f["t"]))
        info["t"] = t
        out.append(info)
    return out


def own(rec):
    """Is a REC / callback record string one of source 1?"""
    return rec.rsplit(":", 1)[1] == "1"


def cache_records(cache_final):
    """The cache's data set rendered like the harness renders records of source 1."""
    out = set()
    for kind, it in cache_final["data"]:
        if kind == "p":
            fam, bits, ln, mx, asn = it
            out.add("%s:%s/%d-%d:%d:1" % (fam, bits, ln, mx, asn))
        else:
            asn, kid = it
            ski, spki = R.kid_to_key(kid)
            out.add("K:%d:%s:%s:1" % (asn, ski.hex(), spki.hex()))
    return out


# ---------------------------------------------------------------------------
# plan-driven conversation (model in the loop)
# ---------------------------------------------------------------------------
def malform(rnd, pdu, how):
    p = bytearray(pdu)
    if how == "len_small":
        p[4:8] = struct.pack(">I", rnd.randint(0, 7))
    elif how == "len_big":
        p[4:8] = struct.pack(">I", rnd.choice([3249, 70000, 2 ** 32 - 1]))
    elif how == "len_type":
        ln = struct.unpack(">I", bytes(p[4:8]))[0] + rnd.choice([-1, 1, 4])
        p[4:8] = struct.pack(">I", max(8, ln))
        p = p[:max(8, ln)] + bytearray(max(0, ln - len(p)))
    elif how == "type":
        p[1] = rnd.choice([5, 11, 255])
    elif how == "version":
        p[0] = rnd.choice([2, 255]) if p[0] in (0, 1) else 0
    elif how == "flags" and len(p) > 8 and p[1] in (4, 6, 9):
        p[2 if p[1] == 9 else 8] = rnd.choice([2, 255])
    elif how == "plen" and p[1] in (4, 6):
        p[9] = rnd.choice([33, 129, 200, 255]) if p[1] == 4 else rnd.choice([129, 200, 255])
        p[10] = 255
    else:
        p[1] = 11
    return bytes(p)


class Conv:
    """Grows a script step by step; the client's position is read from the extracted model's trace."""

    def __init__(self, rnd, cfg, ver=1, ivals=None, npre=2, chunk=None, nopens=60):
        self.rnd = rnd
        self.s = R.Script(refresh=cfg[0], expire=cfg[1], retry=cfg[2], mode=cfg[3])
        self.cache = R.Cache(rnd, ver=ver)
        self.cache.ivals = ivals or (cfg[0], cfg[2], cfg[1])      # (refresh, retry, expire) as the EOD carries them
        self.s.opens = [True] * nopens
        self.chunk = chunk
        self.steps = []
        self.answered = 0          # number of the client's queries the cache has reacted to (truthfully or not)
        self.ok = True
        self.why = None
        for _ in range(npre):
            it = rnd.choice(self.cache.pool)
            src = rnd.randint(2, 3)
            line = ("pre pfx %s %s %d %d %d %d" % (it[1] + (src,))) if it[0] == "p" else ("pre key %d %d %d" % (it[1] + (src,)))
            if line not in self.s.pre:
                self.s.pre.append(line)
        self._trace = None

    # -- where is the client ------------------------------------------------
    def model_trace(self):
        rc, tr = _retry(lambda: R.run_model(self.s.lines()))
        self._trace = tr
        return tr

    def scan(self):
        """(state, last complete query PDU of the current connection, number of complete queries sent so far).
        Consecutive SEND lines are one byte stream (a transport that accepts a few bytes at a time)."""
        state, last_q, nq = None, None, 0
        buf = b""

        def flush():
            nonlocal buf, last_q, nq
            if buf:
                ps, _, _ = R.parse_pdus(buf)
                for p in ps:
                    if p["type"] in (R.SERIAL_QUERY, R.RESET_QUERY):
                        last_q = p
                        nq += 1
                buf = b""
        for l in self._trace:
            w = l.split()
            if not w:
                continue
            if w[0] == "SEND":
                buf += bytes.fromhex(w[1]) if len(w) > 1 else b""
                continue
            flush()
            if w[0] == "STATE":
                state = int(w[1])
            elif w[0] == "OPEN":
                last_q = None
        flush()
        return state, last_q, nq

    def position(self):
        """(state, pending query or None, END line).  A query is pending only until the cache has reacted to it:
        a client that sits in SYNC after a broken answer is waiting for bytes that a correct cache never sends."""
        lm = getattr(self, "_last_mark", 0)
        if lm < len(self.s.evs):
            self.drop_in_flight(lm)        # what was still in flight when the client closed the connection is lost
        self._last_mark = len(self.s.evs)
        tr = self.model_trace()
        if not tr:
            return None, None, "no-trace"
        end = next((l for l in tr if l.startswith("END ")), None)
        state, q, self.nq = self.scan()
        if self.nq <= self.answered:
            q = None
        return state, q, end

    def mark(self):
        return len(self.s.evs)

    def drop_in_flight(self, mark):
        """A connection that the client closes takes the bytes still in flight with it: cut the data delivered since
        `mark` down to what the client had read when it first closed the transport (the mock transport is one stream
        across connections, a real one is not)."""
        tr = self.model_trace()
        try:
            ann = annotate([l for l in tr if l.split() and l.split()[0] not in ("INIT",)], self.s)
        except ClockError:
            return
        before = sum(len(e[1]) for e in self.s.evs[:mark] if e[0] == "data")
        total = sum(len(e[1]) for e in self.s.evs[mark:] if e[0] == "data")
        if any(e[0] != "data" for e in self.s.evs[mark:]) or total == 0:
            return
        got = 0
        cut_at = None
        for a in ann:
            if "bytes" in a:
                got += len(a["bytes"])
            elif a["kind"] == "CLOSE" and got > before:
                cut_at = got - before
                break
        if cut_at is None or cut_at >= total:
            return
        data = b"".join(e[1] for e in self.s.evs[mark:])[:cut_at]
        del self.s.evs[mark:]
        self.deliver(data)
        self.steps.append("in-flight-dropped:%d" % (total - cut_at))

    def reacted(self):
        self.answered = max(self.answered, getattr(self, "nq", 0))

    def opens_used(self):
        return sum(1 for l in self._trace if l.startswith("OPEN"))

    def deliver(self, b):
        if not b:
            return
        if self.chunk is None:
            self.s.data(b)
        elif self.chunk == "rand":
            i = 0
            while i < len(b):
                n = self.rnd.randint(1, 40)
                self.s.data(b[i:i + n])
                i += n
        else:
            self.s.data(b, self.chunk)

    # -- steps ---------------------------------------------------------------
    def fail(self, why):
        self.ok = False
        self.why = why
        return False

    def need(self, want_state):
        state, q, end = self.position()
        if end is None or "recv" not in end:
            return self.fail("client not parked in a receive (%s)" % end), None
        if q is not None and q["ver"] in (0, 1) and q["ver"] < self.cache.ver:
            self.cache.ver = q["ver"]      # RFC 8210 section 7: the cache answers in the version of the query
        if want_state == "sync" and not (state == 3 and q is not None):
            return self.fail("expected SYNC with a pending query, state=%s" % state), None
        if want_state == "established" and state != 1:
            return self.fail("expected ESTABLISHED, state=%s" % state), None
        return True, q

    def answer(self):
        ok, q = self.need("sync")
        if not ok:
            return False
        self.deliver(b"".join(self.cache.answer(q)))
        self.reacted()
        self.steps.append("truthful:" + R.PDU_NAMES[q["type"]])
        return True

    def cache_reset(self):
        ok, q = self.need("sync")
        if not ok:
            return False
        self.deliver(R.cache_reset(self.cache.ver))
        self.reacted()
        self.steps.append("cache-reset")
        return True

    def cut(self, k, how, partial=False):
        """Deliver the first k PDUs of the truthful answer (k counted from 0 = nothing), then a fault."""
        ok, q = self.need("sync")
        if not ok:
            return False
        pdus = self.cache.answer(q)
        k = min(k, len(pdus) - 1)
        b = b"".join(pdus[:k])
        if partial and k < len(pdus) and how in ("err", "close", "timeout", "stop", "intr"):
            # a truncated PDU, then a transport fault (never followed by more bytes: that would re-frame the stream)
            b += pdus[k][:self.rnd.randint(1, len(pdus[k]) - 1)]
        else:
            partial = False
        self.deliver(b)
        if how == "err":
            self.s.err(1)
        elif how == "close":
            self.s.err(4)
        elif how == "intr":
            self.s.err(3)               # the receive call is interrupted (TR_INTR): the exchange is given up, the connection is not
        elif how == "timeout":
            self.s.wait(61)
        elif how == "stop":
            self.s.stop()
        elif how.startswith("mal:"):
            self.deliver(malform(self.rnd, pdus[k], how[4:]))
        elif how == "unexpected":
            self.deliver(R.hdr(self.cache.ver, R.RESET_QUERY, 0, 8))
        self.reacted()
        self.steps.append("cut@%d/%d:%s%s" % (k, len(pdus), how, "+partial" if partial else ""))
        return True

    def notify_after(self, x):
        ok, _ = self.need("established")
        if not ok:
            return False
        if x > 0:
            self.s.wait(x)
        self.deliver(R.serial_notify(self.cache.ver, self.cache.session, self.cache.serial))
        self.steps.append("notify+%d" % x)
        return True

    def refresh(self, extra=1):
        ok, _ = self.need("established")
        if not ok:
            return False
        self.s.wait(self.s.cfg[0] + extra)
        self.steps.append("refresh-timeout")
        return True

    def fail_opens(self, n):
        self.model_trace()
        u = self.opens_used()
        while len(self.s.opens) < u + n + 10:
            self.s.opens.append(True)
        for i in range(u, u + n):
            self.s.opens[i] = False
        self.steps.append("open-fail*%d" % n)
        return True

    def stop(self):
        self.s.stop()
        self.steps.append("stop")
        return True

    def wait(self, d):
        self.s.wait(d)
        self.steps.append("wait%d" % d)
        return True

    def meta(self):
        c = self.cache
        return {"exchanges": list(self.steps),
                "cache_final": {"session": c.session, "serial": c.serial, "data": list(c.data), "ver": c.ver}}


# ---------------------------------------------------------------------------
# run one script on Impl and Model
# ---------------------------------------------------------------------------
def _retry(fn, tries=8):
    """vlib.build_harness / build_model link straight onto the final path: while another check (another process) relinks the
    shared binary it is briefly not executable (EACCES / ETXTBSY).  Retry instead of reporting an internal error."""
    for k in range(tries):
        try:
            return fn()
        except OSError:
            if k == tries - 1:
                raise
            time.sleep(0.5 + k)


def run_pair(script, impl_timeout=30):
    lines = script.lines()
    t0 = time.time()
    rc, a = _retry(lambda: R.run_impl(lines, timeout=impl_timeout))
    wall = time.time() - t0
    rc2, b = _retry(lambda: R.run_model(lines))
    return {"lines": lines, "impl_rc": rc, "impl": a, "model": b, "impl_wall": wall,
            "hung": rc == 124 or any("[timeout after" in x for x in a[-2:])}


def shrink(script, failing, budget=50):
    if hasattr(R, "shrink_script"):
        return R.shrink_script(script, failing, budget=budget)
    cur = copy.deepcopy(script)
    runs = 0
    chunk = max(1, len(cur.evs) // 2)
    while chunk >= 1 and runs < budget:
        i = 0
        progressed = False
        while i < len(cur.evs) and runs < budget:
            cand = copy.deepcopy(cur)
            del cand.evs[i:i + chunk]
            runs += 1
            if failing(cand):
                cur = cand
                progressed = True
            else:
                i += chunk
        if not progressed:
            chunk //= 2
    return cur


def script_from_lines(lines):
    if hasattr(R.Script, "from_lines"):
        return R.Script.from_lines(lines)
    s = R.Script()
    for l in lines:
        w = l.split()
        if not w:
            continue
        if w[0] == "cfg":
            s.cfg = tuple(int(x) for x in w[1:5])
        elif w[0] == "pre":
            s.pre.append(l.strip())
        elif w[0] == "open":
            s.opens += [x != "0" for x in w[1:]]
        elif w[0] == "send":
            s.sends += w[1:]
        elif w[0] == "ev":
            if w[1] == "data":
                s.evs.append(("data", bytes.fromhex(w[2]) if len(w) > 2 else b""))
            elif w[1] == "stop":
                s.evs.append(("stop",))
            else:
                s.evs.append((w[1], int(w[2])))
    return s


def corpus_scripts(pid):
    cdir = os.path.join(vlib.VERIF, "corpus", pid)
    out = []
    if os.path.isdir(cdir):
        for f in sorted(os.listdir(cdir)):
            if f.endswith(".txt"):
                lines = [x.rstrip("\n") for x in open(os.path.join(cdir, f)) if x.strip() and not x.startswith("#")]
                meta = {"exchanges": ["corpus:" + f], "cache_final": None}
                mf = os.path.join(cdir, f[:-4] + ".meta.json")
                if os.path.exists(mf):
                    meta.update(json.load(open(mf)))
                    meta["exchanges"] = ["corpus:" + f]
                out.append((script_from_lines(lines), meta))
    return out
