"""C11 - A BGPsec path is VALID only if every hop's signature verifies under its AS's key.

Decided by: Coq theorems (Props/Properties_C11.v) over the model Bgpsec/Align.v + Validate.v:
C11_size, C11_layout, C11_inj(_hop), C11_decision(_exact), C11_outside_known, C11_codes,
C11_bitflip, and the refutation C11_refuted of the full statement (key lookup by SKI only).

Tie (Model vs Impl): the extracted model and harness/bgpsec_ops.c (the real library, real
OpenSSL, ASan+UBSan) run on the same generated updates and tables; compared: req_stream_size,
the aligned bytes, the bytes hashed in every iteration of the validation loop (captured by a
link-time wrap of hash_byte_sequence), and the return code (the model's ecdsa_verify is an
oracle filled with OpenSSL's verdicts).

Oracle (Spec vs Impl): paths are signed by an *independent* signer - the extracted RFC 8205
digest_for_hop (DigestSpec.v) + EVP_DigestSign, never the library - and the library must (a) hash
exactly the spec octets for every hop, (b) answer VALID, (c) answer not-VALID for single-bit
flips of every signed field, (d) give the specific codes, (e) refuse a key registered under
another AS.  (e) fails on the tree as it stood: finding key "ski-only-lookup".

Two models are proved: Validate.validate (keys by SKI only: /repo as it stood) and
Validate.validate_fixed (after proposed_fixes/C11-ski-only-lookup.diff; C11_full_after_fix).
detect_variant() finds out on every run which of the two /repo's key selection matches; all
Model-vs-Impl comparisons then use that model and the evidence names it.
"""
import hashlib
import json
import os
import shutil
import subprocess
import tempfile
import time

import vlib

THEOREMS = ["C11_size", "C11_layout", "C11_inj", "C11_inj_hop", "C11_refuted", "C11_decision",
            "C11_outside_known", "C11_decision_exact", "C11_codes", "C11_bitflip",
            "C11_full_after_fix", "C11_codes_after_fix"]
CORPUS = os.path.join(vlib.VERIF, "corpus", "C11")
FINDING_KEY = "ski-only-lookup"

CODES = {"NOT_VALID": 2, "VALID": 1, "SUCCESS": 0, "ERROR": -1, "LOAD_PUB_KEY_ERROR": -2,
         "LOAD_PRIV_KEY_ERROR": -3, "ROUTER_KEY_NOT_FOUND": -4, "SIGNING_ERROR": -5,
         "UNSUPPORTED_ALGORITHM_SUITE": -6, "UNSUPPORTED_AFI": -7, "WRONG_SEGMENT_COUNT": -8,
         "INVALID_ARGUMENTS": -9}


# ---------------------------------------------------------------------------------------------
# building the two executables
# ---------------------------------------------------------------------------------------------
def build_harness():
    return vlib.build_harness("bgpsec_ops", os.path.join(vlib.VERIF, "harness", "bgpsec_ops.c"),
                              wraps=("hash_byte_sequence", "lrtr_dbg", "ECDSA_sign"), san="asan", bgpsec=True)


def build_model():
    ok, out = vlib.coq_make(["theories/Extract/Extract_C11.vo"], timeout=1200)
    if not ok:
        raise vlib.BuildError("extraction (Extract_C11.v) failed:\n" + out[-3000:])
    srcs = [os.path.join(vlib.COQ, "c11_model.ml"), os.path.join(vlib.COQ, "c11_model.mli"),
            os.path.join(vlib.VERIF, "ocaml", "c11_driver.ml")]
    h = hashlib.sha1()
    for s in srcs:
        with open(s, "rb") as f:
            h.update(f.read())
    odir = os.path.join(vlib.BUILD, "ocaml_c11")
    os.makedirs(odir, exist_ok=True)
    exe = os.path.join(vlib.BUILD, "bin", "c11_model")
    stamp = os.path.join(odir, "stamp")
    if os.path.exists(exe) and os.path.exists(stamp) and open(stamp).read() == h.hexdigest():
        return exe
    for s in srcs:
        shutil.copy(s, odir)
    os.makedirs(os.path.dirname(exe), exist_ok=True)
    rc, out = vlib.sh(["ocamlfind", "ocamlopt", "-O3", "-w", "-a", "-o", exe, "c11_model.mli", "c11_model.ml",
                       "c11_driver.ml"], cwd=odir, timeout=600)
    if rc != 0:
        raise vlib.BuildError("ocaml build of c11_driver failed:\n" + out[-3000:])
    with open(stamp, "w") as f:
        f.write(h.hexdigest())
    return exe


class Crash(Exception):
    def __init__(self, sent, log):
        Exception.__init__(self, "process died")
        self.sent = sent
        self.log = log


class Proc:
    """A line-oriented coprocess: every line sent produces exactly one line back."""

    def __init__(self, exe, env=None):
        self.exe = exe
        self.env = env
        self.errf = tempfile.TemporaryFile(mode="w+", dir=vlib.BUILD)
        self.p = subprocess.Popen([exe], stdin=subprocess.PIPE, stdout=subprocess.PIPE, stderr=self.errf,
                                  universal_newlines=True, bufsize=1, env=env)
        self.history = []

    def ask(self, lines):
        out = []
        lines = list(lines)
        for i in range(0, len(lines), 8):
            chunk = lines[i:i + 8]
            try:
                self.p.stdin.write("".join(l + "\n" for l in chunk))
                self.p.stdin.flush()
            except (BrokenPipeError, OSError):
                raise Crash(chunk, self.stderr_tail())
            for l in chunk:
                r = self.p.stdout.readline()
                if r == "":
                    raise Crash(chunk, self.stderr_tail())
                out.append(r.rstrip("\n"))
        return out

    def ask1(self, line):
        return self.ask([line])[0]

    def stderr_tail(self):
        try:
            self.p.wait(timeout=10)
        except Exception:  # noqa: BLE001
            self.p.kill()
        self.errf.seek(0)
        return self.errf.read()[-3000:]

    def close(self):
        try:
            self.p.stdin.close()
            self.p.wait(timeout=10)
        except Exception:  # noqa: BLE001
            self.p.kill()
        self.errf.close()


class Env:
    """Harness + model + a pool of fresh P-256 keys."""

    def __init__(self, nkeys=6, preset_keys=None):
        self.hx = build_harness()
        self.mx = build_model()
        self.h = Proc(self.hx, env=vlib.san_env())
        self.m = Proc(self.mx)
        self.keys = []           # dicts: id, ski, spki, priv
        self.n_iverify = 0
        self.n_isign = 0
        self.n_validate = 0
        self.loadpub_cache = {}
        self.variant = None      # "ski-only" (validate) or "by-asn" (validate_fixed): which model /repo matches
        if preset_keys is not None:
            for k in preset_keys:
                self.add_key(priv=k["priv"])
        else:
            for _ in range(nkeys):
                self.add_key()

    def restart_harness(self):
        try:
            self.h.close()
        except Exception:  # noqa: BLE001
            pass
        self.h = Proc(self.hx, env=vlib.san_env())
        for k in self.keys:
            self.h.ask1("keyload %d %s" % (k["id"], k["priv"]))

    def add_key(self, priv=None):
        i = len(self.keys)
        r = self.h.ask1(("keyload %d %s" % (i, priv)) if priv else ("key %d" % i))
        p = r.split()
        if p[0] != "key":
            raise vlib.BuildError("harness could not create a key: " + r)
        k = {"id": i}
        for f in p[2:]:
            a, b = f.split("=")
            k[a] = b
        self.keys.append(k)
        return k

    def close(self):
        self.h.close()
        self.m.close()

    # -- independent signer / verifier (EVP over the octets the *spec* produced) --------------
    def isign(self, keyid, msg):
        self.n_isign += 1
        r = self.h.ask1("isign %d %s" % (keyid, msg)).split()
        if r[0] != "isign":
            raise vlib.BuildError("independent signer failed: " + " ".join(r))
        return r[1]

    def iverify(self, spki, msg, sig):
        """(EVP_DigestVerify verdict, ECDSA_verify status over SHA-256) - both outside rtrlib."""
        self.n_iverify += 1
        r = self.h.ask1("iverify %s %s %s" % (spki, msg or "-", sig or "-")).split()
        return int(r[1]), int(r[2])


# ---------------------------------------------------------------------------------------------
# cases
# ---------------------------------------------------------------------------------------------
def data_lines(c):
    ls = ["data %d %d %d %d %d %d %d %d %s" % (c["alg"], c["safi"], c["afi"], c["my_as"], c["target"], c["nafi"],
                                              c["nsafi"], c["nlen"], c["nlri"] or "-")]
    for s in c["secs"]:
        ls.append("sec %d %d %d" % tuple(s))
    for g in c["sigs"]:
        ls.append("sig %s %s" % (g[0], g[1] or "-"))
    if c.get("counts"):
        ls.append("counts %d %d" % tuple(c["counts"]))
    return ls


def table_lines(c):
    return ["tclear"] + ["tadd %d %s %s" % (a, k, s) for a, k, s in c["table"]]


def nbytes(nlen):
    return (nlen + 7) // 8


def spec_digests(env, c):
    """digest_for_hop k of the extracted RFC spec, for every hop."""
    n = len(c["sigs"])
    out = env.m.ask(data_lines(c) + ["digest %d" % k for k in range(n)])
    return [o.split()[1] for o in out[-n:]] if n else []


def spec_sign(env, c, forged=None):
    """Sign every hop, origin first, over the spec digest with the independent signer.
    forged: {hop: key index} - that hop's signature is made with another key than the one its SKI names (a forgery
    that every later hop then signs over in good faith)."""
    forged = forged or {}
    n = len(c["secs"])
    c["sigs"] = [[env.keys[c["hopkeys"][k]]["ski"], "00"] for k in range(n)]
    for k in range(n - 1, -1, -1):
        d = env.m.ask(data_lines(c) + ["digest %d" % k])[-1].split()[1]
        if d == "None":
            raise vlib.BuildError("spec digest undefined for a well-formed update: %r" % c)
        c["sigs"][k][1] = env.isign(forged.get(k, c["hopkeys"][k]), d)
    return c


def impl_validate(env, c, with_table=True):
    env.n_validate += 1
    out = env.h.ask((table_lines(c) if with_table else []) + data_lines(c) + ["validate"])
    bad = [o for o in out[:-1] if o.startswith("error")]
    if bad:
        raise vlib.BuildError("harness rejected a generated case: %s" % bad[0])
    p = out[-1].split()
    hashed = [] if p[2] == "-" else [("" if x == "-" else x) for x in p[2].split(",")]
    return int(p[1]), hashed


def impl_align(env, c, ty):
    out = env.h.ask(data_lines(c) + ["align " + ty])
    p = out[-1].split()
    if p[1] in ("OVERFLOW", "NULLSIGS"):
        return p[1], None
    return int(p[1]), ("" if p[2] == "-" else p[2])


def oracle_verdicts(env, c, digs):
    """ecdsa_verify oracle for the model: for every hop and every table key with the hop's SKI,
    OpenSSL's status over the spec digest.  Also checks EVP and low-level agree on 'valid'."""
    lines = ["vclear"]
    seen = set()
    for k, g in enumerate(c["sigs"]):
        if k >= len(digs) or digs[k] == "None":
            continue
        for a, ski, spki in c["table"]:
            if ski != g[0] or (spki, k) in seen:
                continue
            seen.add((spki, k))
            if spki not in env.loadpub_cache:
                env.loadpub_cache[spki] = env.h.ask1("loadpub %s" % spki).split()[1]
            if env.loadpub_cache[spki] != "1":
                lines.append("loadfail %s" % spki_padded(spki))
                continue
            evp, low = env.iverify(spki, digs[k], g[1])
            if (evp == 1) != (low == 1):
                raise vlib.BuildError("EVP_DigestVerify and ECDSA_verify disagree (%d vs %d)" % (evp, low))
            lines.append("verdict %s %s %s %d" % (spki_padded(spki), digs[k] or "-", g[1] or "-", low))
    return lines


def spki_padded(spki):
    """The table stores SPKI_SIZE (91) bytes; shorter input is zero padded by the harness."""
    return (spki + "00" * 91)[:182]


def model_table_lines(c):
    return ["tclear"] + ["tadd %d %s %s" % (a, k, spki_padded(s)) for a, k, s in c["table"]]


def model_validate(env, c, digs):
    vop = "validate fixed" if env.variant == "by-asn" else "validate"
    out = env.m.ask(oracle_verdicts(env, c, digs) + model_table_lines(c) + data_lines(c) + [vop, "hashed"])
    v = out[-2].split()
    hs = out[-1].split()[1]
    hashed = None if hs == "UB" else ([] if hs == "-" else hs.split(","))
    return (None if v[1] == "UB" else int(v[1])), int(v[2].split("=")[1]), hashed


def model_align(env, c, ty):
    p = env.m.ask(data_lines(c) + ["align " + ty])[-1].split()
    return int(p[1]), int(p[2]), (None if p[3] == "UB" else ("" if p[3] == "-" else p[3]))


# ---------------------------------------------------------------------------------------------
# generators (ONE PRNG)
# ---------------------------------------------------------------------------------------------
ASN_POOL = [0, 1, 23456, 64496, 64511, 65535, 65536, 65537, 4200000000, 4294967294, 4294967295]


def gen_asn(rnd):
    return rnd.choice(ASN_POOL) if rnd.random() < 0.4 else rnd.randrange(1 << 32)


def gen_nlri(rnd, afi):
    w = 32 if afi == 1 else 128
    r = rnd.random()
    if r < 0.25:
        nlen = rnd.choice([0, 1, 7, 8, 9, 15, 16, 17, w - 9, w - 8, w - 7, w - 1, w])
    elif r < 0.40:
        nlen = 8 * rnd.randrange(w // 8 + 1)
    elif r < 0.80:
        nlen = rnd.choice([x for x in range(w + 1) if x % 8])
    else:
        nlen = rnd.randrange(w + 1)
    nb = nbytes(nlen)
    b = bytearray(rnd.randrange(256) for _ in range(nb))
    if nb and nlen % 8 and rnd.random() < 0.8:
        b[-1] &= (0xFF << (8 - nlen % 8)) & 0xFF     # trailing bits zero (as the header asks)
    # always hand a 32-byte buffer to the library: flips of nlri_len must not make it read past it
    return nlen, bytes(b).hex(), (bytes(b) + bytes(32 - nb)).hex()


# path lengths around the places where a byte count of the Secure_Path (6 per hop) or of the whole digest crosses a
# power of two (8-bit: 42/43 hops; 16-bit: not reachable below 256 hops), and the maximum the uint8_t count allows
LONG_PATHS = [42, 43, 44, 85, 86, 128, 255]


def forged_variants(rnd, env, c):
    """One hop's signature made with a key other than the one named by its SKI, all later hops re-signed over it:
    the origin (signed over the NLRI itself), and a random hop."""
    n = len(c["secs"])
    out = []
    if len(env.keys) < 2 or n > 16:
        return out
    for k in sorted(set([n - 1, rnd.randrange(n)])):
        d = json.loads(json.dumps(c))
        d["table"] = [tuple(e) for e in d["table"]]
        other = rnd.choice([i for i in range(len(env.keys)) if i != c["hopkeys"][k]])
        spec_sign(env, d, forged={k: other})
        out.append(("hop %d of %d signed with a key its SKI does not name, later hops re-signed" % (k, n), d))
    return out


def gen_case(rnd, env, nhops=None, nlen=None):
    afi = rnd.choice([1, 2])
    n = nhops or (rnd.choice(LONG_PATHS) if rnd.random() < 0.02 else rnd.choice([1, 2, 2, 3, 3, 4, 4, 5, 5, 6, 7, 8]))
    nlen_, nl_exact, nl_buf = gen_nlri(rnd, afi)
    if nlen is not None:
        nlen_, nl_buf = nlen, (bytes(rnd.randrange(256) for _ in range(nbytes(nlen))) + bytes(32 - nbytes(nlen))).hex()
    nlen = nlen_
    secs = []
    for _ in range(n):
        pc = rnd.choice([1, 1, 1, 0, 2, 255, rnd.randrange(256)])
        fl = rnd.choice([0, 0, 0x80, rnd.randrange(256)])
        secs.append([pc, fl, gen_asn(rnd)])
    c = {"alg": 1, "safi": rnd.choice([1, 1, 2, 128, rnd.randrange(256)]), "afi": afi, "my_as": gen_asn(rnd),
         "target": gen_asn(rnd), "nafi": afi, "nsafi": 1, "nlen": nlen, "nlri": nl_buf,
         "secs": secs, "sigs": [], "counts": None,
         "hopkeys": [rnd.randrange(len(env.keys)) for _ in range(n)], "table": []}
    spec_sign(env, c)
    c["table"] = gen_table(rnd, env, c)
    return c


def gen_table(rnd, env, c):
    """The right key for every hop, plus decoys: other keys under the same SKI (same and other AS),
    the right SKI with a wrong key first, unrelated entries.  No entry pairs a hop's SKI and its
    real key with a foreign AS (that is the separate wrong-AS experiment)."""
    t = []
    for k, sec in enumerate(c["secs"]):
        key = env.keys[c["hopkeys"][k]]
        t.append((sec[2], key["ski"], key["spki"]))
        if rnd.random() < 0.5:
            other = rnd.choice([x for x in env.keys if x["id"] != key["id"]])
            t.append((rnd.choice([sec[2], gen_asn(rnd)]), key["ski"], other["spki"]))
    for _ in range(rnd.randrange(3)):
        o = rnd.choice(env.keys)
        if all(o["ski"] != env.keys[i]["ski"] for i in c["hopkeys"]):
            t.append((gen_asn(rnd), o["ski"], o["spki"]))
    t = list(dict.fromkeys(t))
    rnd.shuffle(t)
    return t


def flip_hex(h, bit):
    b = bytearray(bytes.fromhex(h))
    b[bit // 8] ^= 0x80 >> (bit % 8)
    return bytes(b).hex()


def flips_for(rnd, c, per_class):
    """Single-bit corruptions of every signed field class: (class, description, mutated case)."""
    n = len(c["secs"])
    out = []

    def mk(cls, desc, f):
        d = json.loads(json.dumps(c))
        f(d)
        out.append((cls, desc, d))

    for bit in rnd.sample(range(32), min(32, per_class)):
        mk("target_as", "target_as bit %d" % bit, lambda d, bit=bit: d.__setitem__("target", d["target"] ^ (1 << bit)))
    for _ in range(per_class):
        k, bit = rnd.randrange(n), rnd.randrange(8)
        mk("pcount", "pcount[%d] bit %d" % (k, bit), lambda d, k=k, bit=bit: d["secs"][k].__setitem__(0, d["secs"][k][0] ^ (1 << bit)))
        k, bit = rnd.randrange(n), rnd.randrange(8)
        mk("flags", "flags[%d] bit %d" % (k, bit), lambda d, k=k, bit=bit: d["secs"][k].__setitem__(1, d["secs"][k][1] ^ (1 << bit)))
        k, bit = rnd.randrange(n), rnd.randrange(32)
        mk("asn", "asn[%d] bit %d" % (k, bit), lambda d, k=k, bit=bit: d["secs"][k].__setitem__(2, d["secs"][k][2] ^ (1 << bit)))
    for bit in rnd.sample(range(8), min(8, max(2, per_class))):
        mk("alg", "alg bit %d" % bit, lambda d, bit=bit: d.__setitem__("alg", d["alg"] ^ (1 << bit)))
        mk("safi", "safi bit %d" % bit, lambda d, bit=bit: d.__setitem__("safi", d["safi"] ^ (1 << bit)))
    for bit in rnd.sample(range(16), min(16, max(2, per_class))):
        mk("afi", "afi (hashed field) bit %d" % bit, lambda d, bit=bit: d.__setitem__("afi", d["afi"] ^ (1 << bit)))
        mk("nlri_afi", "nlri->afi (checked field) bit %d" % bit, lambda d, bit=bit: d.__setitem__("nafi", d["nafi"] ^ (1 << bit)))
    for bit in rnd.sample(range(8), min(8, max(2, per_class))):
        mk("nlri_len", "nlri_len bit %d" % bit, lambda d, bit=bit: d.__setitem__("nlen", d["nlen"] ^ (1 << bit)))
    nb = nbytes(c["nlen"])
    for bit in rnd.sample(range(nb * 8), min(nb * 8, per_class)):
        mk("nlri", "nlri bit %d" % bit, lambda d, bit=bit: d.__setitem__("nlri", flip_hex(d["nlri"], bit)))
    for _ in range(per_class):
        if n > 1:
            k = rnd.randrange(1, n)
            bit = rnd.randrange(160)
            mk("later_ski", "ski[%d] bit %d" % (k, bit), lambda d, k=k, bit=bit: d["sigs"][k].__setitem__(0, flip_hex(d["sigs"][k][0], bit)))
            bit = rnd.randrange(len(c["sigs"][k][1]) * 4)
            mk("later_sig", "signature[%d] bit %d" % (k, bit), lambda d, k=k, bit=bit: d["sigs"][k].__setitem__(1, flip_hex(d["sigs"][k][1], bit)))
        bit = rnd.randrange(len(c["sigs"][0][1]) * 4)
        mk("first_sig", "signature[0] bit %d" % bit, lambda d, bit=bit: d["sigs"][0].__setitem__(1, flip_hex(d["sigs"][0][1], bit)))
        bit = rnd.randrange(160)
        mk("first_ski", "ski[0] bit %d" % bit, lambda d, bit=bit: d["sigs"][0].__setitem__(0, flip_hex(d["sigs"][0][0], bit)))
    return out


# ---------------------------------------------------------------------------------------------
# the specification, as python: what should the answer be?
# ---------------------------------------------------------------------------------------------
def spec_expect(env, c, digs):
    """Property text -> ('VALID',) or ('NOT', set of admissible specific codes or None)."""
    n_p, n_s = len(c["secs"]), len(c["sigs"])
    cnt = c.get("counts") or [n_p, n_s]
    codes = set()
    if n_p == 0 or n_s == 0:
        codes.add(CODES["INVALID_ARGUMENTS"])
    if cnt[0] != cnt[1]:
        codes.add(CODES["WRONG_SEGMENT_COUNT"])
    if c["alg"] != 1:
        codes.add(CODES["UNSUPPORTED_ALGORITHM_SUITE"])
    if c["nafi"] not in (1, 2):
        codes.add(CODES["UNSUPPORTED_AFI"])
    if codes:
        return ("NOT", codes)
    if n_p != n_s:
        return ("NOT", None)
    missing = False
    as_only = True
    allok = True
    for k in range(n_s):
        ski, sig = c["sigs"][k]
        asn = c["secs"][k][2]
        cands = [(a, s) for a, kk, s in c["table"] if kk == ski and a == asn]
        if not cands:
            missing = True
            allok = False
            if not any(kk == ski for a, kk, s in c["table"]):
                as_only = False
            continue
        ok = False
        for a, spki in cands:
            if digs[k] != "None" and env.iverify(spki, digs[k], sig)[0] == 1:
                ok = True
                break
        allok = allok and ok
    if missing:
        # as_only: every missing (SKI, AS) pair has the SKI registered under some other AS
        return ("NOT", {CODES["ROUTER_KEY_NOT_FOUND"]}, as_only)
    return ("VALID",) if allok else ("NOT", None)


# ---------------------------------------------------------------------------------------------
# one full examination of a case
# ---------------------------------------------------------------------------------------------
class Finding(Exception):
    def __init__(self, kind, key, detail, case):
        Exception.__init__(self, kind)
        self.kind = kind
        self.key = key
        self.detail = detail
        self.case = case


def examine(env, c, stats, what="case", check_spec=True):
    """Run Impl, Model and Spec on c; raise Finding on the first disagreement.
    Spec-vs-Impl differences (property violations) are looked for first, then Model-vs-Impl (tie)."""
    digs = spec_digests(env, c)
    rc, hashed = impl_validate(env, c)
    stats["evaluations"] += 1
    stats["codes"][str(rc)] = stats["codes"].get(str(rc), 0) + 1
    if check_spec:
        # Spec vs Impl: layout of every hop that was hashed
        for k, hb in enumerate(hashed):
            if k < len(digs) and digs[k] != "None" and hb != digs[k]:
                raise Finding("impl-vs-spec", "layout", {"what": what, "hop": k, "impl_hashed": hb, "rfc_digest": digs[k],
                                                         "check": {"type": "hashed_eq", "hop": k, "bytes": digs[k]}}, c)
        # Spec vs Impl: the decision
        exp = spec_expect(env, c, digs)
        if exp[0] == "VALID" and rc != CODES["VALID"]:
            raise Finding("impl-vs-spec", "valid-rejected", {"what": what, "impl_rc": rc, "expected": "VALID",
                                                             "check": {"type": "rc_in", "values": [1]}}, c)
        if exp[0] == "NOT":
            if rc == CODES["VALID"]:
                raise Finding("impl-vs-spec", "invalid-accepted", {"what": what, "impl_rc": rc, "expected": "not VALID",
                                                                   "check": {"type": "rc_not", "value": 1}}, c)
            if exp[1] is not None and rc not in exp[1]:
                if len(exp) > 2 and exp[2]:
                    # not VALID, but not the specific code either: the SKI is registered, only under another
                    # AS.  Same root cause as the finding "ski-only-lookup"; counted, reported with it.
                    stats["as_only_code_mismatch"] = stats.get("as_only_code_mismatch", 0) + 1
                else:
                    raise Finding("impl-vs-spec", "wrong-code", {"what": what, "impl_rc": rc, "expected_one_of": sorted(exp[1]),
                                                                 "check": {"type": "rc_in", "values": sorted(exp[1])}}, c)
    mrc, unknown, mh = model_validate(env, c, digs)
    # Model vs Impl: return code
    if mrc != rc:
        raise Finding("model-vs-impl", "tie:return-code",
                      {"what": what, "impl_rc": rc, "model_rc": mrc, "model_unknown_oracle_queries": unknown,
                       "check": {"type": "rc_in", "values": [mrc]}}, c)
    # Model vs Impl: the bytes hashed per iteration (as many iterations as the C ran)
    if mh is not None and hashed != mh[:len(hashed)]:
        k = next(i for i in range(len(hashed)) if i >= len(mh) or hashed[i] != mh[i])
        raise Finding("model-vs-impl", "tie:hashed-bytes",
                      {"what": what, "hop": k, "impl": hashed[k], "model": mh[k] if k < len(mh) else None,
                       "check": {"type": "hashed_eq", "hop": k, "bytes": mh[k] if k < len(mh) else None}}, c)
    return rc, hashed, digs


def check_align(env, c, ty, stats):
    isz, ib = impl_align(env, c, ty)
    mreq, mtot, mb = model_align(env, c, ty)
    stats["align"] += 1
    if isz in ("OVERFLOW", "NULLSIGS"):
        if mb is not None:
            raise Finding("model-vs-impl", "tie:align", {"impl": isz, "model_bytes": mb}, c)
        return
    if isz != mreq or ib != mb:
        raise Finding("model-vs-impl", "tie:align", {"type": ty, "impl_size": isz, "model_req": mreq, "model_total": mtot,
                                                     "impl_bytes": ib, "model_bytes": mb, "op": "align " + ty,
                                                     "check": {"type": "align_eq", "size": mreq, "bytes": mb}}, c)


def wrong_as_variant(rnd, env, c):
    """Hop j's key (same SKI, same public key) is registered, but only for a different AS."""
    d = json.loads(json.dumps(c))
    j = rnd.randrange(len(c["secs"]))
    key = env.keys[c["hopkeys"][j]]
    asn = c["secs"][j][2]
    other = (asn + rnd.choice([1, 7, 65536])) % (1 << 32)
    d["table"] = [tuple(e) for e in c["table"] if not (e[1] == key["ski"] and e[0] == asn and e[2] == key["spki"])]
    d["table"].append((other, key["ski"], key["spki"]))
    d["wrong_as"] = {"hop": j, "segment_as": asn, "key_registered_for_as": other}
    return d


def error_variants(rnd, env, c):
    out = []

    def mk(desc, f):
        d = json.loads(json.dumps(c))
        d["table"] = [tuple(e) for e in d["table"]]
        f(d)
        out.append((desc, d))

    n = len(c["secs"])
    j = rnd.randrange(n)
    ski = c["sigs"][j][0]
    mk("missing key for hop %d" % j, lambda d: d.__setitem__("table", [e for e in d["table"] if e[1] != ski]))
    mk("empty table", lambda d: d.__setitem__("table", []))
    mk("unsupported suite", lambda d: d.__setitem__("alg", rnd.choice([0, 2, 3, 255])))
    mk("unsupported AFI", lambda d: (d.__setitem__("nafi", rnd.choice([0, 3, 25, 65535])), d.__setitem__("afi", d["nafi"])))
    mk("count fields differ", lambda d: d.__setitem__("counts", [n, n + rnd.choice([1, 2, 255])]))
    # ... by a multiple of 256 (the path count is 8 bits wide, the signature count 16)
    mk("count fields differ by a multiple of 256", lambda d: d.__setitem__("counts", [n, n + rnd.choice([256, 512, 65280])]))
    mk("one signature segment dropped", lambda d: d["sigs"].pop())
    mk("one secure-path segment dropped", lambda d: d["secs"].pop())
    mk("suite + counts", lambda d: (d.__setitem__("alg", 7), d.__setitem__("counts", [n + 1, n])))
    mk("AFI + missing key", lambda d: (d.__setitem__("nafi", 9), d.__setitem__("afi", 9), d.__setitem__("table", [])))
    mk("suite + AFI", lambda d: (d.__setitem__("alg", 0), d.__setitem__("nafi", 0), d.__setitem__("afi", 0)))
    return out


def malformed_variants(rnd, env, c):
    """Signatures that are not DER, truncated DER, keys that do not load, foreign keys under the SKI."""
    out = []

    def mk(desc, f):
        d = json.loads(json.dumps(c))
        d["table"] = [tuple(e) for e in d["table"]]
        f(d)
        out.append((desc, d))

    n = len(c["secs"])
    k = rnd.randrange(n)
    mk("random bytes as signature[%d]" % k, lambda d: d["sigs"][k].__setitem__(1, bytes(rnd.randrange(256) for _ in range(rnd.choice([8, 40, 70, 72]))).hex()))
    mk("truncated signature[%d]" % k, lambda d: d["sigs"][k].__setitem__(1, d["sigs"][k][1][:2 * rnd.randrange(20, 60)]))
    mk("signature[%d] with a trailing byte" % k, lambda d: d["sigs"][k].__setitem__(1, d["sigs"][k][1] + "00"))
    # the same (r, s) in an encoding that is not DER (long-form lengths, padded INTEGER): a strict ECDSA-Sig-Value
    # verifier (EVP_DigestVerify, the oracle) rejects these although a lenient BER parser reads the same numbers.
    # Hop 0 is covered by no later signature, so nothing else in the path changes.
    def ber(sig_hex, how):
        b = bytes.fromhex(sig_hex)
        if len(b) < 8 or b[0] != 0x30 or b[1] >= 0x80 or b[2] != 0x02:
            return sig_hex
        if how == "seq":
            return (b[:1] + bytes([0x81, b[1]]) + b[2:]).hex()
        if how == "int":
            return (bytes([0x30, b[1] + 1, 0x02, 0x81, b[3]]) + b[4:]).hex()
        return (bytes([0x30, b[1] + 1, 0x02, b[3] + 1, 0x00]) + b[4:]).hex()     # non-minimal INTEGER
    for how in ("seq", "int", "pad"):
        for kk in sorted(set([0, k])):
            mk("signature[%d] re-encoded in BER (%s)" % (kk, how), lambda d, kk=kk, how=how: d["sigs"][kk].__setitem__(1, ber(d["sigs"][kk][1], how)))
    ski = c["sigs"][k][0]
    junk = bytes(rnd.randrange(256) for _ in range(91)).hex()
    mk("unloadable key first under ski[%d]" % k, lambda d: d.__setitem__("table", [(d["secs"][k][2], ski, junk)] + d["table"]))
    mk("only an unloadable key under ski[%d]" % k, lambda d: d.__setitem__("table", [e for e in d["table"] if e[1] != ski] + [(d["secs"][k][2], ski, junk)]))
    if n > 1:
        mk("signatures of hops 0 and %d swapped" % k, lambda d: (lambda a, b: (d["sigs"][0].__setitem__(1, b), d["sigs"][k].__setitem__(1, a)))(d["sigs"][0][1], d["sigs"][k][1]))
    return out


# ---------------------------------------------------------------------------------------------
# shrinking
# ---------------------------------------------------------------------------------------------
def shrink(env, c, fails, budget=40):
    """Greedy reduction of a failing *spec-signed* case (re-signing after each structural change)."""
    best = c
    steps = 0

    def attempt(mod, resign=True):
        nonlocal best, steps
        if steps >= budget:
            return False
        steps += 1
        d = json.loads(json.dumps(best))
        d["table"] = [tuple(e) for e in d["table"]]
        try:
            if mod(d) is False:
                return False
            if resign and "hopkeys" in d and len(d["hopkeys"]) == len(d["secs"]) and not d.get("no_resign"):
                spec_sign(env, d)
            if fails(d):
                best = d
                return True
        except (Finding, vlib.BuildError, Crash):
            pass
        return False

    def drop_oldest(d):
        if len(d["secs"]) <= 1 or d.get("wrong_as", {}).get("hop", -1) == len(d["secs"]) - 1:
            return False
        d["secs"].pop(); d["sigs"].pop(); d["hopkeys"].pop()

    while attempt(drop_oldest):
        pass

    def drop_decoys(d):
        need = set((d["sigs"][k][0]) for k in range(len(d["sigs"])))
        t = [e for e in d["table"] if e[1] in need]
        if len(t) == len(d["table"]):
            return False
        d["table"] = t
    attempt(drop_decoys, resign=False)
    for i in range(len(best["table"]) - 1, -1, -1):
        attempt(lambda d, i=i: d["table"].pop(i) if i < len(d["table"]) and len(d["table"]) > 1 else False, resign=False)
    attempt(lambda d: (d.__setitem__("nlen", 24), d.__setitem__("nlri", "c00002" + "00" * 29), d.__setitem__("afi", 1), d.__setitem__("nafi", 1)))
    attempt(lambda d: [s.__setitem__(0, 1) or s.__setitem__(1, 0) for s in d["secs"]] and None)
    attempt(lambda d: d.__setitem__("safi", 1))
    return best, steps


# ---------------------------------------------------------------------------------------------
# replay scripts
# ---------------------------------------------------------------------------------------------
def script_for(env, c, op="validate"):
    used = sorted(set(c.get("hopkeys", [])))
    ls = ["keyload %d %s" % (i, env.keys[i]["priv"]) for i in used]
    return ls + table_lines(c) + data_lines(c) + [op]


def run_script(lines):
    exe = build_harness()
    rc, out = vlib.run_lines(exe, "\n".join(lines) + "\n", env=vlib.san_env(), timeout=120)
    return rc, [l for l in out if l]


def report(chk, env, f, shrunk_steps=None):
    c = f.case
    obj = {"kind": f.kind, "finding": f.key, "detail": f.detail, "case": c, "check": f.detail.get("check"),
           "harness_script": script_for(env, c, f.detail.get("op", "validate")),
           "expected": "see detail", "replay_cmd": "python3 tools/check.py C11 --replay <this file>",
           "shrink_steps": shrunk_steps}
    if f.kind == "impl-vs-spec" and f.key in ("invalid-accepted", "valid-rejected", "wrong-code", "wrong-as-key-accepted"):
        obj["expect_validate_rc"] = f.detail.get("expected")
    key = FINDING_KEY if f.key == "wrong-as-key-accepted" else None
    return chk.violation(obj, key=key)


# ---------------------------------------------------------------------------------------------
def corpus_cases():
    out = []
    if os.path.isdir(CORPUS):
        for fn in sorted(os.listdir(CORPUS)):
            if fn.endswith(".json"):
                with open(os.path.join(CORPUS, fn)) as fh:
                    o = json.load(fh)
                o["_file"] = fn
                out.append(o)
    return out


def detect_variant(env):
    """Which of the two proved models does /repo's key selection correspond to?  One probe: a one-hop
    spec-signed path whose key is registered under another AS only.  VALID -> the code as it stood
    (SKI only); ROUTER_KEY_NOT_FOUND -> the code after proposed_fixes/C11-ski-only-lookup.diff.
    Every later Model-vs-Impl comparison uses that model; any other answer is a broken tie."""
    key = env.keys[0]
    c = {"alg": 1, "safi": 1, "afi": 1, "my_as": 65002, "target": 65002, "nafi": 1, "nsafi": 1, "nlen": 24,
         "nlri": "c00002" + "00" * 29, "secs": [[1, 0, 65001]], "sigs": [], "counts": None, "hopkeys": [0],
         "table": [(64999, key["ski"], key["spki"])]}
    spec_sign(env, c)
    rc, _ = impl_validate(env, c)
    if rc == CODES["VALID"]:
        env.variant = "ski-only"
    elif rc == CODES["ROUTER_KEY_NOT_FOUND"]:
        env.variant = "by-asn"
    else:
        raise Finding("model-vs-impl", "tie:variant", {"what": "wrong-AS probe answered neither VALID nor ROUTER_KEY_NOT_FOUND",
                                                       "impl_rc": rc, "check": {"type": "rc_in", "values": [1, -4]}}, c)
    return env.variant


def check_codes(env):
    a = env.h.ask1("codes")
    b = env.m.ask1("codes")
    return a == b, a, b


def oversize_probe(env, stats, notes):
    """C11_size, second half: a Signature Segment near 65535 octets makes the total exceed 16 bits;
    the model says undefined behaviour, the real code must then overflow its allocation (ASan)."""
    key = env.keys[0]
    c = {"alg": 1, "safi": 1, "afi": 1, "my_as": 1, "target": 2, "nafi": 1, "nsafi": 1, "nlen": 24, "nlri": "c00002" + "00" * 29,
         "secs": [[1, 0, 10], [1, 0, 11]], "sigs": [[key["ski"], "30" * 72], [key["ski"], "ab" * 65500]], "counts": None,
         "table": [(10, key["ski"], key["spki"])], "hopkeys": [0, 0]}
    mreq, mtot, mb = model_align(env, c, "V")
    isz, ib = impl_align(env, c, "V")
    ok_model = (mb is None and mtot >= 65536 and isz == "OVERFLOW")
    lines = ["keyload 0 %s" % key["priv"]] + data_lines(c) + ["align! V"]
    rc, out = run_script(lines)
    crashed = rc != 0 and any("heap-buffer-overflow" in l for l in out)
    stats["oversize"] = {"model_total": mtot, "model_req": mreq, "model": "UB" if mb is None else "bytes",
                         "impl_guarded": isz, "impl_unguarded_exit": rc, "asan_heap_overflow": crashed}
    notes.append("observation N2 (outside the property's quantifier, API-only): total digest length %d >= 65536 -> "
                 "init_stream(uint16_t) truncates the allocation and align_byte_sequence overflows the heap "
                 "(ASan: %s); the model answers UB there (C11_size, second conjunct)" % (mtot, crashed))
    if not (ok_model and crashed):
        raise Finding("model-vs-impl", "tie:oversize", stats["oversize"], c)


def afi_incoherence_probe(rnd, env, stats, notes):
    """The code checks data->nlri->afi but hashes data->afi.  With the two fields different, an
    update signed over an unsupported AFI validates.  Recorded as an observation: the property's
    inputs have one AFI."""
    c = gen_case(rnd, env, nhops=2)
    c["afi"] = 3
    spec_sign(env, c)
    rc, hashed = impl_validate(env, c)
    stats["afi_incoherent_rc"] = rc
    notes.append("observation N3: struct rtr_bgpsec.afi=3 (hashed) with nlri->afi=%d (checked): validate -> %d; "
                 "the theorems about the AFI code are stated on nlri->afi" % (c["nafi"], rc))


def run(chk):
    t0 = time.time()
    rnd = vlib.rng(11)
    pr = vlib.check_proofs("C11", THEOREMS)
    chk.proof = pr
    quick = chk.tier == "quick"
    npaths = 40 if quick else 400
    per_class = 3 if quick else 6
    stats = {"evaluations": 0, "codes": {}, "align": 0, "hops": {}, "afi": {}, "nlri_len_class": {}, "sig_len": {},
             "flips": {}, "flip_rc": {}, "multi_key_hops": 0, "error_variants": 0, "malformed": 0, "wrong_as": 0,
             "wrong_as_accepted": 0, "shrink_steps": 0, "corpus": 0}
    notes = chk.notes
    env = Env(nkeys=6)
    findings = 0
    samples = []
    try:
        ok, a, b = check_codes(env)
        if not ok:
            raise Finding("model-vs-impl", "tie:codes", {"impl": a, "model": b}, {})
        variant = detect_variant(env)
        stats["model_variant"] = variant
        notes.append("model variant matched by /repo on this run: %s (%s)" % (
            variant, "Validate.validate: keys looked up by SKI only; C11_full refuted, C11_decision/C11_outside_known apply"
            if variant == "ski-only" else
            "Validate.validate_fixed: keys restricted to the AS of the Secure_Path Segment; C11_full_after_fix applies"))
        # ---- corpus first --------------------------------------------------------------------
        for o in corpus_cases():
            stats["corpus"] += 1
            env2 = Env(preset_keys=o["keys"])
            env2.variant = variant
            try:
                c = o["case"]
                c["table"] = [tuple(e) for e in c["table"]]
                try:
                    examine(env2, c, stats, what="corpus " + o["_file"])
                except Finding as f:
                    if c.get("wrong_as") and f.key == "invalid-accepted":
                        f.key = "wrong-as-key-accepted"
                        stats["wrong_as_accepted"] += 1
                    f.detail["corpus_file"] = o["_file"]
                    if report(chk, env2, f):
                        findings += 1
            finally:
                env2.close()
        oversize_probe(env, stats, notes)
        afi_incoherence_probe(rnd, env, stats, notes)
        # ---- generated paths -----------------------------------------------------------------
        budget_t = 150 if quick else 1500
        for i in range(npaths):
            if time.time() - t0 > budget_t and i >= 12:
                notes.append("time budget reached after %d paths" % i)
                break
            # fixed positions: long paths; the empty prefix (/0: no NLRI byte is hashed) with several hops
            c = gen_case(rnd, env, nhops=({2: 43, 9: 44, 4: 3, 12: 2} if quick else {2: 43, 7: 86, 11: 255, 15: 42, 19: 128, 4: 3, 12: 2}).get(i),
                         nlen={4: 0, 12: 0}.get(i))
            n = len(c["secs"])
            stats["hops"][str(n)] = stats["hops"].get(str(n), 0) + 1
            stats["afi"][str(c["afi"])] = stats["afi"].get(str(c["afi"]), 0) + 1
            w = 32 if c["afi"] == 1 else 128
            cls = "0" if c["nlen"] == 0 else ("max" if c["nlen"] == w else ("aligned" if c["nlen"] % 8 == 0 else "unaligned"))
            stats["nlri_len_class"][cls] = stats["nlri_len_class"].get(cls, 0) + 1
            for g in c["sigs"]:
                L = str(len(g[1]) // 2)
                stats["sig_len"][L] = stats["sig_len"].get(L, 0) + 1
            stats["multi_key_hops"] += sum(1 for g in c["sigs"] if sum(1 for e in c["table"] if e[1] == g[0]) > 1)
            if len(samples) < 4:
                samples.append({"hops": n, "afi": c["afi"], "nlri_len": c["nlen"], "secs": c["secs"],
                                "sig_lens": [len(g[1]) // 2 for g in c["sigs"]], "table_entries": len(c["table"])})
            try:
                # the valid path itself: layout of every hop, VALID, model agrees
                rc, hashed, digs = examine(env, c, stats, what="spec-signed path")
                if len(hashed) != n:
                    raise Finding("impl-vs-spec", "layout", {"what": "only %d of %d hops hashed" % (len(hashed), n)}, c)
                check_align(env, c, "V", stats)
                # single-bit corruptions
                for cls_, desc, d in flips_for(rnd, c, per_class if n <= 16 else 1):
                    d["table"] = [tuple(e) for e in d["table"]]
                    d["no_resign"] = True
                    stats["flips"][cls_] = stats["flips"].get(cls_, 0) + 1
                    r2, _, _ = examine(env, d, stats, what="flip: " + desc)
                    stats["flip_rc"][str(r2)] = stats["flip_rc"].get(str(r2), 0) + 1
                # specific codes and their priority; malformed inputs
                for desc, d in (error_variants(rnd, env, c) if n <= 16 else []):
                    stats["error_variants"] += 1
                    d["no_resign"] = True
                    examine(env, d, stats, what="error: " + desc)
                for desc, d in (malformed_variants(rnd, env, c) if n <= 16 else []):
                    stats["malformed"] += 1
                    d["no_resign"] = True
                    examine(env, d, stats, what="malformed: " + desc)
                for desc, d in forged_variants(rnd, env, c):
                    stats["forged"] = stats.get("forged", 0) + 1
                    d["no_resign"] = True
                    examine(env, d, stats, what="forged: " + desc)
            except Finding as f:
                if f.kind == "impl-vs-spec" and not f.case.get("no_resign"):
                    def fails(d, key=f.key):
                        try:
                            examine(env, d, {"evaluations": 0, "codes": {}}, what="shrink")
                        except Finding as g:
                            return g.key == key
                        return False
                    best, steps = shrink(env, f.case, fails)
                    stats["shrink_steps"] += steps
                    try:
                        examine(env, best, {"evaluations": 0, "codes": {}}, what=f.detail.get("what", "") + " (shrunk)")
                    except Finding as g:
                        f = g
                    report(chk, env, f, steps)
                else:
                    report(chk, env, f)
                findings += 1
                if findings >= 3:
                    break
                continue
            except Crash as e:
                chk.violation({"kind": "harness-crash", "sent": e.sent, "log": e.log, "case": c,
                               "harness_script": script_for(env, c)}, key=None)
                findings += 1
                env.restart_harness()
                continue
            # the key of hop j registered under another AS only
            d = wrong_as_variant(rnd, env, c)
            stats["wrong_as"] += 1
            try:
                examine(env, d, stats, what="key registered under another AS")
            except Finding as f:
                if f.key == "invalid-accepted":
                    stats["wrong_as_accepted"] += 1
                    if stats["wrong_as_accepted"] == 1:
                        def fails(x):
                            try:
                                examine(env, x, {"evaluations": 0, "codes": {}}, what="shrink")
                            except Finding as g:
                                return g.key == "invalid-accepted"
                            return False
                        best, steps = shrink(env, f.case, fails)
                        stats["shrink_steps"] += steps
                        g = Finding("impl-vs-spec", "wrong-as-key-accepted",
                                    {"what": "a router key registered only for AS %d validates the Signature Segment of AS %d"
                                             % (best["wrong_as"]["key_registered_for_as"], best["wrong_as"]["segment_as"]),
                                     "impl_rc": 1, "expected": "not VALID (ROUTER_KEY_NOT_FOUND)", "wrong_as": best["wrong_as"],
                                     "check": {"type": "rc_not", "value": 1}}, best)
                        if report(chk, env, g, steps):
                            findings += 1
                else:
                    report(chk, env, f)
                    findings += 1
    except Finding as f:
        report(chk, env, f)
        findings += 1
    finally:
        stats["independent_signatures"] = env.n_isign
        stats["independent_verifications"] = env.n_iverify
        stats["library_validate_calls"] = env.n_validate
        env.close()
    nontrivial = sum(v for k, v in stats["flips"].items()) + sum(stats["hops"].values()) + stats["error_variants"] \
        + stats["malformed"] + stats["wrong_as"]
    chk.cov.update({
        "evaluations": stats["evaluations"], "distinct_nontrivial": nontrivial,
        "rule": "one evaluation = one update+table run through library, model and spec; non-trivial = spec-signed paths "
                "(all hops hashed and compared with the RFC digest), single-bit flips of a signed field, error/priority "
                "variants, malformed-signature/key variants and wrong-AS variants (every one has >= 1 real ECDSA signature)",
        "samples": samples, "distribution": stats,
        "tie": "(b) correspondence: extracted Align/Validate model vs real library (sizes, aligned bytes, hashed bytes per "
               "iteration, return codes; ecdsa_verify := OpenSSL verdict oracle); enum values compared ('codes')",
        "oracle": "extracted DigestSpec.digest_for_hop + EVP_DigestSign/EVP_DigestVerify (independent of rtrlib)",
    })
    chk.assumptions += [
        "ECDSA unforgeability and SHA-256 collision resistance (hypotheses sha256_collision_free / signature_binds_hash of "
        "C11_bitflip): the clause 'changing any signed bit makes the answer not VALID' is C11_inj + these two; tested by bit flips",
        "ECDSA_verify accepts only DER ECDSA-Sig-Value of >= 8 octets (hypothesis of C11_decision); prefix length <= 128",
        "total digest length < 65536 and hop count < 256 (uint16_t stream, uint8_t path_len): outside, the model is UB / "
        "WRONG_SEGMENT_COUNT (C11_size second half; observation N2)",
        "sig_len equals the signature buffer's length; nlri buffer holds ceil(nlri_len/8) octets; data, data->nlri, table non-NULL",
        "struct rtr_bgpsec.afi == nlri->afi for the AFI-code clause (observation N3)",
        "allocation failures (SPKI_ERROR, NULL from malloc) are not modelled here",
        "little-endian host (htonl/htons + byte copy = big-endian field)",
    ]
    chk.trusted += ["OpenSSL 3 (SHA-256, ECDSA, DER) on both sides of the oracle", "hand-written models Bgpsec/Align.v, Validate.v"]
    if not pr.ok and not chk.violations:
        chk.proof_broken(pr, "%d evaluations (spec-signed paths, flips, error and wrong-AS variants): nothing found" % stats["evaluations"])


def eval_check(chk_obj, last):
    """Does the harness' last output line satisfy the recorded expectation?"""
    p = last.split()
    if not chk_obj or not p:
        return None
    t = chk_obj["type"]
    if t in ("rc_in", "rc_not") and p[0] in ("validate", "sign"):
        rc = int(p[1])
        return (rc in chk_obj["values"]) if t == "rc_in" else (rc != chk_obj["value"])
    if t == "hashed_eq" and p[0] in ("validate", "sign"):
        hs = p[2 if p[0] == "validate" else 3]
        hashed = [] if hs == "-" else hs.split(",")
        k = chk_obj["hop"]
        return k < len(hashed) and hashed[k] == chk_obj["bytes"]
    if t == "align_eq" and p[0] == "align":
        return len(p) >= 3 and p[1] == str(chk_obj["size"]) and ("" if p[2] == "-" else p[2]) == chk_obj["bytes"]
    return None


def replay(path, pid="C11"):
    o = json.load(open(path))
    ls = o.get("harness_script")
    if not ls:
        print("replay file names no input:", json.dumps(o.get("broken") or o.get("detail"))[:1500])
        return 1
    rc, out = run_script(ls)
    last = out[-1] if out else ""
    print("input     : %d script lines for harness/bgpsec_ops.c (keys, table, update, '%s')" % (len(ls), ls[-1]))
    print("finding   :", o.get("kind"), o.get("finding"), json.dumps({k: v for k, v in (o.get("detail") or {}).items() if k != "check"})[:700])
    print("harness   : exit", rc, "|", last[:200])
    if rc != 0:
        print("the harness did not survive the script (sanitizer / crash): reproduced")
        return 1
    ok = eval_check(o.get("check"), last)
    if ok is None:
        print("no machine-checkable expectation recorded")
        return 1
    print("expectation", json.dumps(o.get("check"))[:300], "->", "holds (not reproduced)" if ok else "VIOLATED (reproduced)")
    return 0 if ok else 1
