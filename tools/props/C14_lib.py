"""C14_lib.py - helpers shared by C14.py and C04.py (both owned by the same builder):
* hand-built conversations that reach every call site of an Error Report in rtrlib/rtr/packets.c,
  one protocol violation per script, for every PDU type and hostile field values;
* an INDEPENDENT oracle that reads only the harness trace and what the script delivered:
  it re-frames everything handed to the transport into PDUs, checks each of them, and checks every
  Error Report against its own class -> (code, encapsulated part, text) table, written from RFC 8210
  section 12 and the texts in packets.c (not from the Coq model);
* running a script on Impl and Model, trace comparison, shrinking."""
import os
import re
import struct

import rtrsim as R
import vlib

MAX = R.MAX_PDU_LEN
SIZES = {0: 12, 1: 12, 2: 8, 3: 8, 4: 20, 6: 32, 8: 8, 9: 123}       # EOD: 12 (v0) / 24 (v1); ERROR: variable

T_SMALL = b"corrupt data received, length value in PDU is too small\0"
T_BIG = b"PDU too big, max. PDU size is: 3248 bytes\0"
T_SESSION = b"Wrong session_id in Cache Response PDU\0"
T_UNEXP_SYNC = b"Unexpected PDU received in data synchronisation\0"
T_UNEXP_STORE = b"Unexpected PDU received during data synchronisation\0"
T_PFX_LEN = b"Prefix PDU with an invalid prefix length or bits set beyond it received\0"
T_PFX_FLAGS = b"Prefix PDU with invalid flags value received\0"
T_KEY_FLAGS = b"Router Key PDU with invalid flags value received\0"
EOD_RE = re.compile(rb"^Expected session_id: (\d+), received session_id\. (\d+) in EOD PDU\0$")

# RFC 8210 section 12 error codes
CORRUPT, INTERNAL, NO_DATA, INVALID_REQ, UNSUPP_VER, UNSUPP_TYPE, WITHDRAW_UNKNOWN, DUPLICATE, UNEXP_VER = range(9)

# violation class -> (code, which part of the offending PDU is encapsulated, text)
#   'hdr'  = the 8 header bytes as received, 'full' = the whole PDU as received, 'none' = nothing
CLASS = {
    "len_small": (CORRUPT, "hdr", T_SMALL),          # length field < 8
    "len_big": (CORRUPT, "hdr", T_BIG),              # length field > RTR_MAX_PDU_LEN (no RFC code for "too big")
    "len_type": (CORRUPT, "hdr", T_SMALL),           # length contradicts the type; unknown / reserved type
    "version": (UNEXP_VER, "hdr", b""),              # RFC 8210: 8 = Unexpected Protocol Version
    "cr_session": (CORRUPT, "none", T_SESSION),      # Cache Response of another session
    "unexp_sync": (CORRUPT, "hdr", T_UNEXP_SYNC),    # PDU that cannot start an answer
    "unexp_store": (CORRUPT, "hdr", T_UNEXP_STORE),  # PDU that cannot be part of an answer
    "pfx_len": (CORRUPT, "full", T_PFX_LEN),         # prefix / max length beyond the address size, or a bit set behind the prefix length
    "flags_pfx": (CORRUPT, "full", T_PFX_FLAGS),
    "flags_key": (CORRUPT, "full", T_KEY_FLAGS),
    "dup": (DUPLICATE, "full", b""),                 # RFC 8210: 7 = Duplicate Announcement Received
    "unknown": (WITHDRAW_UNKNOWN, "full", b""),      # RFC 8210: 6 = Withdrawal of Unknown Record
    "eod_session": (CORRUPT, "full", None),          # text built from the two session ids
}
RFC_NOTES = [
    "unknown / reserved PDU types are reported as 0 (Corrupt Data) with the 'length too small' text; RFC 8210 section 12 "
    "has 5 (Unsupported PDU Type) for them",
    "a Cache Response with a foreign session id is reported as 0 (Corrupt Data) without an encapsulated PDU although the "
    "offending PDU is at hand (the C passes NULL, 0)",
    "unexpected PDUs (header echo, code 0) do not change the socket state: the client stays in SYNC and keeps reading",
]


def be32(b, o):
    return struct.unpack(">I", bytes(b[o:o + 4]))[0]


def be16(b, o):
    return struct.unpack(">H", bytes(b[o:o + 2]))[0]


def eod_text(expected, received):
    return b"Expected session_id: %d, received session_id. %d in EOD PDU\0" % (expected, received)


def size_ok(p):
    """Independent statement of 'length consistent with type' (RFC 8210 section 5 PDU sizes)."""
    ver, typ, ln = p[0], p[1], be32(p, 4)
    if typ in SIZES:
        return ln == SIZES[typ]
    if typ == 7:
        return (ver == 0 and ln == 12) or (ver == 1 and ln == 24)
    if typ == 10:
        if ln < 16 or len(p) < 16:
            return False
        el = be32(p, 8)
        if ln < 16 + el or len(p) < 16 + el:
            return False
        return ln == 16 + el + be32(p, 12 + el)
    return False


# ---------------------------------------------------------------------------
# running
# ---------------------------------------------------------------------------
def delivered(lines):
    return b"".join(bytes.fromhex(l.split()[2]) for l in lines if l.startswith("ev data ") and len(l.split()) > 2)


def strip_recv(tr):
    """forget the sizes of the individual reads (chunking-dependent); keep would-block / error / stop lines"""
    return [l for l in tr if not re.match(r"^RECV timeout=-?\d+ -> \d+$", l)]


def setup(tag="c14"):
    """Private copies of the harness / model executables (other checks rebuild the shared ones concurrently)."""
    import os
    import shutil
    for san in ("asan", "ubsan"):
        k = "rtr_run_" + san
        R._EXE[k] = vlib.build_harness("%s_%s" % (k, tag), os.path.join(vlib.VERIF, "harness", "rtr_run.c"),
                                       includes_repo_c=("rtrlib/spki/hashtable/ht-spkitable.c",),
                                       wraps=("lrtr_get_monotonic_time", "sleep"), san=san)
    exe = vlib.build_model()
    mine = exe + "_" + tag
    try:
        if not os.path.exists(mine) or os.path.getmtime(mine) < os.path.getmtime(exe) or os.path.getsize(mine) != os.path.getsize(exe):
            shutil.copy2(exe, mine + ".tmp")
            os.replace(mine + ".tmp", mine)
        R._EXE["model"] = mine
    except OSError:
        R._EXE["model"] = exe


def run_both(lines, timeout=60):
    rc, impl = R.run_impl(lines, timeout=timeout)
    rc2, model = R.run_model(lines)
    return rc, impl, model


def crashed(rc, impl):
    """sanitizer abort / assertion / timeout of the harness"""
    t = R.Trace(impl)
    if rc == 124:
        return "timeout (wall clock)"
    if t.crash is not None or rc not in (0,):
        return "rc=%s %s" % (rc, (t.crash or "")[:1500])
    if not impl or not impl[-1].startswith("ENDDUMP"):
        return "trace does not end with the final dump: %r" % impl[-3:]
    return None


def shrink_events(lines, failing, budget=60):
    """delta-debug the 'ev' lines of a script (one event at a time, then halves)"""
    head = [l for l in lines if not l.startswith("ev ") and l != "run"]
    evs = [l for l in lines if l.startswith("ev ")]
    n = 2
    tries = 0
    while len(evs) >= 2 and tries < budget:
        chunk = max(1, len(evs) // n)
        reduced = False
        for i in range(0, len(evs), chunk):
            cand = evs[:i] + evs[i + chunk:]
            tries += 1
            if failing(head + cand + ["run"]):
                evs = cand
                n = max(n - 1, 2)
                reduced = True
                break
            if tries >= budget:
                break
        if not reduced:
            if chunk == 1:
                break
            n = min(len(evs), n * 2)
    return head + evs + ["run"]


# ---------------------------------------------------------------------------
# the oracle
# ---------------------------------------------------------------------------
class Sent:
    def __init__(self):
        self.pdus = []        # dicts: raw, complete, consumed (bytes received when the attempt began), line
        self.problems = []


def reframe(trace):
    """Group the bytes handed to the transport into send attempts of one PDU each, using only the length fields."""
    s = Sent()
    cur, consumed, start_consumed, start_line = b"", 0, 0, 0
    for i, l in enumerate(trace):
        m = re.match(r"^RECV timeout=-?\d+ -> (\d+)$", l)
        if m:
            consumed += int(m.group(1))
            continue
        if l.startswith("SEND ") or l == "SEND":
            w = l.split()
            b = bytes.fromhex(w[1]) if len(w) > 1 else b""
            if not cur:
                start_consumed, start_line = consumed, i
            cur += b
            while len(cur) >= 8:
                need = be32(cur, 4)
                if need < 8 or need > MAX:
                    s.problems.append("line %d: PDU handed to the transport with length field %d (header %s)" % (i, need, cur[:8].hex()))
                    cur = b""
                    break
                if len(cur) < need:
                    break
                s.pdus.append({"raw": cur[:need], "complete": True, "consumed": start_consumed, "line": start_line})
                cur = cur[need:]
                if cur:
                    s.problems.append("line %d: bytes of two PDUs in one write" % i)
                    start_consumed, start_line = consumed, i
        elif l.startswith("SENDFAIL"):
            s.pdus.append({"raw": cur, "complete": False, "consumed": start_consumed if cur else consumed, "line": i})
            cur = b""
        elif cur and not l.startswith(("SEND", "RECV")):
            s.problems.append("line %d: %r in the middle of a PDU (%d bytes handed over so far)" % (i, l, len(cur)))
            cur = b""
    if cur:
        s.problems.append("trace ends inside a PDU (%s...)" % cur[:16].hex())
    return s


def parse_error(raw):
    d = {"ver": raw[0], "code": be16(raw, 2), "len": be32(raw, 4)}
    if len(raw) < 16:
        return None
    el = be32(raw, 8)
    if 16 + el > len(raw):
        return None
    tl = be32(raw, 12 + el)
    d.update(enc=raw[12:12 + el], text=raw[16 + el:], text_len=tl, enc_len=el)
    return d


def classify_report(e):
    """classes whose text the report carries"""
    out = [c for c, (_, _, t) in CLASS.items() if t is not None and t == e["text"] and (t != b"" or True)]
    if EOD_RE.match(e["text"]):
        out.append("eod_session")
    return out


def check_wellformed(trace, final_version=None):
    """clause 'every byte sequence handed to the transport is a sequence of complete PDUs ...' on one trace"""
    s = reframe(trace)
    probs = list(s.problems)
    vers = []
    for p in s.pdus:
        raw = p["raw"]
        if not p["complete"]:
            if len(raw) >= 2 and raw[1] not in (1, 2, 10):
                probs.append("truncated attempt of a PDU of type %d" % raw[1])
            continue
        ver, typ, ln = raw[0], raw[1], be32(raw, 4)
        vers.append(ver)
        if ver not in (0, 1):
            probs.append("PDU with version byte %d sent" % ver)
        if typ not in (1, 2, 10):
            probs.append("PDU of type %d sent" % typ)
        if typ == 1 and ln != 12 or typ == 2 and ln != 8:
            probs.append("query of type %d with length %d" % (typ, ln))
        if typ == 10:
            e = parse_error(raw)
            if e is None or 16 + e["enc_len"] + e["text_len"] != ln or len(e["text"]) != e["text_len"]:
                probs.append("Error Report with inconsistent nested lengths: %s" % raw[:24].hex())
    if any(a < b for a, b in zip(vers, vers[1:])):
        probs.append("version bytes of sent PDUs increase: %r" % vers)
    if final_version is not None and vers and vers[-1] < final_version:
        probs.append("last sent version %d below the socket's final version %d" % (vers[-1], final_version))
    return s, probs


def check_reports(s, data):
    """every Error Report sent: known class, code of that class, encapsulated part a byte-exact prefix of
    what was delivered at the place the client had read up to, class-specific sanity of the offender"""
    probs = []
    for p in s.pdus:
        raw = p["raw"]
        if not p["complete"] or raw[1] != 10:
            continue
        e = parse_error(raw)
        if e is None:
            continue
        cls = classify_report(e)
        cls = [c for c in cls if CLASS[c][0] == e["code"]] or cls
        if not cls:
            probs.append("Error Report with a text no violation class has: code %d text %r" % (e["code"], e["text"][:80]))
            continue
        if all(CLASS[c][0] != e["code"] for c in cls):
            probs.append("Error Report for class %s carries code %d, prescribed %d" % ("/".join(cls), e["code"], CLASS[cls[0]][0]))
            continue
        enc, C = e["enc"], p["consumed"]
        ok_cls = []
        for c in cls:
            code, part, text = CLASS[c]
            if part == "none":
                if enc == b"":
                    ok_cls.append(c)
                continue
            if part == "hdr" and len(enc) != 8:
                continue
            if part == "full" and (len(enc) < 8 or be32(enc, 4) != len(enc)):
                continue
            if len(enc) >= 2 and enc[1] == 10:
                continue              # never in reply to an Error Report
            ln = be32(enc, 4)
            # where the offending PDU sits in the delivered stream
            if c in ("dup", "unknown", "flags_pfx", "flags_key"):
                where = data[:C].rfind(enc)
                located = where >= 0
            else:
                cands = [C - 8] + ([C - ln] if 8 <= ln <= MAX else [])
                located = any(o >= 0 and data[o:o + len(enc)] == enc for o in cands)
            if not located:
                continue
            # the offender really is of that class
            good = offender_is(c, enc, raw, data, C, ln)
            if c == "eod_session" and good:
                m = EOD_RE.match(e["text"])
                good = int(m.group(2)) == be16(enc, 2) and int(m.group(1)) != int(m.group(2))
            if good:
                ok_cls.append(c)
        if not ok_cls:
            probs.append("Error Report (code %d, text %r, %d encapsulated bytes %s...) is not justified by what was delivered: "
                         "not a byte-exact prefix of the PDU just read, or the offender is not of class %s"
                         % (e["code"], e["text"][:60], len(enc), enc[:12].hex(), "/".join(cls)))
    return probs


def offender_is(c, enc, raw, data, C, ln):
    """is the encapsulated PDU really an instance of violation class c?"""
    flag = (enc[2] if enc[1] == 9 else enc[8]) if len(enc) > 8 else None
    if c == "len_small":
        return ln < 8
    if c == "len_big":
        return ln > MAX
    if c == "len_type":
        return 8 <= ln <= MAX and C - ln >= 0 and not size_ok(data[C - ln:C])
    if c == "version":
        return enc[0] != raw[0]
    if c == "unexp_sync":
        return enc[1] not in (3, 8, 10, 0)
    if c == "unexp_store":
        return enc[1] not in (4, 6, 9, 7, 10, 0)
    if c == "pfx_len":
        if not (enc[1] in (4, 6) and len(enc) > 10):
            return False
        w = 32 if enc[1] == 4 else 128
        if max(enc[9], enc[10]) > w:
            return True
        addr = int.from_bytes(enc[12:12 + w // 8], "big") if len(enc) >= 12 + w // 8 else 0
        return (addr & ((1 << (w - enc[9])) - 1)) != 0
    if c == "flags_pfx":
        return enc[1] in (4, 6) and flag not in (0, 1, None)
    if c == "flags_key":
        return enc[1] == 9 and flag not in (0, 1, None)
    if c == "dup":
        return enc[1] in (4, 6, 9) and flag == 1
    if c == "unknown":
        return enc[1] in (4, 6, 9) and flag == 0
    if c == "eod_session":
        return enc[1] == 7
    return True


def sent_reports(s):
    return [p for p in s.pdus if len(p["raw"]) >= 2 and p["raw"][1] == 10 or (not p["complete"] and len(p["raw"]) < 2)]


# ---------------------------------------------------------------------------
# conversations with exactly one violation
# ---------------------------------------------------------------------------
def v4(a, ln, mx, asn):
    return ("4", format(a, "032b"), ln, mx, asn)


def v6(a, ln, mx, asn):
    return ("6", format(a, "0128b"), ln, mx, asn)


ITEMS = [("p", v4(0x0A000000, 8, 24, 65000)), ("p", v4(0xC0A80000, 16, 16, 1)), ("p", v6(0x20010DB8 << 96, 32, 48, 65001)),
         ("k", (65000, 7)), ("p", v4(0, 0, 0, 0)), ("k", (7, 60000))]
EXTRA = [("p", v4(0xAC100000, 12, 12, 2)), ("p", v6(0xFE80 << 112, 10, 10, 3)), ("k", (1, 12345))]


def item_pdu(ver, it, flags):
    return R.prefix_pdu(ver, it[1], flags) if it[0] == "p" else R.key_pdu(ver, it[1], flags)


def well_formed(ver, typ, sess=7, sn=5):
    """a well-formed PDU of every type"""
    if typ == 0:
        return R.serial_notify(ver, sess, sn)
    if typ == 1:
        return R.hdr(ver, 1, sess, 12) + struct.pack(">I", sn)
    if typ == 2:
        return R.hdr(ver, 2, 0, 8)
    if typ == 3:
        return R.cache_response(ver, sess)
    if typ == 4:
        return R.prefix_pdu(ver, EXTRA[0][1], 1)
    if typ == 6:
        return R.prefix_pdu(ver, EXTRA[1][1], 1)
    if typ == 7:
        return R.eod(ver, sess, sn)
    if typ == 8:
        return R.cache_reset(ver)
    if typ == 9:
        return R.key_pdu(ver, EXTRA[2][1], 1)
    if typ == 10:
        return R.error_pdu(ver, 0, b"", b"x")
    return R.hdr(ver, typ, 0, 8)


class Scen:
    """One script with one injected violation and what the oracle expects to see for it."""

    def __init__(self, cls, ver, phase, script, offender, exp_ver, note=""):
        self.cls, self.ver, self.phase, self.script, self.offender, self.exp_ver, self.note = cls, ver, phase, script, offender, exp_ver, note
        self.expect = None      # bytes of the ONE report expected, b"" = none expected

    def finish(self, expected_session=None):
        code, part, text = CLASS[self.cls]
        off = self.offender
        if part != "none" and len(off) >= 2 and off[1] == 10:
            self.expect = b""
        else:
            enc = b"" if part == "none" else (off[:8] if part == "hdr" else off[:be32(off, 4)])
            if text is None:
                text = eod_text(expected_session, be16(off, 2))
            self.expect = R.error_pdu(self.exp_ver, code, enc, text)
        return self

    def lines(self):
        return self.script.lines()


def conversation(ver, phase, sess=4711, serial=9, cfg=None):
    """Script delivering a clean prefix of a conversation; returns (script, put) where put(bytes) appends."""
    s = R.Script(**(cfg or {}))
    s.opens = [True] * 6
    full = [R.cache_response(ver, sess)] + [item_pdu(ver, x, 1) for x in ITEMS] + [R.eod(ver, sess, serial)]
    if phase == "serial":
        s.data(b"".join(full))
        s.data(R.serial_notify(ver, sess, serial + 1))
    return s, full


def scenarios(rnd, tier="quick"):
    """every violation class x PDU type x hostile field values x phase x protocol version"""
    out = []
    sess, serial = 4711, 9
    types = [0, 1, 2, 3, 4, 5, 6, 7, 8, 9, 10, 11, 255]

    def add(cls, ver, phase, pre, bad, post=b"", exp_ver=None, note="", offender=None, expected_session=None):
        s, full = conversation(ver, phase, sess, serial)
        s.data(pre + bad + post)
        if exp_ver is None:
            exp_ver = ver
        sc = Scen(cls, ver, phase, s, offender if offender is not None else bad, exp_ver, note).finish(expected_session)
        out.append(sc)
        return sc

    for ver in (1, 0):
        cr = R.cache_response(ver, sess)
        some = b"".join(item_pdu(ver, x, 1) for x in ITEMS[:2])
        end = R.eod(ver, sess, serial + 1)
        # where a PDU can arrive: first thing after the Reset Query / inside the first answer / inside an incremental answer
        places = [("first", b""), ("reset", cr + some), ("serial", cr)]
        for phase, pre in places:
            for typ in types:
                base = well_formed(ver, typ, sess, serial + 1)
                # 1 length < 8, 2 length > max: only the header is consumed
                for ln in (0, 1, 7):
                    bad = base[:4] + struct.pack(">I", ln)
                    add("len_small", ver, phase, pre, bad, exp_ver=1 if phase == "first" else ver, note="type %d len %d" % (typ, ln))
                for ln in (MAX + 1, 65536, 2 ** 32 - 1):
                    bad = base[:4] + struct.pack(">I", ln)
                    add("len_big", ver, phase, pre, bad, exp_ver=1 if phase == "first" else ver, note="type %d len %d" % (typ, ln))
                # 3 length inconsistent with the type (the announced bytes are delivered)
                want = be32(base, 4)
                for ln in sorted(set([8, want - 1, want + 1, want + 4, 16, MAX]) - {want}):
                    if ln < 8 or typ == 10 and ln >= 16:
                        continue
                    if typ not in SIZES and typ not in (7, 10) and ln != 8 and ln != 20:
                        continue
                    bad = base[:4] + struct.pack(">I", ln) + (base[8:] + bytes(ln))[:ln - 8]
                    if size_ok(bad):
                        continue
                    ev = (0 if ver == 0 and typ != 10 else 1) if phase == "first" else ver
                    add("len_type", ver, phase, pre, bad, exp_ver=ev, note="type %d len %d (wants %d)" % (typ, ln, want))
                if typ in (5, 11, 255):
                    ev = ver if phase != "first" else (0 if ver == 0 else 1)
                    add("len_type", ver, phase, pre, base, exp_ver=ev, note="unknown type %d" % typ)
                # 4 unexpected protocol version
                if typ != 10:
                    for bv in (0, 1, 2, 255):
                        cur = 1 if phase == "first" else ver
                        if bv == cur or (phase == "first" and bv == 0):
                            continue
                        bad = (bytes([bv]) + base[1:])[:8]      # only the header is consumed; the state is not changed
                        add("version", ver, phase, pre, bad, exp_ver=cur, note="type %d version %d" % (typ, bv))
        # nested lengths of an Error Report at the boundaries: rejected, and never answered by a report
        for phase, pre in places:
            for el, tl, total in ((0, 0, 15), (0, 1, 16), (1, 0, 16), (0xffffffff, 0, 16), (0, 0xffffffff, 16), (8, 0, 23),
                                  (MAX - 16, 1, MAX), (MAX - 15, 0, MAX), (4, 4, 25), (0, 5, 20)):
                body = struct.pack(">I", el) + bytes(min(el, MAX)) + struct.pack(">I", tl)
                bad = (R.hdr(ver, 10, 2, total) + body + bytes(MAX))[:max(total, 8)]
                if size_ok(bad):
                    continue
                add("len_type", ver, phase, pre, bad, note="error pdu el=%d tl=%d len=%d" % (el, tl, total))
        # 5 Cache Response of another session (only once a session exists)
        for d in (1, -1, 0x8000):
            bad = R.cache_response(ver, (sess + d) & 0xffff)
            add("cr_session", ver, "serial", b"", bad, note="session %+d" % d)
        # 6 a PDU that cannot start an answer
        for phase in ("first", "serial"):
            for typ in (1, 2, 4, 6, 7, 9):
                bad = well_formed(ver, typ, sess, serial + 1)
                add("unexp_sync", ver, phase, b"", bad, note="type %d" % typ)
        # 7 a PDU that cannot be part of an answer
        for phase, pre in places[1:]:
            for typ in (1, 2, 3, 8):
                bad = well_formed(ver, typ, sess, serial + 1)
                add("unexp_store", ver, phase, pre, bad, note="type %d" % typ)
        # 8 prefix lengths beyond the address size
        for phase, pre in places[1:]:
            for fam, w in (("4", 32), ("6", 128)):
                for ln, mx in ((w + 1, w), (w, w + 1), (255, 255), (0, 255), (w + 1, 0)):
                    rec = (fam, "0" * w, ln, mx, 64512)
                    for fl in (0, 1, 2):
                        bad = R.prefix_pdu(ver, rec, fl)
                        add("pfx_len", ver, phase, pre, bad, note="ipv%s %d-%d flags %d" % (fam, ln, mx, fl))
        # 8b a bit set behind the prefix length (every word boundary, the last bit, the bit right behind the length)
        for phase, pre in places[1:]:
            for fam, w in (("4", 32), ("6", 128)):
                for ln in sorted(set([0, 1, 8, 31, 32, 33, 63, 64, 65, 96, w - 1]) & set(range(w))):
                    for pos in sorted(set([ln, w - 1, min(w - 1, (ln // 32) * 32 + 31), min(w - 1, (ln // 32 + 1) * 32)])):
                        bits = "1" * ln + "0" * (pos - ln) + "1" + "0" * (w - pos - 1)
                        bad = R.prefix_pdu(ver, (fam, bits, ln, w, 64512), 1)
                        add("pfx_len", ver, phase, pre, bad, note="ipv%s /%d bit %d set" % (fam, ln, pos))
        # 9 invalid flags
        for phase, pre in places[1:]:
            for it in EXTRA:
                for fl in (2, 3, 128, 255):
                    bad = item_pdu(ver, it, fl)
                    add("flags_key" if it[0] == "k" else "flags_pfx", ver, phase, pre, bad, post=end, note="flags %d" % fl)
        # 10 duplicate announcement: twice in one answer / of a record of the running session
        for it in EXTRA:
            bad = item_pdu(ver, it, 1)
            add("dup", ver, "reset", cr + some + bad, bad, post=end, note="twice in one answer")
            add("dup", ver, "serial", cr + bad, bad, post=end, note="twice in one answer")
        for it in ITEMS[:4]:
            bad = item_pdu(ver, it, 1)
            add("dup", ver, "serial", cr, bad, post=end, note="record of the running session")
        # 11 withdrawal of an unknown record
        for it in EXTRA:
            bad = item_pdu(ver, it, 0)
            add("unknown", ver, "reset", cr + some, bad, post=end, note="never announced")
            add("unknown", ver, "serial", cr, bad, post=end, note="never announced")
        for it in ITEMS[:3]:
            bad = item_pdu(ver, it, 0)
            add("unknown", ver, "serial", cr + bad, bad, post=end, note="withdrawn twice")
        # 12 End of Data of another session
        for phase, pre, exp_s in (("reset", cr + some, sess), ("serial", cr, sess)):
            for d in (1, -1, 0x8000):
                bad = R.eod(ver, (sess + d) & 0xffff, serial + 1)
                add("eod_session", ver, phase, pre, bad, note="session %+d" % d, expected_session=exp_s)
    return out


SEND_PATTERNS = [[], [1] * 4000, [3, 8, 1, 100, 2, 7] * 300, [8] * 2000, [11, 12, 13] * 500]


def with_sends(sc, pattern):
    sc.script.sends = list(pattern)
    return sc


def judge_scenario(sc, impl):
    """direction 'every violation draws exactly one report': the Error Reports in the trace must be exactly
    the expected one (none when the offender is an Error Report); with a failing transport the attempt
    may be cut short but must be a prefix of the expected bytes."""
    s = reframe(impl)
    reps = [p for p in s.pdus if (len(p["raw"]) >= 2 and p["raw"][1] == 10)]
    cut = [p for p in s.pdus if not p["complete"] and len(p["raw"]) < 2]
    want = sc.expect
    if want == b"":
        if reps:
            return "an Error Report was sent in reply to an Error Report: %s" % reps[0]["raw"][:40].hex()
        return None
    if not reps and not cut:
        return "no Error Report for violation class %s (%s); expected %s" % (sc.cls, sc.note, want[:48].hex())
    if len(reps) > 1:
        return "%d Error Reports for one violation of class %s (%s)" % (len(reps), sc.cls, sc.note)
    if reps:
        got = reps[0]
        if got["complete"] and got["raw"] != want:
            return "Error Report for class %s (%s) differs: sent %s expected %s" % (sc.cls, sc.note, got["raw"].hex(), want.hex())
        if not got["complete"] and not want.startswith(got["raw"]):
            return "truncated Error Report is not a prefix of the expected one: %s vs %s" % (got["raw"].hex(), want.hex())
    return None


# ---------------------------------------------------------------------------------------------
# tr_send_all / tr_recv_all on a transport whose calls take time (harness/tr_loops.c)
# ---------------------------------------------------------------------------------------------
def tr_loops_exe():
    return vlib.build_harness("tr_loops_asan", os.path.join(vlib.VERIF, "harness", "tr_loops.c"),
                              includes_repo_c=("rtrlib/transport/transport.c",),
                              wraps=("lrtr_get_monotonic_time",), san="asan")


def tr_loop_expect(ln, behs):
    """What C14_send_all / C04_recv_all_exact say (the model's loops have no clock): every call moves
    min(beh, rest) bytes; a negative behaviour is the result; success = all bytes moved, result = len."""
    moved = calls = 0
    it = iter(behs)
    while moved < ln:
        b = next(it, (1000000, 0))[0]
        calls += 1
        if b < 0:
            return b, moved, calls
        moved += min(b, ln - moved)
    return ln, moved, calls


def tr_loop_cases(rnd, kind, n):
    out = []
    lens = [8, 12, 24, 123, 3248, 1, 20000]
    delays = [0, 0, 0, 1, 59, 60, 61, 120, 4000]
    for i in range(n):
        ln = rnd.choice(lens)
        timeout = rnd.choice([60, 60, 1, 0, 3600])
        behs = []
        for _ in range(rnd.randint(0, 12)):
            b = rnd.choice([1, 1, 2, 3, 7, 8, 100, ln - 1 if ln > 1 else 1, ln, 100000])
            if rnd.random() < 0.08:
                b = rnd.choice([-1, -2, -3, -4])
            behs.append((b, rnd.choice(delays)))
        out.append((kind, ln, timeout, behs))
    # told cases: a first partial call, then the clock jumps past the deadline, then the rest is taken at once
    for ln in (8, 12, 3248):
        for first in (1, 3, ln - 1):
            for d in (59, 60, 61, 10000):
                out.append((kind, ln, 60, [(first, d), (100000, 0)]))
                out.append((kind, ln, 60, [(first, 0), (1, d), (100000, 0)]))
    return out


def tr_loops_check(rnd, kind, n):
    """-> (number of cases, first disagreement or None)"""
    cases = tr_loop_cases(rnd, kind, n)
    text = "".join("%s %d %d %s\n" % (k, ln, to, " ".join("%d@%d" % b for b in behs)) for k, ln, to, behs in cases)
    rc, out = vlib.sh([tr_loops_exe()], input=text, env=vlib.san_env(), timeout=300)
    lines = [l for l in out.split("\n") if l.startswith("R ")]
    if rc != 0 or len(lines) != len(cases):
        return len(cases), {"what": "harness/tr_loops.c aborted or answered %d of %d cases" % (len(lines), len(cases)), "rc": rc,
                            "tail": out[-1500:], "input": text.split("\n")[:len(lines) + 1][-3:]}
    for c, l in zip(cases, lines):
        w = l.split()
        got = (int(w[1]), int(w[2]), int(w[3]))
        exp = tr_loop_expect(c[1], c[3])
        if got != exp:
            return len(cases), {"what": "tr_%s_all: result / bytes moved / number of calls differ from the loop of the theorem" % kind,
                                "case": "%s %d %d %s" % (c[0], c[1], c[2], " ".join("%d@%d" % b for b in c[3])),
                                "impl (rc, bytes, calls)": got, "expected": exp}
    return len(cases), None
