"""C13 - version negotiated downward only, then enforced. Proof: Props/Properties_C13.v over Rtr/RtrModel.v;
tie: Impl trace == Model trace; oracle below reads only the Impl trace and what the script delivered."""
import rtrsim as R
from props import rtr_common

THEOREMS = ["C13_initial", "C13_monotone", "C13_first_pdu", "C13_error_report", "C13_error_report_otherwise",
            "C13_closed_before_session", "C13_fast_reconnect", "C13_enforced", "C13_eod_format",
            "C13_sync_translated", "C13_error_pdu_translated", "C13_receive_header_phase_translated"]
FAULTS = ["bad_version", "err_unsupported_ver", "close_now", "trunc_close", "eod_v0_in_v1", "bad_version", "err_other",
          "timeout", "trunc_err", "spurious_reset", "stop", "intr_before", "downgrade_error", "err_nodata_other_ver"]


# Told stories: the data expires while the connection stays up (the purge runs in the "no data" / "no incremental update"
# branches, not in CONNECTING), and the next answer on the same connection comes in the other protocol version.
STORIES = [
    ({"refresh": 1, "expire": 600, "retry": 600, "ver": 1, "ivals": (1, 600, 600), "mode": 0},
     ["truthful", "err_nodata", "other_version_answer", "truthful"]),
    ({"refresh": 700, "expire": 600, "retry": 600, "ver": 1, "ivals": (700, 600, 600), "mode": 0},
     ["truthful", "spurious_reset", "other_version_answer", "truthful"]),
    ({"refresh": 1, "expire": 600, "retry": 600, "ver": 1, "ivals": (1, 600, 600), "mode": 0},
     ["truthful", "err_nodata", "err_nodata", "other_version_answer"]),
    ({"refresh": 1, "expire": 600, "retry": 600, "ver": 0, "ivals": (1, 600, 600), "mode": 0},
     ["truthful", "err_nodata", "other_version_answer", "truthful"]),
    ({"refresh": 1, "expire": 600, "retry": 600, "ver": 1, "ivals": (1, 600, 600), "mode": 0},
     ["truthful", "err_nodata", "bad_version"]),
    # an Error Report in the other version does not re-open the version question: what follows on the same connection in
    # that other version is still refused
    ({"refresh": 30, "expire": 7200, "retry": 5, "ver": 1, "ivals": (30, 5, 7200), "mode": 0},
     ["truthful", "err_nodata_other_ver", "other_version_answer", "truthful"]),
    ({"refresh": 30, "expire": 7200, "retry": 5, "ver": 1, "ivals": (30, 5, 7200), "mode": 0},
     ["err_nodata_other_ver", "other_version_answer", "truthful"]),
    # an interrupted receive call must not use up "the first PDU of this connection": a version-0 cache is still
    # recognised from its first PDU afterwards
    ({"refresh": 30, "expire": 7200, "retry": 600, "ver": 0, "ivals": (30, 600, 7200), "mode": 0},
     ["intr_before", "truthful", "truthful"]),
    ({"refresh": 30, "expire": 7200, "retry": 600, "ver": 0, "ivals": (30, 600, 7200), "mode": 0},
     ["intr_before", "intr_before", "truthful"]),
]
_told = [0]


def gen(rnd):
    k = _told[0]
    _told[0] += 1
    if k < len(STORIES) or rnd.random() < 0.05:
        cfg, plan = STORIES[k] if k < len(STORIES) else rnd.choice(STORIES)
        return R.build_conversation(rnd, cfg=dict(cfg), plan=plan, chunking=None if k < len(STORIES) else rnd.choice([None, 1, "rand"]))
    return R.build_conversation(rnd, nex=rnd.randint(3, 9), fault_p=0.6, faults=FAULTS,
                                cfg={"ver": rnd.choice([0, 1, 1]), "retry": rnd.choice([1, 600])})


def oracle(tr, script, meta):
    lines = tr.lines
    cons = rtr_common.consumed_pdus(lines, script)
    # (i) versions of the queries never increase; the first query carries the maximum (1)
    qv = []
    for i, l in enumerate(lines):
        if l.startswith("SEND "):
            ps, _, _ = R.parse_pdus(bytes.fromhex(l.split()[1]) if len(l.split()) > 1 else b"")
            for p in ps:
                if p["type"] in (R.SERIAL_QUERY, R.RESET_QUERY):
                    qv.append((i, p["ver"]))
    if qv and qv[0][1] != 1:
        return {"key": "first-version", "what": "the first query does not carry the highest supported version", "got": qv[0][1]}
    for (i0, v0), (i1, v1) in zip(qv, qv[1:]):
        if v1 > v0:
            return {"key": "version-increased", "what": "a later query carries a higher version", "at": i1, "from": v0, "to": v1}
        if v1 < v0:
            # (ii) a decrease needs one of the three causes in between
            cause = False
            for c in cons:
                if not (i0 < c["at"] < i1):
                    continue
                if c.get("event") == "err" and c["code"] == -4:
                    cause = True
                elif "raw" in c and c["first"] and c["raw"][0] < v0 and c["raw"][1] != R.ERROR:
                    cause = True
                elif "raw" in c and c["raw"][1] == R.ERROR and len(c["raw"]) >= 4 and int.from_bytes(c["raw"][2:4], "big") == 4 and c["raw"][0] < v0:
                    cause = True
            if not cause:
                return {"key": "unjustified-downgrade", "what": "the version dropped without any of the three causes", "at": i1, "from": v0, "to": v1}
    # (iii) enforcement: a non-first, non-error PDU whose version differs from the one in force is answered
    # by an Unexpected-Protocol-Version report echoing its header
    cur = {}
    for (i, v) in qv:
        cur[i] = v
    for c in cons:
        if "raw" not in c or c["first"] or c["raw"][1] == R.ERROR:
            continue
        prev = [v for (i, v) in qv if i < c["at"]]
        if not prev:
            continue
        v = prev[-1]
        # first PDU of this connection may have lowered it
        for d in cons:
            if "raw" in d and d["conn"] == c["conn"] and d["first"] and d["at"] < c["at"] and d["raw"][1] != R.ERROR and d["raw"][0] < v:
                v = d["raw"][0]
        ln = int.from_bytes(c["raw"][4:8], "big")
        if c["raw"][0] != v and 8 <= ln <= R.MAX_PDU_LEN:
            rest = [l for l in lines[c["at"] + 1:] if not l.startswith("RECV")]
            nxt = rest[0] if rest else ""
            sent = b""
            for l in rest:            # the transport may split one PDU into several writes
                if not l.startswith("SEND "):
                    break
                sent += bytes.fromhex(l.split()[1]) if len(l.split()) > 1 else b""
            ok = False
            if not sent and nxt.startswith("SENDFAIL"):
                ok = True         # the transport refused the write: no report can be demanded
            if sent:
                ps, _, _ = R.parse_pdus(sent)
                ok = bool(ps) and ps[0]["type"] == R.ERROR and ps[0]["field"] == 8 and ps[0].get("enc") == c["raw"][:8]
                if not ok and any(l.startswith("SENDFAIL") for l in rest[:40]) and not (ps and ps[0]["len"] == len(ps[0]["raw"])):
                    ok = True     # the send itself failed: nothing more can be demanded
            if not ok and c.get("hdr_only"):
                return {"key": "wrong-version-not-refused", "what": "a PDU with a version other than the negotiated one was not answered by an "
                        "Unexpected-Protocol-Version report echoing its header", "pdu_header": c["raw"][:8].hex(), "next": nxt[:120]}
            if not c.get("hdr_only"):
                return {"key": "wrong-version-consumed", "what": "the payload of a PDU with a wrong version was read (it must be refused after its header)",
                        "pdu": c["raw"][:24].hex()}
    return None


def run(chk):
    rtr_common.run_property(chk, THEOREMS, gen, oracle, "C13")


def replay(path):
    return rtr_common.replay_script(path, oracle)
