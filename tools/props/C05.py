"""C05 - queries carry the last completed session and serial; foreign sessions are refused.

Decided by: Coq theorems (Props/Properties_C05.v) about Rtr/RtrModel.v: the exact bytes of the two queries (partial
writes included), which query each state sends, the bookkeeping after a successful rtr_sync, the frame (every model
function other than the successful branch of rtr_sync leaves (request_session_id, session_id, serial) unchanged or
sets request_session_id; lifted to fsm_step and to any run without a successful synchronisation), the four reset
causes, and the refusal of foreign sessions in Cache Response and End of Data.
Tie, checked on every run: the REAL state machine thread of /repo (harness/rtr_run.c) and the extracted model give
the same trace on deterministic session / expiry / wrap-around / partial-send scripts and on cache conversations.
Failing-input search: tools/props/C03_trace.py ghost-tracks (session, serial) of the last exchange that reached
ESTABLISHED, clears it on the reset causes it can see in the script and the trace (Cache Reset, no-data error,
stop, expiry computed from its own simulation of the virtual clock) and checks every query the client sends."""
import rtrsim
import vlib

from props import C03_gen

THEOREMS = ["C05_serial_query_bytes", "C05_reset_query_bytes", "C05_query_choice_connecting_serial",
            "C05_query_choice_connecting_reset", "C05_query_choice_reset_state", "C05_query_choice_established",
            "C05_fresh_socket", "C05_after_success", "C05_frame_sync", "C05_frame_eod", "C05_frame_store_loop",
            "C05_frame_receive_and_store", "C05_frame_step", "C05_frame_stop", "C05_frame_purge", "C05_frame",
            "C05_frame_next_query", "C05_reset_cause_cache_reset", "C05_reset_cause_no_incr_state", "C05_reset_cause_no_data",
            "C05_reset_cause_no_data_state", "C05_reset_cause_expiry", "C05_reset_cause_stop",
            "C05_foreign_session_cache_response", "C05_foreign_session_eod",
            "C05_cache_response_translated", "C05_sync_translated", "C05_fsm_step_translated"]

FAULTS = ["cr_session", "eod_session", "spurious_reset", "err_nodata", "stop", "cr_session", "eod_session", "spurious_reset",
          "err_nodata", "trunc_err", "close_now", "timeout", "err_unsupported_ver", "dup_announce", "err_other"]

WRAP = [0, 1, 2 ** 31 - 1, 2 ** 31, 2 ** 32 - 2, 2 ** 32 - 1]


def _items(rnd, n=4):
    out = []
    while len(out) < n:
        fam = rnd.choice("46")
        w = 32 if fam == "4" else 128
        ln = rnd.choice([0, 8, 24, w])
        bits = "".join(rnd.choice("01") for _ in range(ln)) + "0" * (w - ln)
        it = (fam, bits, ln, rnd.choice([ln, w]), rnd.choice([0, 1, 65000, 2 ** 32 - 1]))
        if it not in out:
            out.append(it)
    return out


def session_scripts(rnd):
    """Deterministic scripts; each returns (lines, meta)."""
    out = []

    def mk(name, ver=1, refresh=30, expire=7200, retry=5, mode=None, opens=None, sends=None):
        s = rtrsim.Script(refresh=refresh, expire=expire, retry=retry, mode=rnd.randint(0, 3) if mode is None else mode)
        s.opens = opens if opens is not None else [True] * 14
        if sends:
            s.sends = sends
        s._name = name
        s._ver = ver
        s._iv = (refresh, retry, expire)
        return s

    def full(s, session, serial, items, cr_session=None, eod_session=None):
        v = s._ver
        return (rtrsim.cache_response(v, session if cr_session is None else cr_session) +
                b"".join(rtrsim.prefix_pdu(v, it, 1) for it in items) +
                rtrsim.eod(v, session if eod_session is None else eod_session, serial, *s._iv))

    def delta(s, session, serial, add=(), wd=(), cr_session=None, eod_session=None):
        v = s._ver
        return (rtrsim.cache_response(v, session if cr_session is None else cr_session) +
                b"".join(rtrsim.prefix_pdu(v, it, 0) for it in wd) + b"".join(rtrsim.prefix_pdu(v, it, 1) for it in add) +
                rtrsim.eod(v, session if eod_session is None else eod_session, serial, *s._iv))

    def done(s, **meta):
        meta.update({"kind": "session", "name": s._name, "ver": s._ver})
        out.append((s.lines(), meta))

    for ver in (1, 0):
        it = _items(rnd, 5)
        S = rnd.choice([0, 42, 65535, rnd.randint(1, 65534)])
        S2 = (S + rnd.choice([1, 57, 65535])) & 0xffff
        for N in (rnd.choice(WRAP), rnd.choice(WRAP), rnd.randint(0, 2 ** 32 - 1)):
            N1, N2 = (N + 1) & 0xffffffff, (N + 2) & 0xffffffff
            # plain: reset query, then two serial queries carrying N and N+1 (wrap-around included)
            s = mk("plain", ver)
            s.data(full(s, S, N, it[:3])); s.wait(31)
            s.data(delta(s, S, N1, add=it[3:4], wd=it[0:1])); s.wait(31)
            s.data(delta(s, S, N2)); s.wait(31)
            done(s, serial=N)
            # foreign session in the Cache Response (the witness of 1aca41c), End of Data matching the held session
            for crs, eods, nm in ((S2, S, "foreign-cr"), (S, S2, "foreign-eod"), (S2, S2, "foreign-both")):
                s = mk(nm, ver)
                s.data(full(s, S, N, it[:3])); s.wait(31)
                s.data(delta(s, S, N1, add=it[3:4], cr_session=crs, eod_session=eods))
                s.data(delta(s, S, N1, add=it[3:4])); s.wait(31)      # answer to the repeated Serial Query (S, N)
                done(s, serial=N)
            # a socket without a session: the two session ids of the response must still agree
            s = mk("first-sync-mismatch", ver)
            s.data(full(s, S, N, it[:3], eod_session=S2))
            s.data(full(s, S, N, it[:3])); s.wait(31)
            done(s, serial=N)
            # Cache Reset, then a new session
            s = mk("cache-reset-new-session", ver)
            s.data(full(s, S, N, it[:3])); s.wait(31)
            s.data(rtrsim.cache_reset(ver))
            s.data(full(s, S2, N2, it[1:4])); s.wait(31)
            s.data(delta(s, S2, (N2 + 1) & 0xffffffff, add=it[4:5])); s.wait(31)
            done(s, serial=N)
            # no data available
            s = mk("no-data", ver, retry=rnd.choice([1, 5, 600]))
            s.data(full(s, S, N, it[:3])); s.wait(31)
            s.data(rtrsim.error_pdu(ver, 2, b"", b"no data"))
            s.data(full(s, S, N1, it[:4])); s.wait(31)
            done(s, serial=N)
            # stop / start while ESTABLISHED and in the middle of a response
            s = mk("stop-established", ver)
            s.data(full(s, S, N, it[:3])); s.stop()
            s.data(full(s, S, N, it[:3])); s.wait(31)
            done(s, serial=N)
            s = mk("stop-in-sync", ver)
            s.data(full(s, S, N, it[:3])); s.wait(31)
            b = delta(s, S, N1, add=it[3:4])
            s.data(b[:rnd.randint(1, len(b) - 1)]); s.stop()
            s.data(full(s, S, N1, it[:4])); s.wait(31)
            done(s, serial=N)
        # expiry through unreachability: transport error, then k failed opens, retry sleeps adding up around expire
        for pre_wait, fails, expect in ((0, 1, "serial"), (1, 1, "reset"), (0, 2, "reset"), (5, 0, "serial")):
            s = mk("expiry", ver, refresh=30, expire=600, retry=300, opens=[True] + [False] * fails + [True] * 8)
            s.data(full(s, S, 7, it[:3]))
            if pre_wait:
                s.wait(pre_wait)
            s.err(1)
            if expect == "serial":
                s.data(delta(s, S, 8, add=it[3:4])); s.wait(31)
            else:
                s.data(full(s, S, 8, it[:4])); s.wait(31)
            done(s, pre_wait=pre_wait, fails=fails, expect=expect)
        # accept-any mode and an expire interval near 2^32 (last_update + expire does not fit 32 bits): nothing expires in this run,
        # every reconnect continues with a Serial Query
        if ver == 1:
            for big in (2 ** 32 - 1, 2 ** 31, 2 ** 32 - 1000):
                s = mk("huge-expire", ver, refresh=30, expire=600, retry=300, mode=1, opens=[True, False, True, False, False] + [True] * 8)
                s._iv = (30, 300, big)
                s.data(full(s, S, 7, it[:3])); s.wait(rnd.choice([0, 5]))
                s.err(1)
                s.data(delta(s, S, 8, add=it[3:4])); s.err(4)
                s.data(delta(s, S, 9, add=it[4:5])); s.wait(31)
                meta_ = {"kind": "session", "name": s._name, "ver": ver, "expire_eff": big}
                out.append((["# expire_eff %d" % big] + s.lines(), meta_))
        # the Reset Query that follows a Cache Reset / a no-data error cannot be sent (transport write fails or takes only a few
        # bytes and then fails): the session is forgotten all the same - after the reconnect a Reset Query, never Serial (S, N)
        for cause in ("cache-reset", "no-data"):
            for sends in ([100, 100, "e1"], [100, 100, 3, "e1"], [100, 100, 8, "e1"], [12, 12, "e1", 100, "e1"]):
                s = mk("reset-query-send-fails", ver, refresh=30, expire=7200, retry=rnd.choice([1, 5]), sends=list(sends))
                s.data(full(s, S, 2 ** 32 - 1, it[:3])); s.wait(31)
                s.data(rtrsim.cache_reset(ver) if cause == "cache-reset" else rtrsim.error_pdu(ver, 2, b"", b"no data"))
                s.data(full(s, S, 0, it[:4])); s.wait(31)
                s.data(delta(s, S, 1, add=it[4:5])); s.wait(31)
                done(s, cause=cause, sends=[str(x) for x in sends])
        # expiry while waiting in the no-data retry sleep (records purged after the sleep)
        s = mk("expiry-in-no-data", ver, refresh=30, expire=600, retry=700)
        s.data(full(s, S, 7, it[:3])); s.wait(31)
        s.data(rtrsim.error_pdu(ver, 2, b"", b""))
        s.data(full(s, S, 8, it[:4])); s.wait(31)
        done(s)
        # partial writes and a failing write of the queries
        for sends in ([1] * 40, [3, 5, 100], [8, "e1", 100], [100, 100, 4, "e1"], [11, 1, 100, 7, 5]):
            s = mk("partial-send", ver, sends=list(sends))
            s.data(full(s, S, 2 ** 32 - 1, it[:3])); s.wait(31)
            s.data(delta(s, S, 0, add=it[3:4])); s.wait(31)
            s.data(delta(s, S, 1)); s.wait(31)
            done(s, sends=[str(x) for x in sends])
    return out


def scripts_for(tier, rnd):
    out = C03_gen.corpus_scripts("C05")
    for _ in range(1 if tier == "quick" else 10):
        out += session_scripts(rnd)

    def cfg_fn(r):
        # short expiry and long retry in a third of the conversations: expiry by unreachability
        if r.random() < 0.35:
            return C03_gen.pinned_cfg(r, refresh=r.choice([1, 30]), expire=600, retry=r.choice([250, 600, 7200]))
        return C03_gen.pinned_cfg(r)
    out += C03_gen.conversations(rnd, 130 if tier == "quick" else 1500, FAULTS, nex=(5, 10), fault_p=0.5, cfg_fn=cfg_fn)
    return out


def stop_during_apply(rnd, n):
    """rtr_stop() arriving while the socket thread is in the middle of applying a response (harness directive
    `stopcb k`: the k-th update callback holds the thread until the main thread is inside rtr_stop).  No model run:
    the outcome must be the one of a stop (C05/C07: session and serial forgotten, this socket's records gone), and the
    next connection must start with a Reset Query.  -> (cases run, list of findings)"""
    import rtrsim as R
    out, ran = [], 0
    for i in range(n):
        c = R.Cache(rnd, ver=1)
        c.mutate(n=rnd.randint(2, 8))
        s = R.Script(refresh=3600, expire=7200, retry=600, mode=0)
        s.opens = [True] * 6
        first = b"".join(c.full())
        ncb = len(c.data)
        two_step = rnd.random() < 0.5
        if two_step:
            s.data(first)
            sn0 = c.serial
            c.mutate(n=rnd.randint(2, 6))
            q = {"type": R.SERIAL_QUERY, "field": c.session, "sn": sn0}
            delta = c.answer(q)
            s.data(R.serial_notify(c.ver, c.session, c.serial) + b"".join(delta))
            k = ncb + rnd.randint(1, max(1, len(delta) - 2))
        else:
            s.data(first)
            k = rnd.randint(1, max(1, ncb))
        s.data(b"".join(c.full()))          # the answer to the query of the next connection
        lines = s.lines()
        lines.insert(1, "stopcb %d" % k)
        rc, a = R.run_impl(lines)
        ran += 1
        tr = R.Trace(a)
        if tr.crash:
            out.append({"key": "stop-during-apply-crash", "what": "abort / sanitizer report", "detail": tr.crash[-1200:], "script": lines})
            continue
        if "STOPCB" not in a:
            continue
        j = a.index("STOPCB")
        dumps = [x for x in range(j, len(a)) if a[x].startswith("DUMP stopped")]
        if not dumps:
            out.append({"key": "stop-during-apply-hang", "what": "rtr_stop did not return", "tail": a[-6:], "script": lines})
            continue
        d = a[dumps[0]]
        recs = []
        for x in a[dumps[0] + 1:]:
            if x == "ENDDUMP":
                break
            recs.append(x)
        mine = [x for x in recs if x.rstrip().endswith(":1")]
        bad = []
        if " reqsess=1 " not in d or " serial=0 " not in d or " last_update=0 " not in d:
            bad.append("bookkeeping after rtr_stop: " + d)
        if mine:
            bad.append("%d records of the stopped socket are still in the tables" % len(mine))
        sends = [x for x in a[dumps[0]:] if x.startswith("SEND ")]
        if sends and len(sends[0].split()[1]) >= 4 and sends[0].split()[1][2:4] != "02":
            bad.append("first query of the next connection is not a Reset Query: " + sends[0][:60])
        if bad:
            out.append({"key": "stop-during-apply", "what": bad, "stopcb": k, "script": lines})
    return ran, out


def run(chk):
    rnd = vlib.rng(5)
    C03_gen.warm_up()
    scripts = scripts_for(chk.tier, rnd)
    C03_gen.run_check(chk, "C05", THEOREMS, scripts,
                      "session / expiry / wrap-around / partial-send scripts and cache conversations")
    ran, bad = stop_during_apply(vlib.rng(55), 16 if chk.tier == "quick" else 300)
    chk.cov["stop_during_apply_cases"] = ran
    chk.cov["evaluations"] = chk.cov.get("evaluations", 0) + ran
    for b in bad[:2]:
        chk.violation({"kind": "rtr_stop in the middle of applying a response (impl vs C05/C07 closed form of a stop)",
                       "detail": b, "script": b.get("script"),
                       "replay_cmd": "build/bin/rtr_run_ubsan < (the lines of script)"}, key=b["key"])
    chk.cov["serial_values_exercised"] = "0, 1, 2^31-1, 2^31, 2^32-2, 2^32-1 and random; wrap 2^32-1 -> 0 in the plain and partial-send scripts"
    chk.assumptions += [
        "C05_after_success assumes duplicate-free tables (invariant proved in C03_tables_stay_sets)",
        "query-byte theorems assume the transport eventually accepts every byte (no send failure): with a failing write the "
        "model, like the code, enters ERROR_TRANSPORT (covered by the correspondence scripts 'partial-send')",
        "serial numbers are never compared by the client (only stored and echoed): no wrap-around arithmetic exists to verify",
    ]
    chk.trusted += [
        "hand-written Rtr/RtrModel.v (fsm_step / rtr_sync / query construction after rtr.c, packets.c), tied by trace equality on this run",
        "the oracle tools/props/C03_trace.py (its own simulation of the mock transport's event queue and clock)",
    ]


def replay(path):
    return C03_gen.replay_file(path, "C05")
