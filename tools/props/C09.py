"""C09 - update callbacks are a complete and exact change log of the prefix table.

Table level (add / remove / remove-by-source / reload diff / free): tools/props/pfx_common.py, theorems C09_history,
C09_free, C09_reload.  Cache-driven changes (application of a response, rollback of a failed one, purge, atomic reload
through the shadow table, stop): theorem C09_cache_driven over the RTR model; its tie is the second phase below -
conversations whose stories are full of reloads run on the real rtr_start thread of /repo and on the extracted model
(trace equality, callback lines included), and an oracle that replays the callbacks of the real run from the tables
as dumped before the run and must arrive at the tables as dumped after it (and after every stop)."""
import time

import rtrsim as R
import vlib
from props import pfx_common
from props.pfx_common import replay as _pfx_replay
from props import rtr_common

# one entry per query of the client; prefixes m: e: k: s: change the cache first (tools/rtrsim.build_conversation)
STORIES = [
    # a reload whose answer holds no prefix at all (keys only / nothing), after data of both kinds was held
    ["m:truthful", "spurious_reset", "k:truthful", "m:truthful"],
    ["m:truthful", "spurious_reset", "e:truthful", "m:truthful", "m:truthful"],
    ["m:truthful", "m:truthful", "s:truthful", "e:truthful", "m:truthful"],
    # session change with a different set, then deltas
    ["m:truthful", "s:m:truthful", "m:truthful", "m:truthful"],
    # reload that fails half-way (shadow tables dropped, nothing reported), then a good one
    ["m:truthful", "spurious_reset", "trunc_err", "m:truthful"],
    ["m:truthful", "spurious_reset", "dup_announce", "truthful", "m:truthful"],
    ["m:truthful", "err_nodata", "m:truthful", "m:truthful"],
    # delta rolled back (unknown withdrawal after announcements), then the same delta again
    ["m:truthful", "m:unknown_withdraw", "truthful", "m:truthful"],
    ["m:truthful", "m:dup_announce", "truthful"],
    # stop in the middle of a response, restart, reload
    ["m:truthful", "m:stop", "truthful", "m:truthful"],
    # expiry-driven purge: nothing but failures for longer than the expire interval
    ["m:truthful", "timeout", "timeout", "timeout", "close_now", "m:truthful"],
]


def rtr_oracle(tr, script, meta):
    """Replay of every PFXCB / KEYCB line of the real run, starting from the tables dumped before the run."""
    lines = tr.lines
    mirror = None
    i, n = 0, len(lines)
    while i < n:
        l = lines[i]
        if l.startswith("DUMP "):
            recs = set()
            j = i + 1
            while j < n and lines[j].startswith("REC "):
                recs.add(lines[j][4:])
                j += 1
            if mirror is None:
                mirror = set(recs)
            elif recs != mirror:
                miss = sorted(recs - mirror)[:3]
                extra = sorted(mirror - recs)[:3]
                return {"key": "callback-replay", "what": "replaying the update callbacks does not reproduce the tables (%s)" % l.split()[1],
                        "in_table_not_in_replay": [x[:90] for x in miss], "in_replay_not_in_table": [x[:90] for x in extra], "at": i}
            i = j
            continue
        if l.startswith("PFXCB ") or l.startswith("KEYCB "):
            if mirror is None:
                mirror = set()
            w = l.split()[1]
            rec = w[1:]
            if w[0] == "+":
                if rec in mirror:
                    return {"key": "callback-replay", "what": "'added' reported for a record that is already present", "at": i, "line": l[:140]}
                mirror.add(rec)
            else:
                if rec not in mirror:
                    return {"key": "callback-replay", "what": "'removed' reported for a record that is not present", "at": i, "line": l[:140]}
                mirror.discard(rec)
        i += 1
    return None


def gen(rnd, k=[0]):
    i = k[0]
    k[0] += 1
    cfg = {"refresh": rnd.choice([1, 30]), "expire": rnd.choice([600, 601]), "retry": rnd.choice([1, 600]), "mode": 0, "ver": 1 if i % 5 else 0,
           "ivals": (3600, 600, 7200)}
    if i < 2 * len(STORIES):
        plan = STORIES[i % len(STORIES)]
    else:
        plan = [rnd.choice(["m:truthful", "m:truthful", "truthful", "spurious_reset", "s:m:truthful", "e:truthful", "k:truthful", "err_nodata",
                            "m:unknown_withdraw", "m:dup_announce", "trunc_err", "m:stop", "timeout", "cr_session", "eod_session"])
                for _ in range(rnd.randint(4, 9))]
    return R.build_conversation(rnd, cfg=cfg, plan=plan, plan_pre=True, chunking=None if i < len(STORIES) else rnd.choice([None, 7, "rand"]))


def run(chk):
    pfx_common.run(chk)
    if chk.violations:
        return
    table_cov = dict(chk.cov)
    pr = chk.proof
    t0 = time.time()
    n = 40 if chk.tier == "quick" else 1500
    budget = 90 if chk.tier == "quick" else 2400
    rnd = vlib.rng(909)
    gen.__defaults__[0][0] = 0
    dist, nrun, bad = {}, 0, None
    reloads = 0
    for _ in range(n):
        if time.time() - t0 > budget:
            chk.notes.append("RTR phase: time budget reached after %d conversations" % nrun)
            break
        s, meta = gen(rnd)
        lines = s.lines()
        rc, a = R.run_impl(lines)
        rc2, b = R.run_model(lines)
        nrun += 1
        for x in meta["exchanges"]:
            dist[x] = dist.get(x, 0) + 1
        tr = R.Trace(a)
        reloads += sum(1 for l in a if "resetting=1" in l) + sum(1 for x in meta["exchanges"] if x in ("spurious_reset", "err_nodata"))
        d = R.first_diff(a, b)
        if tr.crash:
            bad = (s, meta, "crash", {"what": "abort in the Impl run", "detail": tr.crash[-1200:]})
        elif d:
            bad = (s, meta, "tie", {"what": "Impl and Model traces differ", "index": d[0], "impl": d[1][:300], "model": d[2][:300]})
        else:
            o = rtr_oracle(tr, s, meta)
            if o:
                bad = (s, meta, "spec", o)
        if bad:
            break
    chk.cov = table_cov
    chk.cov["evaluations"] = table_cov.get("evaluations", 0) + nrun
    chk.cov["rtr_phase"] = {
        "conversations": nrun, "stories": len(STORIES), "exchanges": dist, "reload_triggers": reloads,
        "rule": "told and random stories of reloads / rollbacks / purges / stops (cache simulator with the model in the loop) on the real "
                "rtr_start thread of /repo and on the extracted model; traces equal line by line; replay of the real run's callbacks from the "
                "initial dump reproduces every later dump",
    }
    chk.cov["tie"] = table_cov.get("tie", "") + "; cache-driven changes: (b) trace equality rtr_run.c vs extracted RtrModel + callback replay of the real trace"
    if bad:
        s, meta, kind, info = bad

        def failing(sc):
            rc, a = R.run_impl(sc.lines())
            rc2, b = R.run_model(sc.lines())
            tr = R.Trace(a)
            if kind == "crash":
                return bool(tr.crash)
            if kind == "tie":
                return bool(R.first_diff(a, b))
            return bool(not tr.crash and rtr_oracle(tr, sc, meta))
        small = R.shrink_script(s, failing)
        chk.violation({"kind": "rtr-" + kind, "script": small.lines(), "exchanges": meta["exchanges"], "detail": info,
                       "proof": pr.broken if pr is not None else None,
                       "replay_cmd": "python3 tools/check.py C09 --replay <this file>"},
                      key=info.get("key") if isinstance(info, dict) else None)


def replay(path):
    import json
    o = json.load(open(path))
    if str(o.get("kind", "")).startswith("rtr-"):
        return rtr_common.replay_script(path, rtr_oracle)
    return _pfx_replay(path)
