"""C09 - see tools/props/pfx_common.py and DESIGN.md section 4."""
from props.pfx_common import run, replay  # noqa: F401
