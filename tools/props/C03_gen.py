"""C03_gen.py - script generators and the shared run / shrink machinery of the C03 and C05 checks.

* conversations(): rtrsim.build_conversation (cache simulator with the MODEL in the loop) with a fault mix and the
  End-of-Data intervals pinned to the configured ones (so the independent oracle can predict expiry from the
  virtual clock; interval handling is C17's subject)
* position_scripts(): deterministic exchanges with one defect at EVERY position of the payload (IPv4, IPv6 and
  router-key group), in incremental and in reload (shadow-table) mode, with foreign records that collide with the
  socket's own ones
* run_both(), shrink(): Impl and Model on the same script; delta-debugging over script lines and over the PDUs
  inside the data events."""
import concurrent.futures
import struct
import time

import rtrsim
import vlib

from props import C03_trace


# ---------------------------------------------------------------------------------------------------------------
def pinned_cfg(rnd, refresh=None, expire=None, retry=None, mode=None, ver=None):
    refresh = refresh if refresh is not None else rnd.choice([1, 30, 3600])
    expire = expire if expire is not None else rnd.choice([600, 7200, 172800])
    retry = retry if retry is not None else rnd.choice([1, 600, 7200])
    cfg = {"refresh": refresh, "expire": expire, "retry": retry, "mode": rnd.randint(0, 3) if mode is None else mode,
           "ivals": (refresh, retry, expire)}
    if ver is not None:
        cfg["ver"] = ver
    return cfg


def conversations(rnd, n, faults, nex=(4, 9), fault_p=0.55, final_good=2, cfg_fn=None):
    out = []
    for _ in range(n):
        cfg = (cfg_fn or pinned_cfg)(rnd)
        s, meta = rtrsim.build_conversation(rnd, nex=rnd.randint(*nex), fault_p=fault_p, cfg=cfg, faults=faults,
                                            final_good=final_good)
        out.append((s.lines(), {"kind": "conversation", "exchanges": meta["exchanges"]}))
    return out


# ---------------------------------------------------------------------------------------------------------------
def _pool(rnd):
    def pfx(fam):
        w = 32 if fam == "4" else 128
        ln = rnd.choice([0, 8, 16, 24, w, rnd.randint(1, w)])
        bits = "".join(rnd.choice("01") for _ in range(ln)) + "0" * (w - ln)
        return ("p", (fam, bits, ln, rnd.choice([ln, w, min(w, ln + 3)]), rnd.choice([0, 1, 65000, 2 ** 32 - 1])))
    items = []
    while len(items) < 12:
        x = pfx("4" if len(items) < 6 else "6")
        if x not in items:
            items.append(x)
    keys = []
    while len(keys) < 6:
        k = ("k", (rnd.choice([1, 7, 65000]), rnd.randint(0, 60000)))
        if k not in keys:
            keys.append(k)
    return items[:6], items[6:], keys


def _pdu(ver, it, flags):
    return rtrsim.prefix_pdu(ver, it[1], flags) if it[0] == "p" else rtrsim.key_pdu(ver, it[1], flags)


FAULT_KINDS = ["dup_existing", "dup_in_delta", "unknown_withdraw", "bad_flags", "announce_withdraw_dup", "prefix_len_big",
               "cut_err", "cut_close", "cut_timeout", "cut_stop", "eod_session", "cr_session", "none"]


def position_scripts(rnd, reload_mode=False, kinds=None, positions=None):
    """One script per (fault kind, position)."""
    ver = rnd.choice([1, 1, 0])
    v4, v6, ks = _pool(rnd)
    if ver == 0:
        ks_use = []
    else:
        ks_use = ks
    session = rnd.choice([0, 1, 42, 65535, rnd.randint(0, 65535)])
    serial = rnd.choice([0, 7, 2 ** 32 - 2, 2 ** 32 - 1, rnd.randint(0, 2 ** 32 - 1)])
    refresh, expire, retry = 30, 7200, rnd.choice([1, 5, 600])
    mode = rnd.randint(0, 3)
    d0 = v4[:3] + v6[:3] + ks_use[:3]
    # the second response
    if not reload_mode:
        wd = [v4[0]] + ([ks_use[0]] if ks_use else []) + [v6[0]]
        an = [v4[3], v4[4], v6[3]] + ([ks_use[3], ks_use[4]] if ks_use else []) + [v6[4]]
        payload = [(x, 0) for x in wd] + [(x, 1) for x in an]
        rnd.shuffle(payload)
        d1 = [x for x in d0 if x not in wd] + an
    else:
        d1 = [v4[1], v4[3], v4[4], v6[1], v6[3]] + ([ks_use[1], ks_use[3]] if ks_use else [])
        payload = [(x, 1) for x in d1]
        rnd.shuffle(payload)
    serial1 = (serial + 1) & 0xffffffff
    serial2 = (serial1 + 1) & 0xffffffff
    unused = [v4[5], v6[5]] + ([ks_use[5]] if ks_use else [])
    pre = []
    for it, src in ((v4[0], 2), (v4[3], 0), (v6[3], 3), (v4[5], 0)) + (((ks_use[0], 0), (ks_use[3], 3)) if ks_use else ()):   # source 0 = no socket (added by the application)
        pre.append(("pre pfx %s %s %d %d %d %d" % (it[1] + (src,))) if it[0] == "p" else ("pre key %d %d %d" % (it[1] + (src,))))

    def eod(s, sn):
        return rtrsim.eod(ver, s, sn, refresh, retry, expire)

    def base():
        s = rtrsim.Script(refresh=refresh, expire=expire, retry=retry, mode=mode)
        s.pre = list(pre)
        s.opens = [True] * 12
        s.data(rtrsim.cache_response(ver, session) + b"".join(_pdu(ver, x, 1) for x in d0) + eod(session, serial))
        s.wait(refresh + 1)                   # refresh timer -> Serial Query
        if reload_mode:
            s.data(rtrsim.cache_reset(ver))   # -> Reset Query, answered by a reload into shadow tables
        return s

    out = []
    npos = len(payload)
    for kind in (kinds or FAULT_KINDS):
        if kind in ("eod_session", "cr_session", "none"):
            poss = [0]
        else:
            poss = range(npos + 1) if positions is None else positions
        for pos in poss:
            pdus = [_pdu(ver, x, f) for x, f in payload]
            cut_after = None
            tail_ev = None
            eod_s, cr_s = session, session
            if kind == "dup_existing":
                # a record that is in the table the update works on at this point
                present = [x for x in (d0 if not reload_mode else []) if x not in [y for y, f in payload[:pos] if f == 0]] + \
                          [y for y, f in payload[:pos] if f == 1]
                if not present:
                    continue
                pdus.insert(pos, _pdu(ver, rnd.choice(present), 1))
            elif kind == "dup_in_delta":
                ann = [y for y, f in payload[:pos] if f == 1]
                if not ann:
                    continue
                pdus.insert(pos, _pdu(ver, ann[-1], 1))
            elif kind == "unknown_withdraw":
                pdus.insert(pos, _pdu(ver, rnd.choice(unused), 0))
            elif kind == "bad_flags":
                p = bytearray(_pdu(ver, rnd.choice(unused), 1))
                p[2 if p[1] == 9 else 8] = rnd.choice([2, 3, 128, 255])
                pdus.insert(pos, bytes(p))
            elif kind == "announce_withdraw_dup":
                x = rnd.choice(unused)
                pdus[pos:pos] = [_pdu(ver, x, 1), _pdu(ver, x, 0)]
                pdus.append(pdus[-1] if payload[-1][1] == 1 else _pdu(ver, [y for y, f in payload if f == 1][0], 1))
            elif kind == "prefix_len_big":
                x = rnd.choice([u for u in unused if u[0] == "p"])
                p = bytearray(_pdu(ver, x, 1))
                p[9] = 33 if p[1] == 4 else 129
                p[10] = rnd.choice([p[9], 255])
                pdus.insert(pos, bytes(p))
                cut_after = pos + 1
            elif kind.startswith("cut_"):
                cut_after = pos
                tail_ev = kind[4:]
            elif kind == "eod_session":
                eod_s = (session + rnd.choice([1, 255, 65535])) & 0xffff
            elif kind == "cr_session":
                cr_s = (session + rnd.choice([1, 7, 65535])) & 0xffff
            s = base()
            body = rtrsim.cache_response(ver, cr_s)
            if cut_after is None:
                body += b"".join(pdus) + eod(eod_s, serial1)
                s.data(body)
            else:
                body += b"".join(pdus[:cut_after])
                if tail_ev is not None and cut_after < len(pdus):
                    body += pdus[cut_after][:rnd.randint(0, len(pdus[cut_after]) - 1)]
                elif tail_ev is not None:
                    e = eod(session, serial1)
                    body += e[:rnd.randint(0, len(e) - 1)]
                s.data(body)
                if tail_ev == "err":
                    s.err(1)
                elif tail_ev == "close":
                    s.err(4)
                elif tail_ev == "timeout":
                    s.wait(61)
                elif tail_ev == "stop":
                    s.stop()
            # the next query and a good answer to it
            failed = kind != "none"
            if not failed:
                s.wait(refresh + 1)
                s.data(rtrsim.cache_response(ver, session) + eod(session, serial2))
                s.wait(refresh + 1)
            elif tail_ev == "stop" or reload_mode:
                # Reset Query expected
                s.data(rtrsim.cache_response(ver, session) + b"".join(_pdu(ver, x, 1) for x in d1) + eod(session, serial1))
                s.wait(refresh + 1)
            else:
                s.data(rtrsim.cache_response(ver, session) + b"".join(_pdu(ver, x, f) for x, f in payload) + eod(session, serial1))
                s.wait(refresh + 1)
            out.append((s.lines(), {"kind": "position", "fault": kind, "pos": pos, "of": npos, "reload": reload_mode, "ver": ver,
                                    "group": (["v4", "v6", "key"][[4, 6, 9].index(pdus[pos][1])] if pos < len(pdus) and pdus[pos][1] in (4, 6, 9) else "end")}))
    return out


# ---------------------------------------------------------------------------------------------------------------
def warm_up():
    """Build the harness variants and the extracted model once, before any parallel use."""
    rtrsim.impl_exe("asan")
    rtrsim.impl_exe("ubsan")
    rtrsim.run_model(["cfg 3600 7200 600 0", "run"])


def run_both(lines):
    for attempt in range(5):
        try:
            rc_i, impl = rtrsim.run_impl(lines)
            rc_m, model = rtrsim.run_model(lines)
            return rc_i, impl, model
        except OSError as e:          # ETXTBSY while another check rebuilds the shared binaries
            if e.errno != 26 or attempt == 4:
                raise
            time.sleep(1.0)


def evaluate(lines, props=("C03", "C05")):
    """Run Impl and Model, compare, run the oracle. Returns dict(tie=None|(i,impl,model), crash, problems, walk)."""
    rc_i, impl, model = run_both(lines)
    tr = rtrsim.Trace(impl)
    res = {"tie": None, "crash": None, "problems": [], "walk": None, "impl": impl, "model": model}
    if tr.crash or rc_i not in (0,):
        res["crash"] = (tr.crash or "")[-1500:] or "exit code %d" % rc_i
    d = rtrsim.first_diff(impl, model)
    if d is not None:
        res["tie"] = d
    wk = C03_trace.Walk(lines, impl)
    res["walk"] = wk
    res["problems"] = [p for p in wk.problems if p["prop"] in props]
    return res


def evaluate_many(scripts, props, workers=None):
    warm_up()
    workers = workers or min(8, vlib.NCPU)
    with concurrent.futures.ThreadPoolExecutor(max_workers=workers) as ex:
        return list(ex.map(lambda sm: evaluate(sm[0], props), scripts))


def _split_pdus(b):
    """Split bytes into PDUs if they parse cleanly, else None."""
    out, i = [], 0
    while i < len(b):
        if len(b) - i < 8:
            return None
        ln = struct.unpack(">I", b[i + 4:i + 8])[0]
        if ln < 8 or ln > len(b) - i:
            return None
        out.append(b[i:i + ln])
        i += ln
    return out


def shrink(lines, still_fails, budget=250):
    """Delta-debug: drop script lines (events, pre-populated records), then PDUs inside data events."""
    cur = list(lines)
    runs = 0

    def try_(cand):
        nonlocal runs
        runs += 1
        return runs <= budget and still_fails(cand)

    # 0. un-chunk: merge adjacent data events (so that whole PDUs can be dropped later)
    merged, acc = [], None
    for l in cur:
        if l.startswith("ev data "):
            acc = (acc or "") + l.split()[2]
        else:
            if acc is not None:
                merged.append("ev data " + acc)
                acc = None
            merged.append(l)
    if acc is not None:
        merged.append("ev data " + acc)
    if len(merged) < len(cur) and try_(merged):
        cur = merged
    # 1. cut the tail
    evidx = [i for i, l in enumerate(cur) if l.startswith("ev ")]
    lo, hi = 0, len(evidx)
    while lo < hi and runs < budget:
        mid = (lo + hi) // 2
        keep = set(evidx[:mid])
        cand = [l for i, l in enumerate(cur) if not l.startswith("ev ") or i in keep]
        if try_(cand):
            hi = mid
        else:
            lo = mid + 1
    keep = set(evidx[:hi])
    cand = [l for i, l in enumerate(cur) if not l.startswith("ev ") or i in keep]
    if still_fails(cand):
        cur = cand
    # 2. drop single lines
    changed = True
    while changed and runs < budget:
        changed = False
        for i in range(len(cur) - 1, -1, -1):
            if not (cur[i].startswith("ev ") or cur[i].startswith("pre ") or cur[i].startswith("send ")):
                continue
            cand = cur[:i] + cur[i + 1:]
            if try_(cand):
                cur = cand
                changed = True
    # 3. drop PDUs inside data events
    for i in range(len(cur)):
        if not cur[i].startswith("ev data "):
            continue
        ps = _split_pdus(bytes.fromhex(cur[i].split()[2]))
        if not ps or len(ps) < 2:
            continue
        j = len(ps) - 1
        while j >= 0 and runs < budget:
            cand_ps = ps[:j] + ps[j + 1:]
            cand = cur[:i] + ["ev data " + b"".join(cand_ps).hex()] + cur[i + 1:]
            if cand_ps and try_(cand):
                ps = cand_ps
                cur = cand
            j -= 1
    return cur


def describe_script(lines):
    """Human-readable rendering of a script for the replay file."""
    out = []
    for l in lines:
        if l.startswith("ev data "):
            b = bytes.fromhex(l.split()[2])
            ps = _split_pdus(b)
            if ps is None:
                out.append("ev data <%d bytes, not PDU-aligned> %s" % (len(b), b.hex()))
            else:
                d = []
                for p in ps:
                    t = p[1]
                    name = rtrsim.PDU_NAMES[t] if t < len(rtrsim.PDU_NAMES) else "TYPE%d" % t
                    if t in (4, 6, 9) and len(p) >= 20:
                        rec, fl = C03_trace.pdu_record(p) if len(p) in (20, 32, 123) else ("?", "?")
                        d.append("%s(flags=%s %s)" % (name, fl, rec[:60]))
                    elif t in (3, 7, 0):
                        extra = ""
                        if t in (7, 0) and len(p) >= 12:
                            extra = " serial=%d" % struct.unpack(">I", p[8:12])[0]
                        d.append("%s(session=%d%s)" % (name, struct.unpack(">H", p[2:4])[0], extra))
                    else:
                        d.append("%s(len=%d)" % (name, len(p)))
                out.append("ev data " + " ".join(d))
        else:
            out.append(l)
    return out


# ---------------------------------------------------------------------------------------------------------------
# the driver shared by C03.py and C05.py
# ---------------------------------------------------------------------------------------------------------------
import json
import os
import re


def corpus_scripts(pid):
    d = os.path.join(vlib.VERIF, "corpus", pid)
    out = []
    if os.path.isdir(d):
        for f in sorted(os.listdir(d)):
            if f.endswith(".txt"):
                lines = [l.rstrip("\n") for l in open(os.path.join(d, f)) if l.strip() and not l.startswith("#")]
                out.append((lines, {"kind": "corpus", "file": f}))
    return out


def slug(s):
    return re.sub(r"[^a-z0-9]+", "-", s.lower()).strip("-")[:60]


def same_record_twice_before_failure(lines):
    """Predicate of the fixed finding forward-undo-partial: some data event announces and withdraws one record."""
    for l in lines:
        if not l.startswith("ev data "):
            continue
        ps = _split_pdus(bytes.fromhex(l.split()[2]))
        if not ps:
            continue
        seen = {}
        for p in ps:
            if p[1] in (4, 6, 9) and len(p) in (20, 32, 123):
                rec, fl = C03_trace.pdu_record(p)
                seen.setdefault(rec, set()).add(fl)
        if any(len(v) > 1 for v in seen.values()):
            return True
    return False


def run_check(chk, pid, theorems, scripts, searched):
    """Common body of run(): proofs, Impl vs Model (tie), oracle on Impl, shrinking, replay files, coverage."""
    props = (pid,)
    pr = vlib.check_proofs(pid, theorems)
    chk.proof = pr
    t0 = time.time()
    results = evaluate_many(scripts, props)
    n_ex = 0
    outcomes = {}
    labels = {}
    distinct = set()
    desync = 0
    ambiguous = 0
    queries = 0
    failing = []          # (kind, index)
    for idx, ((lines, meta), r) in enumerate(zip(scripts, results)):
        wk = r["walk"]
        if wk.desync:
            desync += 1
        ambiguous += wk.ambiguous
        queries += len(wk.queries)
        for e in wk.exchanges:
            n_ex += 1
            outcomes[e.outcome] = outcomes.get(e.outcome, 0) + 1
        if meta.get("kind") == "position":
            oc = tuple(e.outcome for e in wk.exchanges)
            distinct.add((meta["fault"], meta["group"], meta["reload"], min(meta["pos"], 3) if meta["pos"] < meta["of"] else "last", oc))
            labels[meta["fault"]] = labels.get(meta["fault"], 0) + 1
        elif meta.get("kind") == "session":
            distinct.add((meta["name"], meta["ver"], str(sorted((k, str(v)) for k, v in meta.items() if k in ("expect", "fails", "pre_wait", "sends"))),
                          tuple(e.outcome for e in wk.exchanges), tuple(q[1][0] for q in wk.queries)))
            labels[meta["name"]] = labels.get(meta["name"], 0) + 1
        elif meta.get("kind") == "conversation":
            for lab in meta["exchanges"]:
                labels[lab] = labels.get(lab, 0) + 1
            ocs = [e.outcome for e in wk.exchanges]
            for lab, oc in zip([x for x in meta["exchanges"] if x not in ("refresh-timeout", "notify", "stop", "err-while-established",
                                                                          "junk-while-established", "late-junk-while-established")], ocs):
                distinct.add((lab, oc))
        if r["crash"]:
            failing.append(("impl-crash", idx))
        if r["problems"]:
            failing.append(("impl-vs-spec", idx))
        if r["tie"] is not None:
            failing.append(("impl-vs-model (tie)", idx))
    # report: one shrunk replay per kind (the first two scripts of each kind)
    seen_kind = {}
    for kind, idx in failing:
        seen_kind.setdefault(kind, [])
        if len(seen_kind[kind]) >= 2:
            continue
        seen_kind[kind].append(idx)
        lines, meta = scripts[idx]

        def still(cand, kind=kind):
            rr = evaluate(cand, props)
            if kind == "impl-crash":
                return bool(rr["crash"])
            if kind == "impl-vs-spec":
                return bool(rr["problems"])
            return rr["tie"] is not None
        small = shrink(lines, still, budget=120 if chk.tier == "quick" else 400)
        rr = evaluate(small, props)
        clause = rr["problems"][0]["clause"] if rr["problems"] else None
        if kind == "impl-vs-spec":
            if pid == "C03" and same_record_twice_before_failure(small) and clause and "fail" in clause:
                key = "forward-undo-partial"
            elif pid == "C05" and clause == "foreign session refused":
                key = "foreign-session-applied"
            else:
                key = "%s:%s" % (pid.lower(), slug(clause or "oracle"))
        elif kind == "impl-crash":
            key = "impl-crash"
        else:
            key = "impl-vs-model (tie)"
        d = rr["tie"]
        obj = {"kind": kind, "script": small, "script_readable": describe_script(small), "generated_as": meta,
               "original_script_lines": len(lines),
               "oracle": rr["problems"][:6],
               "first_trace_difference": None if d is None else {"line": d[0], "impl": d[1], "model": d[2]},
               "impl_trace": rr["impl"][-120:], "model_trace": rr["model"][-120:] if d is not None else None,
               "crash": rr["crash"], "proof": pr.broken,
               "expected": "Impl trace == Model trace; oracle (tools/props/C03_trace.py) finds no clause violated",
               "replay_cmd": "python3 tools/check.py %s --replay <this file>" % pid}
        chk.violation(obj, key=key, tag="%s-%s-%d" % (vlib.seed(), slug(kind), len(seen_kind[kind])))
    chk.cov.update({
        "evaluations": n_ex, "scripts": len(scripts), "queries_checked": queries,
        "distinct_nontrivial": len(distinct),
        "rule": "evaluations = exchanges (query .. outcome) of the real state machine judged by the independent oracle; "
                "distinct = different (fault kind, PDU group, position class, reload?, outcome sequence) of the every-position scripts "
                "plus different (cache behaviour, outcome) pairs of the conversations",
        "exchange_outcomes": outcomes, "cache_behaviours": labels,
        "oracle_could_not_follow": desync, "ambiguous_response_boundaries": ambiguous,
        "samples": [{"meta": scripts[i][1], "script": describe_script(scripts[i][0])[:14]} for i in (0, len(scripts) // 2, len(scripts) - 1)] if scripts else [],
        "tie": "(b) Impl (harness/rtr_run.c: the real rtr_start thread of /repo, mock transport, virtual clock, ASan/UBSan + asserts) and "
               "Model (extracted Rtr/RtrModel.v) produce the same trace line by line on every script (callback blocks compared as sorted sets)",
        "search_wall_s": round(time.time() - t0, 1),
    })
    if desync > max(2, len(scripts) // 50):
        chk.notes.append("oracle lost track of the mock transport on %d scripts (not counted as checked)" % desync)
    if not pr.ok and not chk.violations:
        chk.proof_broken(pr, searched + ": Impl == Model on %d scripts, oracle silent on %d exchanges" % (len(scripts), n_ex))
    return results


def replay_file(path, pid):
    o = json.load(open(path))
    lines = o.get("script")
    if not lines:
        print("replay file names no input:", json.dumps(o.get("broken") or o.get("detail"))[:2000])
        return 1
    warm_up()
    r = evaluate(lines, (pid,))
    print("\n".join(describe_script(lines)))
    print("--- Impl trace (tail)")
    print("\n".join(r["impl"][-60:]))
    if r["tie"] is not None:
        print("--- first difference Impl / Model at canonical line %d:\n  impl : %s\n  model: %s" % r["tie"])
    for p in r["problems"]:
        print("--- oracle: [%s] %s (trace line %d): %s" % (p["prop"], p["clause"], p["line"], p["detail"]))
    if r["crash"]:
        print("--- crash:", r["crash"])
    bad = bool(r["problems"]) or r["tie"] is not None or bool(r["crash"])
    print("RESULT:", "violation reproduced" if bad else "no violation on this tree")
    return 1 if bad else 0
