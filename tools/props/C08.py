"""C08 - after any finite run of faults the client re-converges on the cache's data.

Decided by: Coq theorems of Props/Properties_C08.v over Rtr/RtrModel.v (no iteration of the state machine without
consuming input or letting time pass; the bookkeeping invariant; one truthful exchange synchronises; bounded recovery
from every single error state).  Tie: Impl trace == Model trace on every script.  Failing-input search: fault
enumeration - every (call site x fault kind) singly and in pairs - followed by a quiet, truthful cache; the oracle
reads only the Impl trace, the script and the simulated cache's final data set."""
import concurrent.futures
import itertools
import json
import os
import time

import rtrsim as R
import vlib
from props import C07_lib as L
from props import C08_faults as F

THEOREMS = ["C08_no_stutter", "C08_no_stutter_iter", "C08_zero_time_bounded", "C08_inv", "C08_receive_any_chunking",
            "C08_one_good_exchange", "C08_one_good_exchange_example", "C08_converge_partial", "C08_zero_time_example",
            "C08_reconnect_paced", "C08_converge", "C08_converge_reachable", "C08_converge_full_refuted", "C08_converge_full_repaired_holds",
            "C08_snapshot", "C08_snapshot_step", "C08_snapshot_gives_hyp", "C08_answer_truthful_reset", "C08_answer_truthful_delta",
            "C08_converge_after_any_faults"]

CFGS = [(3600, 7200, 600, 0), (1, 600, 1, 2), (30, 7200, 7200, 3), (86400, 172800, 600, 1), (3600, 600, 1, 0)]


def bound(cfg, downgrade_ahead=False):
    """Virtual-time bound of the recovery once the cache answers correctly again.  Client and cache at the same protocol version
    (the hypothesis `version (sk w) = c_ver c` of theorem C08_converge): one refresh wait, one retry sleep and the two 60 s transport
    timeouts.  Client still at a higher version than the cache when the last fault is over: the cache's (correct) answer in its own
    version is refused once - Error Report, ERROR_FATAL, one more retry sleep - before the reconnect on which the first PDU lowers
    the version (C13): one more retry interval and exchange.  Both are "refresh, expire and a small multiple of retry" (C08's text)."""
    refresh, expire, retry, mode = cfg
    return refresh + retry + 2 * 60 + ((retry + 60) if downgrade_ahead else 0)


def build(seed, faults, cfg_i=None, ver=None):
    rnd = vlib.rng(80000 + seed)
    cfg = CFGS[cfg_i if cfg_i is not None else rnd.randrange(len(CFGS))]
    c = L.Conv(rnd, cfg, ver=ver if ver is not None else rnd.choice([1, 1, 0]), npre=rnd.randint(0, 2),
               chunk=rnd.choice([None, None, 5, "rand"]), nopens=400)
    F.seed_cache(c)
    placed = []
    for f in faults:
        if f["site"][0] == "open" and not placed and not c.s.evs:
            for i in range(int(f["kind"].split("*")[1])):         # the very first connection attempts fail
                c.s.opens[i] = False
            c.steps.append("fault " + F.fname(f))
            placed.append(True)
            continue
        placed.append(bool(F.inject(c, f)))
        if not c.ok:
            break
    c.model_trace()
    good_from = {"evs": len([e for e in c.s.evs if not (e[0] == "data" and not e[1])]), "sends": len(c.s.sends),
                 "opens": max([i for i, o in enumerate(c.s.opens) if not o], default=-1) + 1}
    answered = F.settle(c, good=2)
    meta = c.meta()
    meta.update({"faults": [F.fname(f) for f in faults], "placed": placed, "good_from": good_from, "answered_after": answered,
                 "cfg": list(cfg), "built_ok": c.ok})
    return c.s, meta


# ---------------------------------------------------------------------------
# oracle
# ---------------------------------------------------------------------------
def oracle(tr, script, meta, stats=None):
    lines = tr.lines
    try:
        ann = L.annotate(lines, script)
    except L.ClockError as e:
        return {"key": "clock", "what": "the trace does not fit the script's events: %s" % e}
    cfg = script.cfg
    # (a) never touches a dead transport again: after a receive reported an error or a closed connection
    #     the next transport call is close() - a receive on a closed connection returns at once, for ever
    dead = None
    for i, l in enumerate(lines):
        w = l.split()
        if w[0] == "RECV" and w[3] == "ERR" and w[4] in ("-1", "-4"):
            dead = (i, l)
        elif w[0] in ("RECV", "SEND", "SENDFAIL") and dead is not None:
            return {"key": "dead-transport-reused", "what": "after %r the client calls the transport again without closing it: on a real, "
                    "closed connection this call returns at once and the loop spins without letting time pass" % dead[1], "at": i, "line": l[:120]}
        elif w[0] in ("CLOSE", "STOPPING"):
            dead = None
    # (b) no two connection attempts at the same instant unless input was consumed in between
    last_open = None
    consumed = False
    for i, l in enumerate(lines):
        w = l.split()
        if w[0] == "RECV" and w[3] != "WOULDBLOCK":
            consumed = True
        elif w[0] == "OPEN":
            t = ann[i]["t"]
            if last_open is not None and last_open == t and not consumed:
                return {"key": "zero-time-reconnect", "what": "two connection attempts at t=%d with no input consumed and no time passed in between" % t, "at": i}
            last_open, consumed = t, False
    # (b') error states wait retry_interval before the next connection attempt
    need_sleep = None
    for i, l in enumerate(lines):
        w = l.split()
        if w[0] == "STATE" and w[1] in ("7", "8"):
            need_sleep = i
        elif w[0] == "SLEEP" and int(w[1]) >= 1:
            need_sleep = None
        elif w[0] == "STOPPING":
            need_sleep = None
        elif w[0] == "OPEN" and need_sleep is not None:
            return {"key": "reconnect-without-wait", "what": "a connection attempt follows an error state (trace line %d) without the retry sleep" % need_sleep, "at": i}
    # (c) no long zero-time, zero-input stretch of loop iterations
    run = 0
    tprev = None
    for i, l in enumerate(lines):
        w = l.split()
        t = ann[i]["t"]
        if (w[0] == "RECV" and w[3] != "WOULDBLOCK") or w[0] == "OPEN" or t != tprev:
            run = 0
        elif w[0] == "STATE":
            run += 1
            if run > 12:
                return {"key": "stutter", "what": "more than 12 state changes without consuming input, opening a connection or letting time pass", "at": i}
        tprev = t
    if meta.get("cache_final") is None:
        return None
    # (d) convergence: ESTABLISHED with the cache's data, session and serial
    want = L.cache_records(meta["cache_final"])
    fin = tr.final()
    if fin is None:
        return {"key": "no-final-dump", "what": "the run printed no final DUMP"}
    tag, f, recs = fin
    mine = set(r for r in recs if L.own(r))
    if stats is not None:
        stats["answered_after"][meta.get("answered_after", 0)] = stats["answered_after"].get(meta.get("answered_after", 0), 0) + 1
    if meta.get("answered_after", 0) == 0:
        return {"key": "no-query", "what": "with a correct cache and open transport the client never sent a query again (script ended state=%s)" % f["state"]}
    if f["state"] != "1":
        return {"key": "not-established", "what": "after %d truthful exchanges the client is in state %s, not ESTABLISHED" % (meta["answered_after"], f["state"]),
                "final": {k: f[k] for k in ("state", "session", "serial", "reqsess", "last_update", "resetting")}}
    if mine != want:
        return {"key": "wrong-data", "what": "ESTABLISHED but the records of this socket differ from the cache's data set",
                "missing": sorted(want - mine)[:3], "extra": sorted(mine - want)[:3]}
    cf = meta["cache_final"]
    if int(f["session"]) != cf["session"] or int(f["serial"]) != cf["serial"] or f["reqsess"] != "0":
        return {"key": "wrong-serial", "what": "ESTABLISHED with session %s serial %s reqsess %s, cache has %d / %d" % (f["session"], f["serial"], f["reqsess"], cf["session"], cf["serial"])}
    # (e) within the bound: T0 = the instant the last fault was consumed, T1 = first ESTABLISHED with the cache's data afterwards
    g = meta.get("good_from")
    if g:
        t0 = 1000
        nev = nsend = nopen = 0
        idx0 = 0
        evs = [e for e in script.evs if not (e[0] == "data" and not e[1])]
        # how many events are completely consumed after each line
        done = 0
        off = 0
        for i, a in enumerate(ann):
            w = a["line"].split()
            if w[0] == "RECV":
                done += len(a["consumed"])
                if "bytes" in a:
                    off += len(a["bytes"])
                    if done < len(evs) and evs[done][0] == "data" and off == len(evs[done][1]):
                        done += 1
                        off = 0
                if (done <= g["evs"] and (a["consumed"] or "bytes" in a)) or (done < g["evs"] and a.get("touched_wait")):
                    t0, idx0 = max(t0, a["t"]), i
            elif w[0] in ("SEND", "SENDFAIL"):
                nsend += 1
                if nsend <= g["sends"]:
                    t0, idx0 = max(t0, a["t"]), i
            elif w[0] == "OPEN":
                nopen += 1
                if nopen <= g["opens"]:
                    t0, idx0 = max(t0, a["t"]), i
        # replay callbacks to find the first ESTABLISHED with the right data after idx0
        recs_now = set()
        t1 = None
        for i, a in enumerate(ann):
            w = a["line"].split()
            if w[0] in ("PFXCB", "KEYCB") and L.own(w[1][1:]):
                (recs_now.add if w[1][0] == "+" else recs_now.discard)(w[1][1:])
            elif w[0] == "STATE" and w[1] == "1" and i > idx0 and recs_now == want:
                t1 = a["t"]
                break
        if t1 is None and not (ann and idx0 == 0):
            # already established with the right data when the last fault was consumed and never left
            t1 = t0
        # the version the client speaks when the last fault is over: the version byte of the last PDU it sent up to then
        cver = None
        for a in ann[:idx0 + 1]:
            w = a["line"].split()
            if w[0] == "SEND" and len(w) > 1 and len(w[1]) >= 2:
                cver = int(w[1][:2], 16)
        cache_ver = (meta.get("cache_final") or {}).get("ver")
        ahead = cver is not None and cache_ver is not None and cver > cache_ver
        b = bound(cfg, downgrade_ahead=ahead)
        if t1 is not None:
            meta["recovery_ratio"] = (t1 - t0) / float(b)
        if stats is not None and t1 is not None:
            stats["max_recovery_over_bound"] = max(stats["max_recovery_over_bound"], (t1 - t0) / float(b))
        if t1 is not None and t1 - t0 > b:
            return {"key": "too-slow", "what": "recovery took %d s of protocol time after the last fault, bound %d (refresh %d + retry %d + 120%s)" % (t1 - t0, b, cfg[0], cfg[2], ", + retry + 60: version downgrade still ahead" if ahead else ""),
                    "t0": t0, "t1": t1}
    return None


# ---------------------------------------------------------------------------
def check_one(script, meta, stats=None):
    r = L.run_pair(script, impl_timeout=25)
    tr = R.Trace(r["impl"])
    if r["hung"]:
        return ("hang", {"key": "hang", "what": "the state machine did not finish the script within the wall-clock limit (it ends only by script "
                         "exhaustion): it loops without consuming input or it produced an unbounded trace", "lines": len(r["impl"]),
                         "tail": [x[:100] for x in r["impl"][-8:]]}, r)
    if tr.crash:
        return ("crash", {"key": "crash", "what": "sanitizer/assert abort or garbage in the Impl trace", "detail": tr.crash[-1500:]}, r)
    d = R.first_diff(r["impl"], r["model"])
    o = oracle(tr, script, meta, stats)
    if o:
        if d:
            o = dict(o, tie_also_broken={"index": d[0], "impl": d[1][:200], "model": d[2][:200]})
        return ("spec", o, r)
    if d:
        return ("tie", {"key": "tie", "what": "Impl and Model traces differ", "index": d[0], "impl": d[1][:300], "model": d[2][:300]}, r)
    return None


def job(args):
    seed, faults = args
    try:
        s, meta = build(seed, faults)
    except Exception as e:  # noqa: BLE001
        return (args, None, None, ("internal", {"key": "generator", "what": "generator error: %r" % (e,)}, None))
    return (args, s, meta, check_one(s, meta, None))


def run(chk):
    pr = vlib.check_proofs("C08", THEOREMS)
    chk.proof = pr
    quick = chk.tier == "quick"
    budget = 120 if quick else 1700
    t0 = time.time()
    R.impl_exe("asan")
    R.impl_exe("ubsan")
    vlib.build_model()
    rnd = vlib.rng(808)
    stats = {"answered_after": {}, "max_recovery_over_bound": 0.0}
    allf = F.all_faults()
    core = F.core_faults()
    singles = [(i, [f]) for i, f in enumerate(allf)]
    pairs = [(10000 + i, [a, b]) for i, (a, b) in enumerate(itertools.product(core, core))]
    if quick:
        rnd.shuffle(pairs)
    corpus = L.corpus_scripts("C08")
    first_bad = None
    nrun = nsingle = npair = nplaced = 0
    dist = {}
    samples = []
    unplaced = []
    for s, meta in corpus:
        res = check_one(s, meta, stats)
        nrun += 1
        if res:
            first_bad = (s, meta, res)
            break
    workers = max(2, min(8, (os.cpu_count() or 4) // 2))
    if not first_bad:
        with concurrent.futures.ThreadPoolExecutor(max_workers=workers) as ex:
            for phase, jobs in (("single", singles), ("pair", pairs)):
                it = iter(jobs)
                pending = set()
                stop = False
                while not stop:
                    while len(pending) < workers * 2 and time.time() - t0 < budget:
                        a = next(it, None)
                        if a is None:
                            break
                        pending.add(ex.submit(job, a))
                    if not pending:
                        break
                    done, pending = concurrent.futures.wait(pending, return_when=concurrent.futures.FIRST_COMPLETED)
                    for fu in done:
                        args, s, meta, res = fu.result()
                        nrun += 1
                        if phase == "single":
                            nsingle += 1
                        else:
                            npair += 1
                        if meta is not None:
                            if all(meta["placed"]) and len(meta["placed"]) == len(args[1]):
                                nplaced += 1
                            else:
                                unplaced.append(meta["faults"])
                            for x in meta["faults"]:
                                k = x.split(":")[0]
                                dist[k] = dist.get(k, 0) + 1
                            if len(samples) < 2 and phase == "pair":
                                samples.append({"faults": meta["faults"], "exchanges": meta["exchanges"], "script_head": s.lines()[:5]})
                            if res is None:
                                oracle_stats(meta, stats)
                        if res and first_bad is None:
                            first_bad = (s, meta, res)
                            stop = True
                if stop:
                    for fu in pending:
                        fu.cancel()
                    break
                if time.time() - t0 >= budget:
                    chk.notes.append("time budget reached in phase %s after %d runs" % (phase, nrun))
                    break
    chk.cov.update({
        "evaluations": nrun, "distinct_nontrivial": nplaced,
        "rule": "one evaluation = one conversation: initial state, one fault or two faults from the enumeration injected at their call sites, then a "
                "quiet truthful cache (cache simulator with the model in the loop), run on the real state-machine thread (rtr_run.c, asserts, ASan/UBSan) "
                "and on the extracted model; non-trivial = every fault of the conversation could be placed at its call site",
        "enumeration": {"single_faults_total": len(allf), "core_faults_for_pairs": len(core), "pairs_total": len(pairs),
                        "singles_run": nsingle, "pairs_run": npair, "exhaustive_pairs": npair == len(pairs), "not_placed": len(unplaced)},
        "not_placed_examples": unplaced[:5],
        "samples": samples, "input_distribution": dist, "good_exchanges_answered": stats["answered_after"],
        "max_recovery_time_over_bound": round(stats["max_recovery_over_bound"], 3), "corpus_scripts": len(corpus), "workers": workers,
        "tie": "(b) line-by-line equality of the Impl and Model traces (callback blocks sorted)",
    })
    chk.assumptions += ["transport callbacks return >= 1 byte or an error and honour their timeout (the mock does)",
                        "faults are finite and every completed well-formed response is truthful (no well-formed lie); afterwards the cache is quiet and correct",
                        "the End of Data PDUs of the simulated cache carry the configured intervals", "one socket; little-endian host"]
    chk.trusted += ["tools/props/C07_lib.py annotate() (virtual-clock reconstruction, cross-checked against the time stamps in the trace)",
                    "tools/rtrsim.py Cache (the truthful cache simulator; Rtr/CacheSpec.v states the same answers)"]
    if first_bad:
        s, meta, (kind, info, r) = first_bad
        if s is None:
            chk.violation({"kind": "internal-error", "detail": info}, no_input=True)
            return

        def failing(sc):
            x = check_one(sc, meta, None)
            return bool(x) and x[0] == kind and x[1].get("key") == info.get("key")
        small = L.shrink(s, failing, budget=40) if kind in ("tie", "crash") or info.get("key") in ("dead-transport-reused", "zero-time-reconnect", "stutter") else s
        chk.violation({"kind": {"tie": "impl-vs-model (tie)", "spec": "impl-vs-spec", "crash": "impl-crash", "hang": "impl-hang"}[kind],
                       "script": small.lines(), "exchanges": meta["exchanges"], "faults": meta.get("faults"), "cache_final": meta.get("cache_final"),
                       "good_from": meta.get("good_from"), "answered_after": meta.get("answered_after"), "detail": info, "proof": pr.broken,
                       "replay_cmd": "python3 tools/check.py C08 --replay <this file>"}, key=info.get("key"))
    elif not pr.ok:
        chk.proof_broken(pr, "%d conversations (fault enumeration) on Impl/Model + oracle: no disagreement" % nrun)


def oracle_stats(meta, stats):
    stats["max_recovery_over_bound"] = max(stats["max_recovery_over_bound"], meta.get("recovery_ratio", 0.0))
    a = meta.get("answered_after", 0)
    stats["answered_after"][a] = stats["answered_after"].get(a, 0) + 1


def replay(path):
    o = json.load(open(path))
    if "script" not in o:
        print("replay file names no input:", json.dumps(o.get("broken")))
        return 1
    s = L.script_from_lines(o["script"])
    meta = {"exchanges": o.get("exchanges", []), "cache_final": o.get("cache_final"), "good_from": o.get("good_from"),
            "answered_after": o.get("answered_after", 1)}
    res = check_one(s, meta, None)
    r = L.run_pair(s)
    print("\n".join(l[:200] for l in r["impl"][:400] if not l.startswith("RECV")))
    print("result:", None if res is None else (res[0], res[1]))
    return 1 if res else 0
