"""C04 - no byte stream from a cache can corrupt memory, abort or hang the client.

Decided by: Coq theorems (Props/Properties_C04.v) about the executable RTR model: the receive loops
return an error or exactly the bytes asked for and never stop for lack of fuel, results do not depend on
how the stream is cut into reads (for tr_recv_all, receive_pdu, rtr_sync, fsm_step and whole runs), every
byte range a consumer reads lies inside the accepted PDU (nested Error Report lengths included; the model's
default for a missing position is provably never used), malformed PDUs are rejected with ERROR_FATAL and
never reach the tables, stored prefix records have lengths within the address width.
NOT proved: memory safety of the C code.  It is supported - on every run - by executing the real
rtr.c / packets.c / trie code under ASan + UBSan with assertions enabled on structured-hostile streams:
every PDU type x every field at boundary values, truncated, oversized, random garbage, Error Reports with
nested lengths at the boundaries, transport errors at every byte offset; each stream under three or more
chunkings (one read, byte by byte, random), which must agree with each other (modulo read sizes) and with
the model line by line.  A sanitizer report, assertion failure or wall-clock timeout is a violation with the
stream as replay.  Prefixes with bits set behind their length are part of the streams (rejected since the
deep-chain fix; corpus/C04/30-*, 31-* are the streams that aborted the client before it)."""
import collections
import json
import os
import struct
import time

import pfxlib
import rtrsim as R
import vlib

from . import C14_lib as L

THEOREMS = ["C04_recv_contract", "C04_recv_all_exact", "C04_fuel_store_loop", "C04_fuel_rtr_sync", "C04_fuel_run", "C04_progress",
            "C04_chunking_recv_all", "C04_chunking_receive_pdu", "C04_chunking_sync", "C04_chunking_step", "C04_chunking_run",
            "C04_accepted", "C04_buffer", "C04_check_size_local", "C04_consumers_local", "C04_receive_frame",
            "C04_reject_length", "C04_reject_size", "C04_unknown_type", "C04_size_per_type", "C04_store_loop_fails",
            "C04_sync_fails", "C04_step_fails", "C04_stored_prefix", "C04_stored_prefix_key_ok", "C04_prefix_check_translated", "C04_check_size_translated",
            "C04_check_size_reads_inside", "C04_footer_writes_inside", "C04_footer_translated", "C04_receive_path_inside",
            "C04_error_text_len_load_inside", "C04_receive_pdu_translated_partial", "C04_receive_header_rejections_translated", "C04_check_size_on_receive_buffer"]
CORPUS = os.path.join(vlib.VERIF, "corpus", "C04")
MAX = L.MAX
SESS, SERIAL = 4711, 9

V1 = [0, 1, 2, 31, 32, 33, 127, 128, 129, 254, 255]
V2 = [0, 1, 0x7fff, 0x8000, 0xfffe, 0xffff, SESS, SESS + 1]
V4 = [0, 1, 7, 8, 9, 12, 20, 24, MAX - 1, MAX, MAX + 1, 0x7fffffff, 0x80000000, 0xfffffffe, 0xffffffff]
FIELDS = {      # type -> [(name, offset, size)] beyond the common header (ver, type, field16 / flags+zero, len)
    0: [("sn", 8, 4)], 1: [("sn", 8, 4)], 2: [], 3: [], 8: [],
    4: [("flags", 8, 1), ("plen", 9, 1), ("maxlen", 10, 1), ("zero", 11, 1), ("prefix", 12, 4), ("asn", 16, 4)],
    6: [("flags", 8, 1), ("plen", 9, 1), ("maxlen", 10, 1), ("zero", 11, 1), ("prefix", 12, 16), ("asn", 28, 4)],
    7: [("sn", 8, 4), ("refresh", 12, 4), ("retry", 16, 4), ("expire", 20, 4)],
    9: [("ski", 8, 20), ("asn", 28, 4), ("spki", 32, 91)],
    10: [("enc_len", 8, 4), ("text_len", 12, 4)],
}


# ---------------------------------------------------------------------------
# streams as event lists, chunkings
# ---------------------------------------------------------------------------
def merge(evs):
    out = []
    for e in evs:
        if e[0] == "data" and out and out[-1][0] == "data":
            out[-1] = ("data", out[-1][1] + e[1])
        elif e[0] != "data" or e[1]:
            out.append(e)
    return out


def rechunk(evs, mode, rnd):
    out = []
    for e in merge(evs):
        if e[0] != "data" or mode == "whole":
            out.append(e)
            continue
        b, i = e[1], 0
        while i < len(b):
            n = 1 if mode == "byte" else (8 if mode == "eight" else rnd.choice([1, 2, 3, 7, 8, 9, 13, 40, 200]))
            out.append(("data", b[i:i + n]))
            i += n
    return out


def script_of(evs, cfg=None, sends=None):
    s = R.Script(**(cfg or {}))
    s.opens = [True] * 8
    s.sends = list(sends or [])
    s.evs = list(evs)
    return s.lines()


def context(ver, phase):
    """events that bring the client to the place where the hostile bytes arrive, and bytes to put behind them"""
    full = b"".join([R.cache_response(ver, SESS)] + [L.item_pdu(ver, x, 1) for x in L.ITEMS] + [R.eod(ver, SESS, SERIAL)])
    some = b"".join(L.item_pdu(ver, x, 1) for x in L.ITEMS[:3])
    tail = b"".join(L.item_pdu(ver, x, 1) for x in L.ITEMS[3:]) + R.eod(ver, SESS, SERIAL)
    if phase == "first":
        return [], b""
    if phase == "reset":
        return [("data", R.cache_response(ver, SESS) + some)], tail
    if phase == "serial":
        return [("data", full), ("data", R.serial_notify(ver, SESS, SERIAL + 1)), ("data", R.cache_response(ver, SESS))], \
            R.eod(ver, SESS, SERIAL + 1)
    if phase == "established":
        return [("data", full)], b""
    raise ValueError(phase)


PHASES = ["first", "reset", "serial", "established"]


def hostile_pdus(rnd, ver):
    """(description, bytes) of PDUs with one field at a boundary value; the announced number of bytes is delivered"""
    out = []
    for typ in (0, 1, 2, 3, 4, 5, 6, 7, 8, 9, 10, 11, 255):
        base = bytearray(L.well_formed(ver, typ, SESS, SERIAL + 1))
        if typ == 10:
            base = bytearray(R.error_pdu(ver, 2, bytes(R.hdr(ver, 1, SESS, 12) + b"\0\0\0\1"), b"no data"))
        for v in V1:                                         # version, type
            for off, nm in ((0, "ver"), (1, "type")):
                p = bytearray(base)
                p[off] = v
                out.append(("t%d %s=%d" % (typ, nm, v), bytes(p)))
        for v in V2:                                         # session id / reserved / flags+zero
            p = bytearray(base)
            p[2:4] = struct.pack(">H", v & 0xffff)
            out.append(("t%d f16=%d" % (typ, v), bytes(p)))
        for v in V4:                                         # length: deliver what is announced (header only when out of range)
            p = bytearray(base)
            p[4:8] = struct.pack(">I", v)
            if 8 <= v <= MAX:
                p = (p + bytearray(rnd.randrange(256) for _ in range(max(0, v - len(p)))))[:v]
            else:
                p = p[:8]
            out.append(("t%d len=%d" % (typ, v), bytes(p)))
        for nm, off, size in FIELDS.get(typ, []):
            if typ == 7 and ver == 0 and off >= 12:
                continue
            vals = V1 if size == 1 else (V4 if size == 4 else [0, 2 ** (8 * size) - 1, rnd.getrandbits(8 * size)])
            for v in vals:
                p = bytearray(base)
                p[off:off + size] = (v & (2 ** (8 * size) - 1)).to_bytes(size, "big")
                out.append(("t%d %s=%d" % (typ, nm, v), bytes(p)))
    # Error Reports with nested lengths at the boundaries (consistent and inconsistent totals)
    for el in (0, 1, 8, 12, 100, MAX - 17, MAX - 16, MAX - 15, MAX, 0x7fffffff, 0xffffffff):
        for tl in (0, 1, 7, MAX - 16, MAX - 16 - min(el, MAX), 0xffffffff):
            for total in sorted(set([16, 16 + min(el, MAX), 16 + min(el, MAX) + min(max(tl, 0), MAX), MAX, 15, 17]) ):
                if not 8 <= total <= MAX:
                    continue
                body = struct.pack(">I", el) + bytes(rnd.randrange(256) for _ in range(min(el, MAX))) + struct.pack(">I", tl & 0xffffffff)
                p = (R.hdr(ver, 10, rnd.choice([0, 2, 4, 8, 99]), total) + body + bytes(MAX))[:total]
                out.append(("error el=%d tl=%d len=%d" % (el, tl & 0xffffffff, total), p))
    return out


def streams(rnd, tier):
    """list of (description, events)"""
    out = []
    # bulk answers first (never cut by the time budget): more records of each kind in one response than the client's
    # temporary PDU stores hold after one, two and four growth steps (steps of 100)
    for nk in ((450,) if tier == "quick" else (130, 250, 450, 900)):
        items = [R.key_pdu(1, (64000 + i, 1000 + i), 1) for i in range(nk)]
        items += [R.prefix_pdu(1, ("4", format(0x0a000000 + i * 256, "032b"), 24, 24, 65000 + i % 7), 1) for i in range(nk)]
        items += [R.prefix_pdu(1, ("6", format((0x20010db8 << 96) + (i << 64), "0128b"), 64, 64, 65000 + i % 7), 1) for i in range(nk)]
        rnd.shuffle(items)
        out.append(("bulk %d records of each kind in one response" % nk,
                    [("data", R.cache_response(1, SESS) + b"".join(items) + R.eod(1, SESS, SERIAL))]))
    # the deepest tries a cache can build with clean prefixes: a nested chain of every length 0..W along one address,
    # then more announcements / withdrawals of the longest ones (operations on nodes at the maximum depth)
    for fam, w in (("4", 32), ("6", 128)):
        addr = "".join(rnd.choice("01") for _ in range(w))
        chain = [R.prefix_pdu(1, (fam, addr[:ln] + "0" * (w - ln), ln, w, 65000), 1) for ln in range(w + 1)]
        rnd.shuffle(chain)
        deep = []
        for ln in (w, w - 1):
            rec = (fam, addr[:ln] + "0" * (w - ln), ln, w, 65001)
            deep += [R.prefix_pdu(1, rec, 1)]
        first = R.cache_response(1, SESS) + b"".join(chain) + b"".join(deep) + R.eod(1, SESS, SERIAL)
        second = R.cache_response(1, SESS) + R.prefix_pdu(1, (fam, addr, w, w, 65001), 0) + \
            R.prefix_pdu(1, (fam, addr, w, w, 65002), 1) + R.prefix_pdu(1, (fam, addr, w, w, 65000), 1) + R.eod(1, SESS, SERIAL + 1)
        out.append(("bulk nested chain /0../%d of IPv%s, then operations on the longest" % (w, fam),
                    [("data", first), ("data", R.serial_notify(1, SESS, SERIAL + 1)), ("data", second)]))
    # many records of ONE prefix (one trie node's record array: it grows and shrinks with every announcement / withdrawal), then
    # deltas that withdraw some and announce others - well-formed PDUs only; counts around the powers of two
    for fam, w in (("4", 32), ("6", 128)):
        ln = 8 if fam == "4" else 32
        addr = "".join(rnd.choice("01") for _ in range(ln)) + "0" * (w - ln)
        for n0 in (3, 4, 5, 8, 9, 17):
            recs = [(fam, addr, ln, ln + (i % 3), 64500 + i) for i in range(n0 + 6)]
            first = R.cache_response(1, SESS) + b"".join(R.prefix_pdu(1, r, 1) for r in recs[:n0]) + R.eod(1, SESS, SERIAL)
            ev = [("data", first)]
            have, nxt, sn = list(recs[:n0]), n0, SERIAL
            for step in range(4):
                wd = [have.pop(rnd.randrange(len(have))) for _ in range(min(len(have) - 1, 1 + step % 2))]
                an = recs[nxt:nxt + 1 + (step + 1) % 2]
                nxt += len(an)
                have += an
                sn += 1
                ev += [("data", R.serial_notify(1, SESS, sn)),
                       ("data", R.cache_response(1, SESS) + b"".join(R.prefix_pdu(1, r, 0) for r in wd) +
                        b"".join(R.prefix_pdu(1, r, 1) for r in an) + R.eod(1, SESS, sn))]
            out.append(("%d records on one IPv%s prefix, then four deltas withdrawing and announcing on it" % (n0, fam), ev))
    k = used = 0
    for ver in (1, 0):
        for desc, p in hostile_pdus(rnd, ver):
            if tier == "quick" and (k % 7 if ver == 0 else k % 3):
                k += 1
                continue
            k += 1
            used += 1
            phases = PHASES if tier != "quick" else [PHASES[used % 4]]
            for ph in phases:
                pre, post = context(ver, ph)
                out.append(("v%d %s %s" % (ver, ph, desc), pre + [("data", p + post)]))
    # Error Reports whose encapsulated length runs up to / just past the end of the PDU, PDU length at and just below
    # the receive buffer's size (a read behind the PDU is then a read behind the buffer): never thinned out
    for ver in (1, 0):
        for total in (MAX, MAX - 1, MAX - 3, MAX - 4, 16, 20, 24):
            for d in (17, 16, 15, 14, 13, 12, 11, 9, 8, 4, 1, 0):
                el = total - d
                if el < 0:
                    continue
                for tl in (0, 0xffffffff):
                    body = struct.pack(">I", el) + bytes(rnd.randrange(1, 256) for _ in range(el)) + struct.pack(">I", tl)
                    p = (R.hdr(ver, 10, 2, total) + body + bytes([0xff]) * MAX)[:total]
                    ph = PHASES[(total + d) % 4] if tier == "quick" else None
                    for ph in ([ph] if ph else PHASES):
                        pre, post = context(ver, ph)
                        out.append(("v%d %s error el=len-%d tl=%d len=%d" % (ver, ph, d, tl, total), pre + [("data", p + post)]))
    # truncated at every offset, the transport failing / closing / going silent / the script just ending
    for ver in (1, 0):
        full = b"".join([R.cache_response(ver, SESS)] + [L.item_pdu(ver, x, 1) for x in L.ITEMS[:3]] + [R.eod(ver, SESS, SERIAL)])
        step = 1 if tier != "quick" else 3
        for cut in range(0, len(full) + 1, step):
            for how in ([("err", 1)], [("err", 4)], [("err", 3)], [("wait", 61)], [], [("wait", 30), ("wait", 31)], [("err", 2)]):
                if tier == "quick" and (cut + len(how)) % 2:
                    continue
                out.append(("v%d truncated at %d then %r" % (ver, cut, how), [("data", full[:cut])] + how + [("data", full[cut:])]))
    # oversized / garbage
    for i in range(40 if tier == "quick" else 600):
        n = rnd.choice([1, 7, 8, 9, 60, 200, 4000])
        g = bytes(rnd.randrange(256) for _ in range(n))
        if i % 3 == 0:
            g = bytes([rnd.choice([0, 1]), rnd.choice([0, 3, 4, 6, 7, 9, 10])]) + g[2:]
        ph = PHASES[i % 4]
        pre, post = context(1, ph)
        out.append(("garbage %d bytes in %s" % (n, ph), pre + [("data", g)]))
    for ln in (MAX, MAX - 1):
        for typ in (4, 9, 10, 7):
            p = (R.hdr(1, typ, 0, ln) + bytes(rnd.randrange(256) for _ in range(ln)))[:ln]
            pre, post = context(1, "reset")
            out.append(("oversized type %d len %d" % (typ, ln), pre + [("data", p + post)]))
    # a header announcing more than the buffer holds, followed by more bytes than the buffer holds
    for ln in (MAX + 1, 65535, 2 ** 32 - 1):
        for ph in ("first", "reset"):
            pre, post = context(1, ph)
            flood = bytes(rnd.randrange(256) for _ in range(rnd.choice([4000, 9000])))
            out.append(("oversized flood after len %d in %s" % (ln, ph), pre + [("data", R.hdr(1, 4, 0, ln) + flood)]))
    # prefixes with non-zero host bits (rejected with Corrupt Data; accepted before the deep-chain fix)
    for i in range(20 if tier == "quick" else 300):
        ver = 1
        items = []
        base4, base6 = rnd.getrandbits(32), rnd.getrandbits(128)
        for _ in range(rnd.randint(2, 12)):
            if rnd.random() < 0.5:
                ln = rnd.choice([0, 1, 8, 16, 31, 32])
                a = (base4 & ~((1 << (32 - ln)) - 1) & 0xffffffff) | (rnd.getrandbits(32) & ((1 << (32 - ln)) - 1))
                items.append(R.prefix_pdu(ver, ("4", format(a, "032b"), ln, rnd.choice([ln, 32]), rnd.choice([1, 2])), rnd.choice([1, 1, 1, 0])))
            else:
                ln = rnd.choice([0, 1, 32, 64, 127, 128])
                a = (base6 & ~((1 << (128 - ln)) - 1)) | (rnd.getrandbits(128) & ((1 << (128 - ln)) - 1))
                items.append(R.prefix_pdu(ver, ("6", format(a, "0128b"), ln, rnd.choice([ln, 128]), rnd.choice([1, 2])), rnd.choice([1, 1, 1, 0])))
        b = R.cache_response(ver, SESS) + b"".join(items) + R.eod(ver, SESS, SERIAL)
        out.append(("host bits %d" % i, [("data", b), ("data", R.serial_notify(ver, SESS, SERIAL + 1)),
                                           ("data", R.cache_response(ver, SESS) + b"".join(items[:3]) + R.eod(ver, SESS, SERIAL + 1))]))
    return out


def corpus():
    res = []
    if os.path.isdir(CORPUS):
        for f in sorted(os.listdir(CORPUS)):
            if f.endswith(".txt"):
                res.append((f, [l.rstrip("\n") for l in open(os.path.join(CORPUS, f)) if l.strip() and not l.startswith("#")]))
    return res


def one(lines, timeout=30):
    """Impl + Model on one script: (finding|None, impl trace)"""
    rc, impl, model = L.run_both(lines, timeout=timeout)
    cr = L.crashed(rc, impl)
    if cr:
        return {"kind": "crash/abort/timeout under ASan+UBSan+asserts", "key": "crash", "detail": cr}, impl
    d = R.first_diff(impl, model)
    if d:
        return {"kind": "impl-vs-model (tie)", "key": "tie", "detail": {"line": d[0], "impl": d[1], "model": d[2]}}, impl
    return None, impl


def examine_stream(evs, rnd, modes):
    """all chunkings of one stream; returns (finding|None, lines of the failing script, traces)"""
    ref = None
    for mode in modes:
        lines = script_of(rechunk(evs, mode, rnd))
        fnd, impl = one(lines)
        if fnd:
            fnd["chunking"] = mode
            return fnd, lines, impl
        flat = L.strip_recv(impl)
        if ref is None:
            ref, ref_lines, ref_mode = flat, lines, mode
        elif flat != ref:
            i = next((k for k in range(min(len(flat), len(ref))) if flat[k] != ref[k]), min(len(flat), len(ref)))
            return {"kind": "outcome depends on the chunking", "key": "chunking", "chunking": [ref_mode, mode],
                    "detail": {"line": i, ref_mode: ref[i:i + 3], mode: flat[i:i + 3]}, "other_script": ref_lines}, lines, impl
    return None, None, None


def pfx_exe():
    """a private copy of the pfx_ops harness (the shared binary is relinked by other checks while this one runs)"""
    if "c04" not in pfxlib._EXE:
        pfxlib._EXE["c04"] = vlib.build_harness("pfx_ops_c04", os.path.join(vlib.VERIF, "harness", "pfx_ops.c"), san="asan")
    return pfxlib._EXE["c04"]


def hostbits_table_stress(rnd, n):
    """pfx_table operations with non-zero host bits on the real trie code (ASan+UBSan+asserts): crash = violation"""
    exe = pfx_exe()
    for it in range(n):
        lines = []
        fam = rnd.choice("46")
        w = 32 if fam == "4" else 128
        base = "".join(rnd.choice("01") for _ in range(w))
        pool = []
        for _ in range(8):
            ln = rnd.choice([0, 1, 7, 8, 9, w - 1, w, rnd.randint(0, w)])
            k = rnd.randint(0, ln) if rnd.random() < 0.5 else ln
            pool.append((base[:k] + "".join(rnd.choice("01") for _ in range(w - k)), ln))
        for _ in range(40):
            bits, ln = rnd.choice(pool)
            x = rnd.random()
            if x < 0.45:
                lines.append("add 0 %s %s %d %d %d 1" % (fam, bits, ln, rnd.choice([ln, w]), rnd.choice([1, 2])))
            elif x < 0.7:
                lines.append("del 0 %s %s %d %d %d 1" % (fam, bits, ln, rnd.choice([ln, w]), rnd.choice([1, 2])))
            elif x < 0.9:
                lines.append("val 0 %s %s %d %d" % (fam, bits, rnd.choice([ln, w, min(w, ln + 1)]), rnd.choice([1, 2])))
            else:
                lines.append("list 0")
        lines += ["srcdel 0 1", "list 0"]
        rc, out = vlib.run_lines(exe, "\n".join(lines) + "\n", env=vlib.san_env(), timeout=60)
        out = [l for l in out if l]
        if rc != 0 or len(out) != len(lines):
            return {"kind": "trie code aborts on prefixes with non-zero host bits", "key": "hostbits-crash", "rc": rc,
                    "detail": "\n".join(out[-8:])[-2000:]}, lines
    return None, None


def translator_vs_compiled(chk):
    """The translator is trusted; this narrows the trust: the functions it translated in memory mode (size check, header and
    footer byte-order conversion with their stores, the text-length load) are evaluated inside Coq on a fixed set of buffers
    and must give the bytes the COMPILED functions of the tree under test give (harness/footer_dtest.c).  tools/footer_diff.py
    rewrites Rtr/FooterDiff.v with the compiled code's answers; the build of that file is the comparison."""
    import footer_diff
    if footer_diff.main() != 0:
        chk.violation({"kind": "translator-vs-compiled-C", "detail": "harness/footer_dtest.c did not run to the end on the tree under test"},
                      no_input=True, tag="%s-footerdiff" % vlib.seed())
        return
    ok, out = vlib.coq_make(["theories/Rtr/FooterDiff.vo"], timeout=600)
    chk.cov["translator_vs_compiled_C"] = "Rtr/FooterDiff.v: %s" % ("all examples hold" if ok else "an example fails")
    if not ok:
        e = vlib.first_coq_error(out)
        th = vlib.theorem_at(e["file"], e["line"]) if e["file"] else None
        txt = open(os.path.join(vlib.THEORIES, "Rtr", "FooterDiff.v")).read()
        i = txt.find("Example %s " % th) if th else -1
        chk.violation({"kind": "translator-vs-compiled-C", "example": th, "statement": txt[i:i + 1500] if i >= 0 else None,
                       "detail": e["error"], "what": "the Coq translation of a memory-mode function and the compiled function disagree on this buffer "
                                                      "(or the translated function is no longer defined there): the tie (a) is broken"},
                      no_input=(i < 0), tag="%s-footerdiff" % vlib.seed())


def run(chk):
    rnd = vlib.rng(4)
    pr = vlib.check_proofs("C04", THEOREMS)
    chk.proof = pr
    if pr.ok:
        translator_vs_compiled(chk)
    L.setup("c04")
    quick = chk.tier == "quick"
    modes = ["whole", "byte", "rand"] if quick else ["whole", "byte", "rand", "eight", "rand"]
    t0 = time.time()
    nrun = nstream = found = ncrash = 0
    kinds = collections.Counter()
    outcomes = collections.Counter()
    samples = []

    def report(fnd, lines, impl, meta):
        nonlocal found
        found += 1
        small = lines
        if fnd["key"] in ("crash", "tie"):
            def failing(ls):
                f2, _ = one(ls)
                return f2 is not None and f2["key"] == fnd["key"]
            try:
                small = L.shrink_events(lines, failing, budget=30)
            except Exception:  # noqa: BLE001
                small = lines
        chk.violation({"kind": fnd["kind"], "finding": fnd, "meta": meta, "script": small,
                       "impl_trace_tail": (impl or [])[-25:], "replay_cmd": "python3 tools/check.py C04 --replay <this file>"},
                      key=fnd["key"])

    # the receive loop itself on a transport whose calls take time
    ncases, bad = L.tr_loops_check(rnd, "recv", 400 if quick else 20000)
    nrun += ncases
    if bad:
        found += 1
        chk.violation({"kind": "tr_recv_all on a slow transport (impl vs the loop of C04_recv_all_exact)", "detail": bad,
                       "replay_cmd": "echo '<case>' | build/bin/tr_loops_asan"}, key="recv-loop")
    for name, lines in corpus():
        fnd, impl = one(lines)
        nrun += 1
        if fnd and found < 5:
            report(fnd, lines, impl, {"corpus": name})
    sts = streams(rnd, chk.tier)
    budget = 150 if quick else 1500
    for i, (desc, evs) in enumerate(sts):
        if time.time() - t0 > budget:
            chk.notes.append("time budget reached after %d of %d streams" % (i, len(sts)))
            break
        fnd, lines, impl = examine_stream(evs, rnd, modes if not desc.startswith("bulk") else ["whole", "rand"])
        nstream += 1
        nrun += len(modes)
        kinds[desc.split()[1] if desc.startswith("v") else desc.split()[0]] += 1
        if i % 400 == 0 and len(samples) < 5:
            samples.append({"stream": desc, "script": script_of(rechunk(evs, "whole", rnd))[:12]})
        if fnd and (found < 5 or (fnd["key"] == "crash" and ncrash < 3)):
            ncrash += fnd["key"] == "crash"
            report(fnd, lines, impl, {"stream": desc})
    chk.cov.update({
        "evaluations": nrun, "distinct_nontrivial": nstream,
        "rule": "evaluation = one script (one chunking of one stream) run on the real code under ASan+UBSan+asserts and on the "
                "extracted model, traces compared line by line; non-trivial = distinct streams, each run under %d chunkings whose "
                "Impl traces must agree modulo read sizes" % len(modes),
        "chunkings": modes, "streams": nstream, "stream_kinds": dict(kinds),
        "samples": samples,
        "tie": "(b) real state machine vs extracted model, every trace line; plus agreement of the chunkings among themselves",
        "observations": [
            "prefix PDUs with a bit set behind the prefix length are rejected (Corrupt Data) since the /repo fix recorded in "
            "known_findings.jsonl (key deep-chain): before it 130 such prefixes chained trie nodes deeper than the address has bits "
            "and the next insertion aborted (corpus/C04/30-deep-chain-v6.txt, 31-deep-chain-v4.txt)",
            "after an unexpected protocol version the client sends the report but neither closes nor changes state: it goes on reading "
            "in the middle of the offending PDU and reports the follow-up garbage as well",
        ],
    })
    chk.assumptions += [
        "transport contract: a receive call returns >= 1 byte or a negative code (the mock and the model skip empty data events)",
        "alignment of the uint32_t accesses at rest + len (odd for Router Key) is not checked (-fsanitize=alignment off; x86 tolerates it)",
        "memory safety of the C code is NOT proved; it is supported by the sanitizer runs of this check",
    ]
    chk.trusted += ["harness/rtr_run.c mock transport and virtual clock", "gcc AddressSanitizer / UndefinedBehaviorSanitizer"]
    if found == 0 and not pr.ok:
        chk.proof_broken(pr, "%d streams under %d chunkings each: no abort, chunkings agree, Impl == Model" % (nstream, len(modes)))


def replay(path):
    o = json.load(open(path))
    if o.get("pfx_ops_script"):
        rc, out = vlib.run_lines(pfx_exe(), "\n".join(o["pfx_ops_script"]) + "\n", env=vlib.san_env(), timeout=60)
        print("\n".join(out[-20:]))
        return 0 if rc == 0 else 1
    lines = o.get("script")
    if not lines:
        print("replay file names no input:", json.dumps(o.get("broken") or o.get("kind")))
        return 1
    L.setup("c04")
    fnd, impl = one(lines)
    print("\n".join(impl[-40:]))
    other = (o.get("finding") or {}).get("other_script")
    if fnd is None and other:
        f2, impl2 = one(other)
        if f2 is None and L.strip_recv(impl) != L.strip_recv(impl2):
            fnd = {"kind": "outcome depends on the chunking"}
    print("finding:", json.dumps(fnd, default=str)[:2000])
    return 1 if fnd else 0
