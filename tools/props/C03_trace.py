"""C03_trace.py - an INDEPENDENT reading of a harness trace (harness/rtr_run.c output) against the script that
produced it.  Shared by the C03 and C05 checks.  It never consults the model: it re-simulates only the
mock transport (which event each tr_recv consumed, the virtual clock), splits the run into exchanges
(query ... outcome), replays the table callbacks into a python set, parses what the cache delivered with its
own PDU parser and decides the clauses of the two properties with python set arithmetic.

Result: Walk(script_lines, trace_lines).problems = list of dicts {"prop": "C03"|"C05", "clause": str, "line": int,
"detail": str}; .exchanges = list of Exchange (for the coverage report)."""
import struct

import rtrsim

SYNC = 3
ESTABLISHED = 1


def rec_of_prefix_pdu(p):
    typ = p[1]
    if typ == rtrsim.IPV4_PREFIX:
        bits = "".join("{:08b}".format(b) for b in p[12:16])
        asn = struct.unpack(">I", p[16:20])[0]
        return "4:%s/%d-%d:%d:1" % (bits, p[9], p[10], asn)
    bits = "".join("{:08b}".format(b) for b in p[12:28])
    asn = struct.unpack(">I", p[28:32])[0]
    return "6:%s/%d-%d:%d:1" % (bits, p[9], p[10], asn)


def rec_of_key_pdu(p):
    ski = p[8:28]
    asn = struct.unpack(">I", p[28:32])[0]
    spki = p[32:123]
    return "K:%d:%s:%s:1" % (asn, ski.hex(), spki.hex())


def pdu_record(p):
    """(record string, flags) of a payload PDU given as bytes."""
    if p[1] in (rtrsim.IPV4_PREFIX, rtrsim.IPV6_PREFIX):
        return rec_of_prefix_pdu(p), p[8]
    return rec_of_key_pdu(p), p[2]


def pre_record(line):
    w = line.split()
    if w[1] == "pfx":
        fam, bits, ln, mx, asn, src = w[2], w[3], int(w[4]), int(w[5]), int(w[6]), int(w[7])
        return "%s:%s/%d-%d:%d:%d" % (fam, bits, ln, mx, asn, src)
    asn, kid, src = int(w[2]), int(w[3]), int(w[4])
    ski, spki = rtrsim.kid_to_key(kid)
    return "K:%d:%s:%s:%d" % (asn, ski.hex(), spki.hex(), src)


EXPECTED_LEN = {rtrsim.SERIAL_NOTIFY: 12, rtrsim.CACHE_RESPONSE: 8, rtrsim.IPV4_PREFIX: 20, rtrsim.IPV6_PREFIX: 32,
                rtrsim.CACHE_RESET: 8, rtrsim.ROUTER_KEY: 123}


def parse_response(data, ver_hint=None):
    """Parse bytes as: (notify)* CacheResponse (payload|notify)* EndOfData, exactly to the end.
    Returns dict(cr_session, eod_session, eod_serial, payload=[bytes]) or None."""
    i = 0
    stage = 0
    out = {"payload": []}
    n = len(data)
    while i < n:
        if n - i < 8:
            return None
        ver, typ, field, ln = struct.unpack(">BBHI", data[i:i + 8])
        if typ == rtrsim.EOD:
            if ln != (12 if ver == 0 else 24):
                return None
        elif typ in EXPECTED_LEN:
            if ln != EXPECTED_LEN[typ]:
                return None
        else:
            return None
        if n - i < ln:
            return None
        p = data[i:i + ln]
        i += ln
        if typ == rtrsim.SERIAL_NOTIFY:
            continue
        if stage == 0:
            if typ != rtrsim.CACHE_RESPONSE:
                return None
            out["cr_session"] = field
            out["ver"] = ver
            stage = 1
        elif stage == 1:
            if typ in (rtrsim.IPV4_PREFIX, rtrsim.IPV6_PREFIX, rtrsim.ROUTER_KEY):
                out["payload"].append(p)
            elif typ == rtrsim.EOD:
                out["eod_session"] = field
                out["eod_serial"] = struct.unpack(">I", p[8:12])[0]
                stage = 2
            else:
                return None
        else:
            return None
    return out if stage == 2 else None


def apply_payload(old, payload):
    """Spec: python set arithmetic, in the order in which the client applies (IPv4, IPv6, router keys).
    Returns (new set, None) or (None, reason)."""
    cur = set(old)
    groups = [[p for p in payload if p[1] == rtrsim.IPV4_PREFIX], [p for p in payload if p[1] == rtrsim.IPV6_PREFIX],
              [p for p in payload if p[1] == rtrsim.ROUTER_KEY]]
    for g in groups:
        for p in g:
            rec, flags = pdu_record(p)
            if p[1] != rtrsim.ROUTER_KEY:
                w = 32 if p[1] == rtrsim.IPV4_PREFIX else 128
                if p[9] > w or p[10] > w:
                    return None, "prefix length exceeds address size: " + rec
            if flags == 1:
                if rec in cur:
                    return None, "duplicate announcement of " + rec
                cur.add(rec)
            elif flags == 0:
                if rec not in cur:
                    return None, "withdrawal of unknown " + rec
                cur.discard(rec)
            else:
                return None, "invalid flags %d on %s" % (flags, rec)
    return cur, None


class Exchange:
    def __init__(self, query, line, own):
        self.query = query            # ("reset",) or ("serial", session, sn)
        self.line = line
        self.own_before = set(own)
        self.own_after = None
        self.consumed = b""
        self.callbacks = 0
        self.outcome = None           # success | fail | reset-request | stop | end
        self.end_state = None
        self.next_checked = False
        self.note = None


class Desync(Exception):
    pass


class Walk:
    def __init__(self, script_lines, trace_lines):
        self.problems = []
        self.exchanges = []
        self.queries = []             # (line, query tuple, expected tuple)
        self.desync = None
        self.ambiguous = 0
        self.purges = 0
        try:
            self._walk(script_lines, trace_lines)
        except Desync as e:
            self.desync = str(e)

    def bad(self, prop, clause, line, detail):
        self.problems.append({"prop": prop, "clause": clause, "line": line, "detail": detail})

    # -- the script as the mock transport sees it
    def _load(self, script_lines):
        self.cfg = (3600, 7200, 600, 0)
        self.expire_eff = None        # "# expire_eff N": accept-any mode, the only End of Data values put expire N in force
        self.foreign = set()
        self.pre_own = set()
        self.evs = []
        for l in script_lines:
            w = l.split()
            if not w:
                continue
            if w[0] == "cfg":
                self.cfg = tuple(int(x) for x in w[1:5])
            elif w[0] == "#" and len(w) == 3 and w[1] == "expire_eff":
                self.expire_eff = int(w[2])
            elif w[0] == "pre":
                r = pre_record(l)
                (self.pre_own if r.endswith(":1") else self.foreign).add(r)
            elif w[0] == "ev":
                if w[1] == "data":
                    b = bytes.fromhex(w[2]) if len(w) > 2 else b""
                    if b:
                        self.evs.append(["data", b, 0])
                elif w[1] in ("err", "wait"):
                    self.evs.append([w[1], int(w[2])])
                elif w[1] == "stop":
                    self.evs.append(["stop"])
        self.iev = 0

    def _recv(self, timeout, result):
        """Re-simulate one tr_recv call of the mock; returns bytes delivered (or b'')."""
        left = max(0, timeout)
        while True:
            if self.iev >= len(self.evs):
                raise Desync("trace has a RECV beyond the script")
            e = self.evs[self.iev]
            if e[0] == "wait":
                if e[1] <= left:
                    self.clock += e[1]
                    left -= e[1]
                    self.iev += 1
                    continue
                e[1] -= left
                self.clock += left
                if not result.startswith("WOULDBLOCK"):
                    raise Desync("expected WOULDBLOCK, trace says " + result)
                return b""
            if e[0] == "err":
                self.iev += 1
                if not result.startswith("ERR"):
                    raise Desync("expected ERR, trace says " + result)
                return b""
            if e[0] == "stop":
                self.iev += 1
                if not result.startswith("STOP"):
                    raise Desync("expected STOP, trace says " + result)
                return b""
            try:
                n = int(result)
            except ValueError:
                raise Desync("expected a byte count, trace says " + result)
            b = e[1][e[2]:e[2] + n]
            if len(b) != n:
                raise Desync("RECV returned more bytes than the event holds")
            e[2] += n
            if e[2] == len(e[1]):
                self.iev += 1
            return b

    # -- the walk
    def _walk(self, script_lines, trace):
        self._load(script_lines)
        expire = self.expire_eff or self.cfg[1]
        self.clock = 1000
        own = set(self.pre_own)
        ghost = None                  # (session, serial) of the last exchange that reached ESTABLISHED, until a reset cause
        last_update = 0
        sentbuf = b""
        pending = None                # last query sent and not yet followed by STATE SYNC
        cur = None                    # open exchange
        last_failed = None            # last failed exchange still waiting for the "next query" clause
        state = 0
        stopping = False
        in_dump = None
        purge_block = False
        i = 0

        def end_exchange(outcome, st, line):
            nonlocal cur, last_failed, ghost, last_update
            ex = cur
            cur = None
            ex.outcome = outcome
            ex.end_state = st
            ex.end_line = line
            ex.own_after = set(own)
            self.exchanges.append(ex)
            if outcome == "success":
                self._check_success(ex, line)
                r = ex.parsed
                if r is not None:
                    ghost = (r["eod_session"], r["eod_serial"])
                else:
                    ghost = ("?", "?")
                last_update = self.clock
                last_failed = None
            else:
                if ex.own_after != ex.own_before:
                    self.bad("C03", "failure leaves the records as before", line,
                             "exchange starting at trace line %d ended with %s but the socket's records changed: +%r -%r" % (
                                 ex.line, outcome, sorted(ex.own_after - ex.own_before)[:4], sorted(ex.own_before - ex.own_after)[:4]))
                if outcome == "reset-request":
                    ghost = None
                    self._check_reset_request(ex, line)
                last_failed = ex

        for i, l in enumerate(trace):
            w = l.split()
            if not w:
                continue
            k = w[0]
            if in_dump is not None:
                if k == "REC":
                    in_dump[2].append(w[1])
                    continue
                if k == "ENDDUMP":
                    self._check_dump(in_dump, own, ghost, i)
                    in_dump = None
                    continue
            if purge_block and k not in ("PFXCB", "KEYCB"):
                purge_block = False
                if own:
                    self.bad("C03", "purge removes everything", i, "records removed outside an exchange but %d remain" % len(own))
            if k == "DUMP":
                in_dump = (w[1], dict(x.split("=", 1) for x in w[2:]), [])
            elif k == "OPEN":
                t = int(w[2].split("=")[1])
                if t != self.clock:
                    raise Desync("clock: trace OPEN t=%d, simulated %d" % (t, self.clock))
                sentbuf = b""
                pending = None
                stopping = False
            elif k == "SLEEP":
                self.clock += int(w[1])
            elif k == "SEND":
                sentbuf += bytes.fromhex(w[1]) if len(w) > 1 else b""
                while len(sentbuf) >= 8:
                    ver, typ, field, ln = struct.unpack(">BBHI", sentbuf[:8])
                    if ln < 8 or ln > rtrsim.MAX_PDU_LEN:
                        sentbuf = b""
                        break
                    if len(sentbuf) < ln:
                        break
                    p, sentbuf = sentbuf[:ln], sentbuf[ln:]
                    q = None
                    if typ == rtrsim.RESET_QUERY and ln == 8:
                        q = ("reset",)
                    elif typ == rtrsim.SERIAL_QUERY and ln == 12:
                        q = ("serial", field, struct.unpack(">I", p[8:12])[0])
                    if q is None:
                        continue
                    # expiry is evaluated by the client when it (re)connects, before the query
                    exp = ("reset",) if ghost is None else ("serial",) + tuple(ghost)
                    self.queries.append((i, q, exp))
                    if "?" not in exp and q != exp:
                        self.bad("C05", "query carries the last completed session and serial", i,
                                 "sent %r, expected %r (last completed exchange / reset causes since)" % (q, exp))
                    if last_failed is not None:
                        self._check_next_query(last_failed, q, own, i)
                        last_failed = None
                    pending = q
            elif k == "SENDFAIL":
                pass
            elif k == "RECV":
                t = int(w[1].split("=")[1])
                b = self._recv(t, " ".join(w[3:]))
                if cur is not None:
                    cur.consumed += b
            elif k == "STATE":
                st = int(w[1])
                if st == SYNC:
                    if pending is None:
                        self.bad("C05", "SYNC entered without a query", i, "state SYNC although no query was sent on this connection")
                        pending = ("?",)
                    cur = Exchange(pending, i, own)
                    pending = None
                elif cur is not None:
                    if st == ESTABLISHED:
                        end_exchange("success", st, i)
                    elif cur.end_state is not None and st in (0, 2):
                        # the client has left rtr_sync (the rollback callbacks come after the first error state)
                        end_exchange("reset-request" if cur.end_state in (5, 6) else "fail", cur.end_state, i)
                    elif cur.end_state is None:
                        cur.end_state = st
                elif st in (5, 6):
                    ghost = None
                state = st
            elif k == "CLOSE":
                if cur is not None and cur.end_state is not None:
                    end_exchange("reset-request" if cur.end_state in (5, 6) else "fail", cur.end_state, i)
            elif k in ("PFXCB", "KEYCB"):
                sign, rec = w[1][0], w[1][1:]
                if not rec.endswith(":1"):
                    self.bad("C03", "records of other caches are never altered", i, "callback for a foreign record: " + l)
                    continue
                if sign == "+":
                    if rec in own:
                        self.bad("C03", "callbacks replay to the contents", i, "added twice: " + rec)
                    own.add(rec)
                else:
                    if rec not in own:
                        self.bad("C03", "callbacks replay to the contents", i, "removed but absent: " + rec)
                    own.discard(rec)
                if cur is not None:
                    cur.callbacks += 1
                else:
                    # only a purge (expiry, stop) changes the tables outside an exchange
                    if sign == "+":
                        self.bad("C03", "tables change only inside an exchange", i, "record added outside an exchange: " + rec)
                    if not purge_block:
                        purge_block = True
                        self.purges += 1
                        explained = stopping or (last_update != 0 and last_update + expire < self.clock)
                        if not explained:
                            self.bad("C05", "records purged without expiry or stop", i,
                                     "removal outside an exchange at t=%d, last success at %d, expire %d" % (self.clock, last_update, expire))
                        ghost = None
                        last_update = 0
            elif k == "STOPPING":
                stopping = True
                if cur is not None:
                    end_exchange("stop", None, i)
                ghost = None
                last_update = 0
                last_failed = None
                pending = None
            elif k == "END":
                if cur is not None:
                    end_exchange("end", None, i)
            # expiry with no records left to remove is silent: evaluated where the client does it, before tr_open
            if k == "OPEN":
                if last_update != 0 and last_update + expire < self.clock:
                    ghost = None
                    last_update = 0
        return

    # -- clause checks
    def _find_response(self, ex):
        """The suffix of the consumed bytes that is one complete response."""
        data = ex.consumed
        cands = []
        for o in range(len(data) - 8, -1, -1):
            if data[o + 1] != rtrsim.CACHE_RESPONSE:
                continue
            r = parse_response(data[o:])
            if r is not None:
                cands.append(r)
        return cands

    def _check_success(self, ex, line):
        ex.parsed = None
        cands = self._find_response(ex)
        if not cands:
            self.bad("C03", "success only for a complete well-formed response", line,
                     "exchange at trace line %d reached ESTABLISHED but what the cache delivered (%d bytes) does not end with "
                     "Cache Response .. End of Data" % (ex.line, len(ex.consumed)))
            return
        old = set() if ex.query[0] == "reset" else ex.own_before
        verdicts = []
        for r in cands:
            exp, why = apply_payload(old, r["payload"])
            verdicts.append((r, exp, why))
        good = [v for v in verdicts if v[1] is not None and v[1] == ex.own_after]
        if len(cands) > 1 and good:
            self.ambiguous += 1
        r, exp, why = good[0] if good else verdicts[0]
        ex.parsed = r
        if exp is None:
            self.bad("C03", "a response that cannot be applied completely fails", line,
                     "exchange at trace line %d reached ESTABLISHED although the response is invalid: %s" % (ex.line, why))
            return
        if exp != ex.own_after:
            self.bad("C03", "complete application", line,
                     "exchange at trace line %d (%s): records after = %d, expected %d; missing %r extra %r" % (
                         ex.line, ex.query[0], len(ex.own_after), len(exp), sorted(exp - ex.own_after)[:3], sorted(ex.own_after - exp)[:3]))
        if r["cr_session"] != r["eod_session"]:
            self.bad("C05", "foreign session refused", line,
                     "exchange at trace line %d succeeded with Cache Response session %d and End of Data session %d" % (
                         ex.line, r["cr_session"], r["eod_session"]))
        if ex.query[0] == "serial" and r["cr_session"] != ex.query[1]:
            self.bad("C05", "foreign session refused", line,
                     "exchange at trace line %d: Serial Query for session %d answered with session %d was applied" % (
                         ex.line, ex.query[1], r["cr_session"]))

    def _check_reset_request(self, ex, line):
        # state 6 needs a Cache Reset, state 5 an Error Report 2, in what the cache delivered
        pdus, rest, err = rtrsim.parse_pdus(ex.consumed)
        pdus = [p for p in pdus if p["type"] != rtrsim.SERIAL_NOTIFY]
        if err is not None and not pdus:
            return
        if ex.end_state == 6 and not any(p["type"] == rtrsim.CACHE_RESET for p in pdus):
            self.bad("C05", "reset only on a Cache Reset", line, "state NO_INCR_UPDATE_AVAIL without a Cache Reset PDU in the delivered bytes")
        if ex.end_state == 5 and not any(p["type"] == rtrsim.ERROR and p["field"] == 2 for p in pdus):
            self.bad("C05", "reset only on a no-data error", line, "state NO_DATA_AVAIL without an Error Report code 2 in the delivered bytes")

    def _check_next_query(self, ex, q, own, line):
        ex.next_checked = True
        if ex.outcome == "reset-request":
            if q != ("reset",):
                self.bad("C05", "Cache Reset / no-data error make the next query a Reset Query", line, "next query is %r" % (q,))
            return
        same = (q == ex.query) and own == ex.own_before
        purged = (q == ("reset",)) and not own
        if not (same or purged):
            self.bad("C03", "after a failed response: same records and same query, or no records and a Reset Query", line,
                     "failed exchange at trace line %d had query %r and %d records; now query %r with %d records" % (
                         ex.line, ex.query, len(ex.own_before), q, len(own)))

    def _check_dump(self, d, own, ghost, line):
        tag, f, recs = d
        mine = set(r for r in recs if r.endswith(":1"))
        others = set(r for r in recs if not r.endswith(":1"))
        if others != self.foreign:
            self.bad("C03", "records of other caches are never altered", line,
                     "DUMP %s: foreign records differ: missing %r extra %r" % (tag, sorted(self.foreign - others)[:3], sorted(others - self.foreign)[:3]))
        if mine != own:
            self.bad("C03", "callbacks replay to the contents", line,
                     "DUMP %s: table has %d own records, callback replay %d; missing %r extra %r" % (
                         tag, len(mine), len(own), sorted(own - mine)[:3], sorted(mine - own)[:3]))
        if tag == "stopped" and (mine or f.get("reqsess") != "1" or f.get("serial") != "0"):
            self.bad("C05", "stop makes the next query a Reset Query", line, "after rtr_stop: %d records, reqsess=%s serial=%s" % (
                len(mine), f.get("reqsess"), f.get("serial")))
        if tag == "final" and ghost is not None and "?" not in ghost and f.get("reqsess") == "0":
            if (int(f["session"]), int(f["serial"])) != tuple(ghost):
                self.bad("C05", "session and serial are those of the last End of Data", line,
                         "final: session=%s serial=%s, last completed exchange %r" % (f["session"], f["serial"], ghost))
