"""C18 - allocation failure is contained; the configured allocator is used consistently.

Decided by: Coq theorems (coq/theories/Props/Properties_C18.v) about Alloc/AllocModel.v: the table operations of
trie-pfx.c / ht-spkitable.c / tommyhashlin.c and the store/apply part of rtr_sync over an allocator state
(fault position, live blocks, event log), every allocation / release site an action in the C's order.
Tie to /repo, checked on every run:
  (a) hash function, TOMMY_HASHLIN_BIT, TEMPORARY_PDU_STORE_INCREMENT_VALUE are translated from /repo (Gen/Generated.v);
  (b) correspondence: harness/alloc_inject.c (the real functions under an allocator installed with
      lrtr_set_alloc_functions that counts, logs, guards and injects; ASan+UBSan, asserts on; libc free/malloc
      wrapped at link time) and the extracted model (ocaml/c18_driver.ml) run the same scripts: for every history and
      every k from 1 to the number of allocations the op performs, the k-th fails.  Compared per op: result,
      callbacks, allocator event kinds IN ORDER, allocation count, live-block count, detections; contents at dumps.
  (c) the model carries, per defective site, the code as it is and the repaired code; which one /repo matches is
      determined on every run by seven probe scripts (a site matching neither = broken tie).
Failing-input search: an independent python oracle (sets; error => no change, nothing leaked; no crash; no libc
release; nothing live after the tables are freed) judges Impl's observations; it never looks at the model.
"""
import hashlib
import json
import os
import re
import shutil
import struct
import subprocess
import time

import vlib

LEVEL = "proof"
THEOREMS = [
    "C18_alloc_erase", "C18_contained_pfx_add", "C18_contained_pfx_remove", "C18_contained_pfx_src_remove",
    "C18_contained_pfx_validate", "C18_contained_spki_add", "C18_contained_spki_other", "C18_contained_spki_lookup",
    "C18_contained_step", "C18_histories", "C18_balanced", "C18_sync_prepare_contained",
    "C18_full_repaired", "C18_full_of_fixes", "C18_refuted_shrink", "C18_refuted_grow", "C18_refuted_init", "C18_refuted_free",
    "C18_refuted_reason", "C18_refuted_lookup", "C18_refuted_as_is", "C18_refuted_children", "C18_as_is_part", "C18_code_constants",
]
INC = ("rtrlib/spki/hashtable/ht-spkitable.c",)
WRAPS = ("free", "malloc", "calloc", "realloc", "strdup")
CORPUS = os.path.join(vlib.VERIF, "corpus", "C18")
FLAGS = ["shrink_ok", "grow_checked", "init_checked", "free_cfg", "reason_tmp", "children_once", "result_null"]
KEYS = {
    "shrink_ok": "src-remove-partial",
    "grow_checked": "hashlin-grow-unchecked",
    "init_checked": "hashlin-init-unchecked",
    "free_cfg": "spki-free-libc",
    "reason_tmp": "validate-reason-leak",
    "children_once": "children-double-free",
    "result_null": "lookup-dangling-result",
}
WHAT = {
    "src-remove-partial": "a failed shrinking realloc in pfx_table_del_elem aborts pfx_table_src_remove half way: PFX_ERROR with "
                          "part of the source's records removed (and reported); in pfx_table_notify_diff it produces a spurious 'added'",
    "hashlin-grow-unchecked": "hashlin_grow_step does not look at the result of tommy_malloc: a failed segment allocation during "
                              "spki_table_add_entry is a NULL dereference",
    "hashlin-init-unchecked": "tommy_hashlin_init's calloc is not checked and spki_table_init cannot report it: the table (also the "
                              "shadow table of an atomic reload) dereferences NULL at its first use",
    "spki-free-libc": "spki_table_free / spki_table_free_without_notify release the entries obtained with lrtr_malloc through libc free()",
    "validate-reason-leak": "pfx_table_validate_r overwrites *reason with the failed realloc's NULL: the array built so far is leaked",
    "children-double-free": "trie_get_children releases *array once per active recursion level when an append fails (double free)",
    "lookup-dangling-result": "spki_table_get_all / spki_table_search_by_ski return SPKI_ERROR with *result pointing at the array they "
                              "just released; the in-tree callers (bgpsec.c) release it again",
}


# ---------------------------------------------------------------------------
# building the two executables
# ---------------------------------------------------------------------------
def init_returns_int():
    try:
        src = open(os.path.join(vlib.REPO, INC[0])).read()
    except OSError:
        return False
    return re.search(r"^\s*int\s+spki_table_init\s*\(", src, re.M) is not None


def build_impl():
    extra = ["-DSPKI_INIT_RETURNS_INT"] if init_returns_int() else []
    return vlib.build_harness("alloc_inject", os.path.join(vlib.VERIF, "harness", "alloc_inject.c"),
                              includes_repo_c=INC, wraps=WRAPS, san="asan", extra=extra)


def build_model():
    ml = os.path.join(vlib.COQ, "c18_model.ml")
    mli = os.path.join(vlib.COQ, "c18_model.mli")
    vo = os.path.join(vlib.THEORIES, "Extract", "Extract_C18.vo")
    if not (os.path.exists(ml) and os.path.exists(mli)) and os.path.exists(vo):
        os.remove(vo)
    ok, out = vlib.coq_make(["theories/Extract/Extract_C18.vo"], timeout=900)
    if not ok or not os.path.exists(ml):
        raise vlib.BuildError("extraction of the C18 model failed:\n" + out[-3000:])
    drv = os.path.join(vlib.VERIF, "ocaml", "c18_driver.ml")
    key = hashlib.sha1(b"\0".join(open(f, "rb").read() for f in (ml, mli, drv))).hexdigest()
    odir = os.path.join(vlib.BUILD, "c18")
    os.makedirs(odir, exist_ok=True)
    os.makedirs(os.path.join(vlib.BUILD, "bin"), exist_ok=True)
    exe = os.path.join(vlib.BUILD, "bin", "c18_model")
    stamp = os.path.join(odir, "stamp")
    if os.path.exists(exe) and os.path.exists(stamp) and open(stamp).read() == key:
        return exe
    for f in (ml, mli, drv):
        shutil.copy(f, odir)
    rc, out = vlib.sh(["ocamlfind", "ocamlopt", "-O3", "-w", "-a", "-o", exe, "c18_model.mli", "c18_model.ml", "c18_driver.ml"],
                      cwd=odir, timeout=900)
    if rc != 0:
        raise vlib.BuildError("ocaml build of the C18 model failed:\n" + out[-3000:])
    with open(stamp, "w") as f:
        f.write(key)
    return exe


# ---------------------------------------------------------------------------
# running scripts
# ---------------------------------------------------------------------------
def run_exe(cmd, lines, env=None, timeout=300):
    """-> (rc, stdout lines, stderr text); stdout and stderr are kept apart (the library's debug output is on stderr)"""
    try:
        p = subprocess.run(cmd, input="".join(l + "\n" for l in lines), stdout=subprocess.PIPE, stderr=subprocess.PIPE,
                           universal_newlines=True, errors="replace", timeout=timeout, env=env)
    except subprocess.TimeoutExpired:
        return 124, [], "[timeout]"
    out = p.stdout.split("\n")
    while out and out[-1] == "":
        out.pop()
    return p.returncode, out, p.stderr


LINE_RE = re.compile(r"^(.*?) \| cb=\[(.*?)\] \| ev=\[(.*?)\] \| n=(\d+) live=(\d+) X=(\d+) F=(\d+) L=(\d+)(?: # (.*))?$")
DUMP_RE = re.compile(r"^DUMP P0=\[(.*?)\] P1=\[(.*?)\] K0=\[(.*?)\] C0=(\d+) K1=\[(.*?)\] C1=(\d+) live=(\d+)$")


def parse(line):
    m = DUMP_RE.match(line)
    if m:
        return {"k": "dump", "P": [m.group(1).split(), m.group(2).split()], "K": [m.group(3).split(), m.group(5).split()],
                "C": [int(m.group(4)), int(m.group(6))], "live": int(m.group(7))}
    m = LINE_RE.match(line)
    if m:
        head = m.group(1)
        res = None
        mm = re.match(r"^(\S+) res=\[(.*)\]$", head)
        if mm:
            head, res = mm.group(1), mm.group(2).split()
        return {"k": "op", "head": head, "res": res, "cb": m.group(2).split(), "ev": m.group(3).split(), "n": int(m.group(4)),
                "live": int(m.group(5)), "X": int(m.group(6)), "F": int(m.group(7)), "L": int(m.group(8)), "extra": m.group(9)}
    if line.startswith("ok failat"):
        return {"k": "failat"}
    if line == "CRASH":
        return {"k": "crash"}
    if line == "bad":
        return {"k": "bad"}
    return {"k": "garbage", "text": line[:200]}


def crash_site(stderr):
    """which unchecked allocation the sanitizer report points at"""
    if "hashlin_grow_step" in stderr:
        return "grow"
    if "tommy_hashlin" in stderr or "spki_table" in stderr:
        return "init"
    return "other"


class Runner:
    def __init__(self):
        self.impl = build_impl()
        self.model = build_model()
        self.env = vlib.san_env()
        self.impl_runs = 0

    def run_impl(self, lines):
        """a crash ends the process: the observations up to it are kept, `crash` says where and what"""
        self.impl_runs += 1
        rc, out, err = run_exe([self.impl], lines, env=self.env)
        obs = [parse(l) for l in out[:len(lines)]]
        crash = None
        if rc != 0 or len(obs) < len(lines):
            crash = {"at": len(obs), "rc": rc, "site": crash_site(err),
                     "report": "\n".join(l for l in err.split("\n") if not re.match(r"^\(\d{4}/", l))[-1800:]}
        return obs, crash

    def run_model(self, lines, variant):
        rc, out, err = run_exe([self.model, variant], lines)
        obs = [parse(l) for l in out[:len(lines) + 1]]
        crash = None
        if obs and obs[-1]["k"] == "crash":
            obs.pop()
            crash = {"at": len(obs)}
        elif rc != 0 or len(obs) < len(lines):
            crash = {"at": len(obs), "driver_error": (err or "")[-500:] + " rc=%d" % rc}
        return obs, crash


# ---------------------------------------------------------------------------
# sync streams (PDU builders as tools/rtrsim.py; router keys in the encoding of the harness)
# ---------------------------------------------------------------------------
CACHE_RESPONSE, IPV4_PREFIX, IPV6_PREFIX, EOD, ROUTER_KEY = 3, 4, 6, 7, 9


def hdr(ver, typ, field, length):
    return struct.pack(">BBHI", ver, typ, field & 0xffff, length)


def enc(n, idv):
    b = bytearray((0xA5 ^ (i * 7)) & 0xff for i in range(n))
    b[0] = idv & 0xff
    b[1] = (idv >> 8) & 0xff
    b[n - 2] = (idv >> 16) & 0xff
    b[n - 1] = (idv >> 24) & 0xff
    return bytes(b)


def prefix_pdu(rec, announce):
    fam, bits, ln, mx, asn = rec[:5]
    addr = int(bits, 2).to_bytes(len(bits) // 8, "big")
    body = bytes([1 if announce else 0, ln, mx, 0]) + addr + struct.pack(">I", asn)
    return hdr(1, IPV4_PREFIX if fam == "4" else IPV6_PREFIX, 0, 8 + len(body)) + body


def key_pdu(key, announce):
    asn, ski, spki = key[:3]
    return struct.pack(">BBBBI", 1, ROUTER_KEY, 1 if announce else 0, 0, 123) + enc(20, ski) + struct.pack(">I", asn) + enc(91, spki)


def sync_line(reset, updates, session=7, serial=9):
    """updates: list of ('p', announce, (fam,bits,len,max,asn)) / ('k', announce, (asn,ski,spki)) in arrival order"""
    b = hdr(1, CACHE_RESPONSE, session, 8)
    for kind, ann, x in updates:
        b += prefix_pdu(x, ann) if kind == "p" else key_pdu(x, ann)
    b += hdr(1, EOD, session, 24) + struct.pack(">IIII", serial, 3600, 600, 7200)
    return "sync %d %s" % (1 if reset else 0, b.hex())


def decode_sync(line):
    """the updates a sync line carries (for the oracle): the inverse of sync_line"""
    tk = line.split()
    reset = tk[1] == "1"
    b = bytes.fromhex(tk[2])
    ups = []
    i = 0
    while i + 8 <= len(b):
        typ = b[i + 1]
        ln = struct.unpack(">I", b[i + 4:i + 8])[0]
        if typ == IPV4_PREFIX:
            bits = "".join("{:08b}".format(x) for x in b[i + 12:i + 16])
            ups.append(("p", b[i + 8] == 1, "4:%s/%d-%d:%d:1" % (bits, b[i + 9], b[i + 10], struct.unpack(">I", b[i + 16:i + 20])[0])))
        elif typ == IPV6_PREFIX:
            bits = "".join("{:08b}".format(x) for x in b[i + 12:i + 28])
            ups.append(("p", b[i + 8] == 1, "6:%s/%d-%d:%d:1" % (bits, b[i + 9], b[i + 10], struct.unpack(">I", b[i + 28:i + 32])[0])))
        elif typ == ROUTER_KEY:
            def dec(o, n):
                return b[o] | (b[o + 1] << 8) | (b[o + n - 2] << 16) | (b[o + n - 1] << 24)
            ups.append(("k", b[i + 2] == 1, "%d/%d/%d/1" % (struct.unpack(">I", b[i + 28:i + 32])[0], dec(i + 8, 20), dec(i + 32, 91))))
        elif typ == EOD:
            break
        i += ln
    return reset, ups


# ---------------------------------------------------------------------------
# Spec: python sets.  Judges Impl's observations only.
# ---------------------------------------------------------------------------
def prec(tk):
    """'padd T fam bits len max asn src' -> canonical record text"""
    return "%s:%s/%d-%d:%d:%d" % (tk[2], tk[3], int(tk[4]), int(tk[5]), int(tk[6]), int(tk[7]))


def pfields(r):
    m = re.match(r"^([46]):([01]+)/(\d+)-(\d+):(\d+):(\d+)$", r)
    return m.group(1), m.group(2), int(m.group(3)), int(m.group(4)), int(m.group(5)), int(m.group(6))


def kfields(r):
    return tuple(int(x) for x in r.split("/"))


def rfc6811(recs, fam, qbits, qlen, asn):
    cov = []
    for r in recs:
        f, bits, ln, mx, a, _ = pfields(r)
        if f == fam and ln <= qlen and bits[:ln] == qbits[:ln]:
            cov.append(r)
    if not cov:
        return "NOT_FOUND", cov
    for r in cov:
        f, bits, ln, mx, a, _ = pfields(r)
        if a != 0 and a == asn and qlen <= mx:
            return "VALID", cov
    return "INVALID", cov


class Problem(Exception):
    def __init__(self, text, key=None):
        Exception.__init__(self, text)
        self.text = text
        self.key = key


class Spec:
    """state: two prefix sets, two key sets, the live-block count reported by the previous line"""

    def __init__(self):
        self.P = [set(), set()]
        self.K = [set(), set()]
        self.live = None
        self.fault = 0          # fault armed for the next op
        self.X = 0
        self.F = 0

    def check_counts(self, ob, opname):
        if ob["L"]:
            raise Problem("library code called libc malloc/calloc/realloc/strdup directly (%d times)" % ob["L"], "libc-direct-alloc")
        if ob["F"] > self.F:
            self.F = ob["F"]
            raise Problem("%d block(s) of the configured allocator were released through libc free()" % ob["F"],
                          "spki-free-libc" if opname in ("kfree", "end", "sync") else None)
        if ob["X"] > self.X:
            self.X = ob["X"]
            key = {"children": "children-double-free", "kget": "lookup-dangling-result", "kski": "lookup-dangling-result"}.get(opname)
            raise Problem("a pointer that is not a live block was released (double free / dangling pointer)", key)

    def step(self, line, ob):
        """judge one observation; raises Problem"""
        tk = line.split()
        name = tk[0]
        if name == "failat":
            self.fault = int(tk[1])
            return
        fault, self.fault = self.fault, 0
        if ob["k"] == "dump":
            for t in (0, 1):
                if sorted(ob["P"][t]) != sorted(self.P[t]):
                    raise Problem("prefix table %d holds %r, the set semantics gives %r" % (t, sorted(ob["P"][t])[:6], sorted(self.P[t])[:6]))
                if sorted(ob["K"][t]) != sorted(self.K[t]) or ob["C"][t] != len(self.K[t]):
                    raise Problem("router-key table %d holds %r (count %d), the set semantics gives %r" % (
                        t, sorted(ob["K"][t])[:6], ob["C"][t], sorted(self.K[t])[:6]))
            self.live = ob["live"]
            return
        if ob["k"] != "op":
            raise Problem("unexpected output line %r" % (ob,))
        live_before, self.live = self.live, ob["live"]
        failed = any(e in ("M", "R", "R0") for e in ob["ev"])
        if failed and not fault:
            raise Problem("an allocation failed without a fault being injected")
        self.check_counts(ob, name)
        head, cb = ob["head"], ob["cb"]

        def unchanged_live():
            if live_before is not None and ob["live"] != live_before:
                raise Problem("the failed operation changed the number of allocated blocks from %d to %d" % (live_before, ob["live"]),
                              "validate-reason-leak" if name == "pval" else None)

        def err_no_effect(what):
            if not failed:
                raise Problem("%s reported an error although no allocation failed" % what)
            if cb:
                raise Problem("%s reported an error and invoked update callbacks %r" % (what, cb[:4]),
                              "src-remove-partial" if name == "psrcdel" else None)
            unchanged_live()

        if name in ("padd", "pdel"):
            t, r = int(tk[1]), prec(tk)
            S = self.P[t]
            if head == "ERROR":
                return err_no_effect("pfx_table_%s" % ("add" if name == "padd" else "remove"))
            if name == "padd":
                exp = "DUP" if r in S else "SUCCESS"
                if exp == "SUCCESS":
                    S.add(r)
                expcb = ["+" + r] if exp == "SUCCESS" and t == 0 else []
            else:
                exp = "SUCCESS" if r in S else "NOTFOUND"
                if exp == "SUCCESS":
                    S.discard(r)
                expcb = ["-" + r] if exp == "SUCCESS" and t == 0 else []
            if head != exp:
                raise Problem("%s returned %s, the set semantics gives %s" % (name, head, exp))
            if cb != expcb:
                raise Problem("%s invoked callbacks %r, expected %r" % (name, cb, expcb))
            return
        if name == "psrcdel":
            t, src = int(tk[1]), int(tk[2])
            S = self.P[t]
            if head == "ERROR":
                return err_no_effect("pfx_table_src_remove")
            gone = set(r for r in S if pfields(r)[5] == src)
            S -= gone
            if head != "SUCCESS":
                raise Problem("psrcdel returned %s" % head)
            if sorted(cb) != sorted(("-" + r for r in gone) if t == 0 else []):
                raise Problem("psrcdel invoked callbacks %r, expected the removal of %r" % (cb[:4], sorted(gone)[:4]))
            return
        if name == "pval":
            t, fam, qbits, qlen, asn = int(tk[1]), tk[2], tk[3], int(tk[4]), int(tk[5])
            if head == "ERROR":
                return err_no_effect("pfx_table_validate_r")
            st, cov = rfc6811(self.P[t], fam, qbits, qlen, asn)
            if head != st:
                raise Problem("validation state %s, RFC 6811 over the set gives %s" % (head, st))
            if not set(ob["res"] or []) <= set(cov) or (st == "INVALID" and sorted(ob["res"]) != sorted(cov)):
                raise Problem("reason records %r are not the covering records %r" % (ob["res"][:4], cov[:4]))
            if live_before is not None and ob["live"] != live_before:
                raise Problem("validation changed the number of allocated blocks from %d to %d" % (live_before, ob["live"]))
            return
        if name == "pfree":
            t = int(tk[1])
            exp = sorted("-" + r for r in self.P[t]) if t == 0 else []
            self.P[t] = set()
            if head != "FREED" or sorted(cb) != exp:
                raise Problem("pfx_table_free: %s, callbacks %r, expected %r" % (head, cb[:4], exp[:4]))
            return
        if name == "children":
            t = int(tk[1])
            if head.startswith("rc=-1"):
                return err_no_effect("trie_get_children")
            return
        if name in ("kadd", "krm"):
            t = int(tk[1])
            r = "%d/%d/%d/%d" % tuple(int(x) for x in tk[2:6])
            S = self.K[t]
            if head == "ERROR":
                return err_no_effect("spki_table_%s_entry" % ("add" if name == "kadd" else "remove"))
            if name == "kadd":
                exp = "DUP" if r in S else "SUCCESS"
                if exp == "SUCCESS":
                    S.add(r)
                expcb = ["+K" + r] if exp == "SUCCESS" and t == 0 else []
            else:
                exp = "SUCCESS" if r in S else "NOTFOUND"
                if exp == "SUCCESS":
                    S.discard(r)
                expcb = ["-K" + r] if exp == "SUCCESS" and t == 0 else []
            if head != exp:
                raise Problem("%s returned %s, the set semantics gives %s" % (name, head, exp))
            if cb != expcb:
                raise Problem("%s invoked callbacks %r, expected %r" % (name, cb, expcb))
            return
        if name == "ksrcrm":
            t, src = int(tk[1]), int(tk[2])
            S = self.K[t]
            gone = set(r for r in S if kfields(r)[3] == src)
            S -= gone
            if head != "SUCCESS" or sorted(cb) != sorted(("-K" + r for r in gone) if t == 0 else []):
                raise Problem("ksrcrm: %s, callbacks %r, expected the removal of %r" % (head, cb[:4], sorted(gone)[:4]))
            return
        if name in ("kget", "kski"):
            t = int(tk[1])
            if head == "ERROR":
                return err_no_effect("the router-key lookup")
            if name == "kget":
                exp = [r for r in self.K[t] if kfields(r)[0] == int(tk[2]) and kfields(r)[1] == int(tk[3])]
            else:
                exp = [r for r in self.K[t] if kfields(r)[1] == int(tk[2])]
            if head != "SUCCESS" or sorted(ob["res"]) != sorted(exp):
                raise Problem("%s returned %s %r, the set holds %r" % (name, head, (ob["res"] or [])[:4], sorted(exp)[:4]))
            if live_before is not None and ob["live"] != live_before:
                raise Problem("the lookup changed the number of allocated blocks from %d to %d" % (live_before, ob["live"]))
            return
        if name == "kfree":
            t = int(tk[1])
            n = len(self.K[t])
            self.K[t] = set()
            if head == "ERROR":
                if not failed:
                    raise Problem("spki_table_init reported an error although no allocation failed")
                return
            if head != "FREED" or cb:
                raise Problem("kfree: %s %r" % (head, cb[:4]))
            if live_before is not None and not failed and ob["live"] != live_before - n:
                raise Problem("spki_table_free + init of a table with %d entries changed the allocated blocks from %d to %d" % (
                    n, live_before, ob["live"]))
            return
        if name == "sync":
            reset, ups = decode_sync(line)
            oldP, oldK = set(self.P[0]), set(self.K[0])
            newP = set(r for r in oldP if not (reset and pfields(r)[5] == 1))
            newK = set(r for r in oldK if not (reset and kfields(r)[3] == 1))
            valid = True
            for kind, ann, r in ups:
                S = newP if kind == "p" else newK
                if ann and r not in S:
                    S.add(r)
                elif (not ann) and r in S:
                    S.discard(r)
                else:
                    valid = False       # duplicate announcement / unknown withdrawal: the stream itself is in error
            # replay the callbacks from the old contents
            curP, curK = set(oldP), set(oldK)
            for c in cb:
                S, r = (curK, c[2:]) if c[1] == "K" else (curP, c[1:])
                if c[0] == "+":
                    if r in S:
                        raise Problem("sync: callback %s for a record that was present" % c,
                                      "src-remove-partial" if reset and failed else None)
                    S.add(r)
                else:
                    if r not in S:
                        raise Problem("sync: callback %s for a record that was absent" % c)
                    S.discard(r)
            if head == "rc=0":
                if not valid:
                    raise Problem("sync succeeded on a stream with a duplicate announcement / unknown withdrawal")
                self.P[0], self.K[0] = newP, newK
            else:
                if not failed and valid:
                    raise Problem("sync failed although no allocation failed and the stream is consistent")
                if not valid:
                    # a failed rollback may purge this socket's records; the oracle follows the callbacks
                    self.P[0], self.K[0] = curP, curK
                    return
            if (curP, curK) != (self.P[0], self.K[0]):
                raise Problem("sync (%s): the callbacks replay to other contents than the set semantics gives" % head)
            if live_before is not None and head != "rc=0" and ob["live"] != live_before:
                raise Problem("the failed synchronisation changed the number of allocated blocks from %d to %d" % (live_before, ob["live"]))
            return
        if name == "end":
            self.P = [set(), set()]
            self.K = [set(), set()]
            if ob["live"] != 0:
                raise Problem("%d block(s) are still allocated after all tables were freed" % ob["live"])
            self.live = None
            self.X = self.F = 0
            return
        raise Problem("unknown op %r" % line)


def sent_reports_problem(line, ob):
    """C14 under allocation failure: whatever a synchronisation hands to the transport is a sequence of complete PDUs of the
    socket's version, and an Error Report encapsulates nothing, the 8 header bytes of a PDU of the response, or one of
    its PDUs whole - byte for byte as received."""
    m = re.search(r" tx=(\S+)", ob.get("extra") or "")
    if not m or m.group(1) == "-":
        return None
    tx = b"".join(bytes.fromhex(x) for x in m.group(1).split(","))
    rx = bytes.fromhex(line.split()[2])
    rpdus, i = [], 0
    while i + 8 <= len(rx):
        ln = struct.unpack(">I", rx[i + 4:i + 8])[0]
        if ln < 8:
            break
        rpdus.append(rx[i:i + ln])
        i += ln
    i = 0
    while i < len(tx):
        if i + 8 > len(tx):
            return "trailing %d bytes sent that are not a PDU header" % (len(tx) - i)
        ver, typ = tx[i], tx[i + 1]
        ln = struct.unpack(">I", tx[i + 4:i + 8])[0]
        if ver != 1 or ln < 8 or ln > 3248 or i + ln > len(tx):
            return "sent bytes at offset %d are not a complete version-1 PDU (version %d, type %d, length %d)" % (i, ver, typ, ln)
        p = tx[i:i + ln]
        if typ == 10:
            el = struct.unpack(">I", p[8:12])[0] if ln >= 12 else 0
            if 12 + el + 4 > ln:
                return "Error Report with encapsulated length %d in %d bytes" % (el, ln)
            enc = p[12:12 + el]
            if el and not any(enc == r or enc == r[:8] for r in rpdus):
                return "Error Report (code %d) encapsulates %d bytes that are neither a PDU of the response nor its header: %s" % (
                    struct.unpack(">H", p[2:4])[0], el, enc.hex()[:80])
        i += ln
    return None


def judge_spec(lines, obs, crash):
    """-> None or (index, text, key)"""
    sp = Spec()
    for i, ob in enumerate(obs):
        try:
            sp.step(lines[i], ob)
        except Problem as p:
            return (i, "op %r: %s" % (lines[i][:120], p.text), p.key)
        if ob.get("k") == "op" and lines[i].startswith("sync "):
            bad = sent_reports_problem(lines[i], ob)
            if bad:
                return (i, "op %r: %s" % (lines[i][:60], bad), "sent-report-under-fault")
    if crash is not None:
        i = crash["at"]
        op = lines[i].split()[0] if i < len(lines) else "?"
        key = None
        if crash["site"] == "grow":
            key = "hashlin-grow-unchecked"
        elif crash["site"] == "init":
            key = "hashlin-init-unchecked"
        return (i, "op %r: the process died (exit %s): %s" % (lines[i][:120] if i < len(lines) else "?", crash["rc"],
                                                                crash["report"][-900:]), key)
    return None


def judge_tie(lines, oi, ci, om, cm):
    """-> (None or (index, text), drift)"""
    drift = 0
    for i in range(min(len(oi), len(om))):
        a, b = oi[i], om[i]
        if a["k"] != b["k"]:
            return (i, "op %r: Impl %r, Model %r" % (lines[i][:100], a, b)), drift
        if a["k"] == "op":
            sa = (a["head"], sorted(a["cb"]), a["ev"], a["n"], a["live"], a["X"], a["F"], sorted(a["res"]) if a["res"] is not None else None)
            sb = (b["head"], sorted(b["cb"]), b["ev"], b["n"], b["live"], b["X"], b["F"], sorted(b["res"]) if b["res"] is not None else None)
            if sa != sb:
                return (i, "op %r: Impl %r, Model %r" % (lines[i][:100], sa, sb)), drift
            # order: the callbacks of each table in order (the model keeps one stream per table: the interleaving of
            # prefix and router-key callbacks inside one synchronisation is not compared)
            pa, ka = [c for c in a["cb"] if c[1] != "K"], [c for c in a["cb"] if c[1] == "K"]
            pb, kb = [c for c in b["cb"] if c[1] != "K"], [c for c in b["cb"] if c[1] == "K"]
            if pa != pb or ka != kb or a["res"] != b["res"]:
                drift += 1
        elif a["k"] == "dump":
            sa = ([sorted(x) for x in a["P"]], [sorted(x) for x in a["K"]], a["C"], a["live"])
            sb = ([sorted(x) for x in b["P"]], [sorted(x) for x in b["K"]], b["C"], b["live"])
            if sa != sb:
                return (i, "op %r: Impl %r, Model %r" % (lines[i][:100], sa, sb)), drift
            if a["P"] != b["P"] or a["K"] != b["K"]:
                drift += 1
    ai = ci["at"] if ci else None
    am = cm["at"] if cm else None
    if ai != am:
        return (min(x for x in (ai, am, len(lines)) if x is not None),
                "Impl %s, Model %s" % ("dies at op %d" % ai if ci else "runs to the end (%d lines)" % len(oi),
                                       "crashes at op %d (%s)" % (am, cm.get("driver_error", "model Crash")) if cm else "runs to the end")), drift
    return None, drift


# ---------------------------------------------------------------------------
# generators
# ---------------------------------------------------------------------------
W = {"4": 32, "6": 128}


def mkbits(rnd, w, ln, base):
    return base[:ln] + "0" * (w - ln)


def gen_pfx_pool(rnd, fam):
    """few keys (nested chain + a sibling), several records per key and per source: append / shrink / last-element paths"""
    w = W[fam]
    base = "".join(rnd.choice("01") for _ in range(w))
    lens = sorted(set(rnd.choice([0, 1, 2, 3, 8, 16, 24, w - 1, w, rnd.randint(0, w)]) for _ in range(rnd.randint(2, 5))))
    keys = [(mkbits(rnd, w, ln, base), ln) for ln in lens]
    ln = rnd.choice(lens)
    if ln > 0:
        sib = base[:ln - 1] + ("1" if base[ln - 1] == "0" else "0")
        keys.append((sib + "0" * (w - ln), ln))
    recs = []
    for bits, ln in keys:
        for _ in range(rnd.randint(1, 4)):
            recs.append((fam, bits, ln, rnd.choice([ln, w, min(w, ln + 2)]), rnd.choice([0, 1, 65000, 65001]), rnd.choice([1, 2, 2, 3])))
    return base, list(dict.fromkeys(recs))


def gen_table_history(rnd, nops):
    fam = rnd.choice("446")
    base, pool = gen_pfx_pool(rnd, fam)
    kpool = [(a, s, k, src) for a in (1, 2, 70000) for s in (1, 2) for k in (5, 6) for src in (1, 2, 3)]
    present, kpresent = [], []
    ops = []
    for _ in range(nops):
        x = rnd.random()
        t = 0 if rnd.random() < 0.85 else 1
        if x < 0.30 or (x < 0.6 and not present):
            r = rnd.choice(pool)
            ops.append("padd %d %s %s %d %d %d %d" % ((t,) + r))
            if t == 0 and r not in present:
                present.append(r)
        elif x < 0.45:
            r = rnd.choice(present) if present and rnd.random() < 0.85 else rnd.choice(pool)
            ops.append("pdel 0 %s %s %d %d %d %d" % r)
            if r in present:
                present.remove(r)
        elif x < 0.52:
            s = rnd.choice([1, 2, 3])
            ops.append("psrcdel 0 %d" % s)
            present = [r for r in present if r[5] != s]
        elif x < 0.62:
            r = rnd.choice(pool)
            ql = rnd.choice([r[2], min(W[fam], r[2] + 1), W[fam], r[3]])
            q = rnd.choice([r[1], base])
            ops.append("pval 0 %s %s %d %d" % (fam, q, ql, rnd.choice([r[4], 7])))
        elif x < 0.78:
            e = rnd.choice(kpool)
            ops.append("kadd %d %d %d %d %d" % ((t,) + e))
            if t == 0 and e not in kpresent:
                kpresent.append(e)
        elif x < 0.86:
            e = rnd.choice(kpresent) if kpresent and rnd.random() < 0.85 else rnd.choice(kpool)
            ops.append("krm 0 %d %d %d %d" % e)
            if e in kpresent:
                kpresent.remove(e)
        elif x < 0.89:
            s = rnd.choice([1, 2, 3])
            ops.append("ksrcrm 0 %d" % s)
            kpresent = [e for e in kpresent if e[3] != s]
        elif x < 0.94:
            e = rnd.choice(kpool)
            ops.append("kget 0 %d %d" % (e[0], e[1]))
        elif x < 0.97:
            ops.append("kski 0 %d" % rnd.choice([1, 2]))
        elif x < 0.985:
            ops.append("children %d" % t)
        elif x < 0.993:
            ops.append("pfree %d" % t)
            if t == 0:
                present = []
        else:
            ops.append("kfree %d" % t)
            if t == 0:
                kpresent = []
    return ops


def gen_grow_history(rnd, bit0, levels):
    """one router-key table driven across the grow thresholds (an allocation inside tommy_hashlin_insert) and back across
    the shrink thresholds (a release inside tommy_hashlin_remove); returns (ops, indices worth a fault sweep)"""
    ops, hot = [], []
    n = 0
    keys = []
    bmax = 1 << bit0
    for lv in range(levels):
        target = bmax // 2 + 1
        while n < target:
            e = (rnd.randrange(1, 5000) if rnd.random() < 0.7 else rnd.choice([1, 2, 3]), rnd.choice([1, 2, 3]), n, rnd.choice([1, 2]))
            if e in keys:
                continue
            keys.append(e)
            n += 1
            if n >= target - 1:
                hot.append(len(ops))
            ops.append("kadd 0 %d %d %d %d" % e)
        bmax *= 2
    hot.append(len(ops))
    ops.append("kski 0 %d" % rnd.choice([1, 2, 3]))
    hot.append(len(ops))
    ops.append("kget 0 %d %d" % (keys[0][0], keys[0][1]))
    # down again: a shrink starts below bucket_max / 8 and releases the segment when it completes
    rnd.shuffle(keys)
    while len(keys) > 2:
        e = keys.pop()
        if len(keys) in (bmax // 8, bmax // 8 - 1, bmax // 16, bmax // 16 - 1, 3):
            hot.append(len(ops))
        ops.append("krm 0 %d %d %d %d" % e)
    hot.append(len(ops))
    ops.append("ksrcrm 0 1")
    hot.append(len(ops))
    ops.append("kadd 0 9 9 9 2")
    return ops, hot


def gen_sync_history(rnd, reset, big=False, bad=False):
    """tables pre-filled with records of this socket (source 1) and of others, then one synchronisation whose stream is
    consistent with them: announcements of absent records, withdrawals of present ones (delta), or a full reload"""
    fam = rnd.choice("46")
    base, pool = gen_pfx_pool(rnd, fam)
    fam2 = "6" if fam == "4" else "4"
    base2, pool2 = gen_pfx_pool(rnd, fam2)
    pool = [r for r in pool + pool2[:3]]
    ops = []
    mine, others = [], []
    for r in pool:
        if rnd.random() < 0.55:
            ops.append("padd 0 %s %s %d %d %d %d" % r)
            (mine if r[5] == 1 else others).append(r)
    kpool = [(a, s, k, src) for a in (1, 2, 70000) for s in (1, 2) for k in (5,) for src in (1, 2)]
    kmine = []
    for e in kpool:
        if rnd.random() < 0.5:
            ops.append("kadd 0 %d %d %d %d" % e)
            if e[3] == 1:
                kmine.append(e)
    ups = []
    if reset:
        # the new full set of this socket: part of the old one, plus new records
        for r in pool:
            if r[5] == 1 and rnd.random() < 0.6:
                ups.append(("p", True, r[:5]))
        for e in kpool:
            if e[3] == 1 and rnd.random() < 0.6:
                ups.append(("k", True, e[:3]))
    else:
        for r in pool:
            if r[5] != 1:
                continue
            if r in mine and rnd.random() < 0.6:
                ups.append(("p", False, r[:5]))
            elif r not in mine and rnd.random() < 0.7:
                ups.append(("p", True, r[:5]))
        for e in kpool:
            if e[3] != 1:
                continue
            if e in kmine and rnd.random() < 0.6:
                ups.append(("k", False, e[:3]))
            elif e not in kmine and rnd.random() < 0.7:
                ups.append(("k", True, e[:3]))
    if big:
        # more than one store increment of IPv4 prefixes: the second realloc of the temporary array
        b = "".join(rnd.choice("01") for _ in range(16))
        for i in range(103):
            ups.append(("p", True, ("4", b + "{:016b}".format(i), 32, 32, 64500 + (i % 3))))
        # ... and of IPv6 prefixes and of router keys (each kind has its own temporary array growing in steps of 100)
        b6 = "".join(rnd.choice("01") for _ in range(48))
        for i in range(103 if reset else 0):
            ups.append(("p", True, ("6", b6 + "{:016b}".format(i) + "0" * 64, 64, 64, 64600 + (i % 3))))
        for i in range(103):
            ups.append(("k", True, (300 + i, 1 + i % 2, 5)))
    seen = set()
    ups = [u for u in ups if not (u in seen or seen.add(u))]
    rnd.shuffle(ups)
    if bad and ups:
        # a response that cannot be applied: one update is repeated at the end (second announcement = duplicate, second
        # withdrawal = unknown record), so everything applied before it is rolled back - under every allocation failure
        fam_rank = {"4": 0, "6": 1}
        def rank(u):
            return 2 if u[0] == "k" else fam_rank[u[2][0]]
        u = rnd.choice(ups)
        # the client applies IPv4, then IPv6, then keys: the repeat fails in its own phase, after the earlier phases
        ups.append(u)
    ops.append(sync_line(reset, ups))
    if rnd.random() < 0.5:
        ops.append("psrcdel 0 1")
    return ops


# ---------------------------------------------------------------------------
# cases: a history, the op that is faulted, k
# ---------------------------------------------------------------------------
def probes_after(rnd, hist, i):
    """what is asked after the faulted op: contents, a duplicate add and exact lookups for records named in the history"""
    out = ["dump"]
    padds = [l for l in hist[:i + 1] if l.startswith("padd 0")]
    kadds = [l for l in hist[:i + 1] if l.startswith("kadd 0")]
    for l in rnd.sample(padds, min(2, len(padds))):
        out.append(l)                                    # DUP if present, SUCCESS otherwise: both judged by the oracle
        tk = l.split()
        out.append("pval 0 %s %s %s %s" % (tk[2], tk[3], tk[4], tk[6]))
    for l in rnd.sample(kadds, min(2, len(kadds))):
        out.append(l)
        tk = l.split()
        out.append("kget 0 %s %s" % (tk[2], tk[3]))
    return out


def case_script(rnd, hist, i, k):
    """prefix without faults, the k-th allocation of op i fails, probes, the rest of the history, everything freed"""
    mid = probes_after(rnd, hist, i)
    return hist[:i] + ["failat %d" % k, hist[i]] + mid + hist[i + 1:] + ["dump", "end", "dump"]


def measure(R, hist):
    """dry run: allocation count per op (None where the run does not get to)"""
    obs, crash = R.run_impl(hist + ["dump", "end"])
    return [o["n"] if o["k"] == "op" else 0 for o in obs[:len(hist)]], obs, crash


# ---------------------------------------------------------------------------
# variant detection (tie part c)
# ---------------------------------------------------------------------------
A3 = "101" + "0" * 29
A4 = "1011" + "0" * 28
C1, C2, C3 = "1" + "0" * 31, "11" + "0" * 30, "111" + "0" * 29


def probe_scripts(bit0):
    n = (1 << bit0) // 2
    return {
        "shrink_ok": ["padd 0 4 %s 3 8 1 2" % A3, "padd 0 4 %s 3 9 1 2" % A3, "padd 0 4 %s 3 10 1 3" % A3, "failat 2", "psrcdel 0 2", "dump"],
        "grow_checked": ["kadd 0 %d 1 1 2" % (i + 1) for i in range(n)] + ["failat 2", "kadd 0 %d 1 1 2" % (n + 1), "dump"],
        "init_checked": ["failat 1", "kfree 1", "dump"],
        "free_cfg": ["kadd 0 1 2 3 2", "kfree 0", "dump"],
        "reason_tmp": ["padd 0 4 %s 3 8 1 2" % A3, "padd 0 4 %s 4 9 1 2" % A4, "failat 2", "pval 0 4 %s 6 7" % A4, "dump"],
        "children_once": ["padd 0 4 %s 1 8 1 2" % C1, "padd 0 4 %s 2 9 1 2" % C2, "padd 0 4 %s 3 9 1 2" % C3, "failat 2", "children 0", "dump"],
        "result_null": ["kadd 0 1 2 3 2", "kadd 0 1 2 4 2", "failat 2", "kget 0 1 2", "dump"],
    }


def bit0_from_header():
    txt = open(os.path.join(vlib.REPO, "third-party/tommyds/tommyhashlin.h")).read()
    m = re.search(r"#define\s+TOMMY_HASHLIN_BIT\s+(\d+)", txt)
    return int(m.group(1)) if m else 6


def detect_variant(R):
    """-> (variant string, {flag: 'as-is'|'repaired'|'NEITHER'}, details of a site matching neither)"""
    scripts = probe_scripts(bit0_from_header())
    bits, votes, broken = [], {}, []
    for idx, flag in enumerate(FLAGS):
        lines = scripts[flag]
        oi, ci = R.run_impl(lines)
        match = []
        for val in "01":
            var = "".join(val if j == idx else "0" for j in range(len(FLAGS)))
            om, cm = R.run_model(lines, var)
            tie, _ = judge_tie(lines, oi, ci, om, cm)
            if tie is None:
                match.append(val)
        if match == ["0"] or match == ["0", "1"]:
            bits.append("0")
            votes[flag] = "as-is"
        elif match == ["1"]:
            bits.append("1")
            votes[flag] = "repaired"
        else:
            bits.append("0")
            votes[flag] = "NEITHER"
            broken.append({"site": flag, "script": lines, "impl": [o for o in oi[-3:]], "impl_crash": ci})
    return "".join(bits), votes, broken


# ---------------------------------------------------------------------------
# the check
# ---------------------------------------------------------------------------
def corpus_scripts():
    out = []
    if os.path.isdir(CORPUS):
        for f in sorted(os.listdir(CORPUS)):
            if f.endswith(".txt"):
                out.append(("corpus:" + f, [l.rstrip("\n") for l in open(os.path.join(CORPUS, f)) if l.strip() and not l.startswith("#")]))
    return out


def ddmin(lines, keep, test, budget=60):
    """delta debugging on the lines not in `keep` (indices that must stay)"""
    idx = [i for i in range(len(lines)) if i not in keep]
    n = 2
    cur = list(range(len(lines)))
    while len(idx) >= 1 and budget > 0:
        chunk = max(1, len(idx) // n)
        reduced = False
        for start in range(0, len(idx), chunk):
            drop = set(idx[start:start + chunk])
            cand = [i for i in cur if i not in drop]
            budget -= 1
            if test([lines[i] for i in cand]):
                cur = cand
                idx = [i for i in idx if i not in drop]
                n = max(n - 1, 2)
                reduced = True
                break
            if budget <= 0:
                break
        if not reduced:
            if chunk == 1:
                break
            n = min(len(idx), n * 2)
    return [lines[i] for i in cur]


class Stats:
    def __init__(self):
        self.cases = 0
        self.ops = 0
        self.faulted = {}
        self.fail_kinds = {}
        self.outcomes = {}
        self.drift = 0
        self.nontrivial = set()
        self.samples = []
        self.crashes = 0


def run(chk):
    rnd = vlib.rng(18)
    pr = vlib.check_proofs("C18", THEOREMS)
    chk.proof = pr
    R = Runner()
    variant, votes, broken = detect_variant(R)
    chk.notes.append("variant of /repo per site: %s" % json.dumps(votes, sort_keys=True))
    reported = {"tie": 0, "spec": 0}
    seen_keys = set()
    st = Stats()
    t0 = time.time()
    budget = {"quick": 140, "thorough": 1500}[chk.tier]

    for b in broken:
        reported["tie"] += 1
        chk.violation({"kind": "impl-vs-model (tie): the code at this site matches neither the model of the code as it was nor of "
                               "the proposed repair", "site": b["site"], "script": b["script"], "impl_observation": b["impl"],
                       "impl_crash": b["impl_crash"], "proof": pr.broken, "replay_cmd": "python3 tools/check.py C18 --replay <this file>"})

    def evaluate(name, lines):
        """run one complete script on Impl and Model, judge; returns the verdicts"""
        oi, ci = R.run_impl(lines)
        om, cm = R.run_model(lines, variant)
        tie, drift = judge_tie(lines, oi, ci, om, cm)
        spec = judge_spec(lines, oi, ci)
        st.cases += 1
        st.ops += len([l for l in lines if not l.startswith(("failat", "dump"))])
        st.drift += drift
        if ci:
            st.crashes += 1
        for i, l in enumerate(lines):
            if l.startswith("failat") and i + 1 < len(oi) and oi[i + 1]["k"] == "op":
                o = oi[i + 1]
                op = lines[i + 1].split()[0]
                st.faulted[op] = st.faulted.get(op, 0) + 1
                for e in o["ev"]:
                    if e in ("M", "R", "R0"):
                        st.fail_kinds[e] = st.fail_kinds.get(e, 0) + 1
                        st.nontrivial.add((op, tuple(o["ev"]), o["head"]))
                st.outcomes["%s:%s" % (op, o["head"].split()[0])] = st.outcomes.get("%s:%s" % (op, o["head"].split()[0]), 0) + 1
        if len(st.samples) < 5 and any(l.startswith("failat") for l in lines):
            j = [i for i, l in enumerate(lines) if l.startswith("failat")][0]
            st.samples.append({"from": name, "script_len": len(lines), "fault": lines[j:j + 2],
                               "impl": [json.dumps(o)[:300] for o in oi[j + 1:j + 3]]})
        return tie, spec

    def report(name, lines, tie, spec):
        if spec is not None:
            key = spec[2]
            if key in seen_keys:
                return
            seen_keys.add(key)
            if key is not None and chk.classify(key) is not None:
                chk.violation({}, key=key)
                return
            if reported["spec"] >= 10:
                return
            reported["spec"] += 1
            fl = [i for i, l in enumerate(lines) if l.startswith("failat")]
            keep = set(fl) | set(i + 1 for i in fl) | {len(lines) - 1, len(lines) - 2, len(lines) - 3}

            def still(sub):
                oi, ci = R.run_impl(sub)
                s = judge_spec(sub, oi, ci)
                return s is not None and s[2] == key
            small = ddmin(lines, keep, still, budget=40 if chk.tier == "quick" else 120)
            oi, ci = R.run_impl(small)
            om, cm = R.run_model(small, variant)
            s2 = judge_spec(small, oi, ci) or spec
            i = min(s2[0], len(small) - 1)
            chk.violation({"kind": "impl-vs-spec (property violated by the code)", "script": small, "failing_op_index": i,
                           "failing_op": small[i], "what": s2[1], "finding": WHAT.get(key),
                           "impl_observation": oi[max(0, i - 1):i + 2], "model_observation": om[max(0, i - 1):i + 2],
                           "model_variant": variant, "from": name, "original_length": len(lines), "proof": pr.broken,
                           "replay_cmd": "python3 tools/check.py C18 --replay <this file>"}, key=key)
        if tie is not None and reported["tie"] < 2:
            reported["tie"] += 1
            fl = [i for i, l in enumerate(lines) if l.startswith("failat")]
            keep = set(fl) | set(i + 1 for i in fl)

            def still_t(sub):
                oi, ci = R.run_impl(sub)
                om, cm = R.run_model(sub, variant)
                return judge_tie(sub, oi, ci, om, cm)[0] is not None
            small = ddmin(lines, keep, still_t, budget=40)
            oi, ci = R.run_impl(small)
            om, cm = R.run_model(small, variant)
            t2 = judge_tie(small, oi, ci, om, cm)[0] or tie
            i = min(t2[0], len(small) - 1)
            chk.violation({"kind": "impl-vs-model (the model no longer describes the code: proofs do not transfer)", "script": small,
                           "failing_op_index": i, "failing_op": small[i], "what": t2[1], "impl_observation": oi[max(0, i - 1):i + 2],
                           "model_observation": om[max(0, i - 1):i + 2], "impl_crash": ci, "model_variant": variant, "from": name,
                           "proof": pr.broken, "replay_cmd": "python3 tools/check.py C18 --replay <this file>"})

    def sweep(name, hist, only=None, max_k=None):
        """every op of the history, every k up to the number of allocations the op performs"""
        ns, obs, crash = measure(R, hist)
        for i, n in enumerate(ns):
            if only is not None and i not in only:
                continue
            ks = list(range(1, n + 1))
            if max_k and len(ks) > max_k:
                ks = ks[:max_k // 2] + rnd.sample(ks[max_k // 2:], max_k - max_k // 2)
            for k in ks:
                if time.time() - t0 > budget:
                    return False
                lines = case_script(rnd, hist, i, k)
                tie, spec = evaluate(name, lines)
                if tie or spec:
                    report(name, lines, tie, spec)
        return True

    # 1. corpus (complete scripts), then the failure-free run of every generated history, then the sweeps
    for name, lines in corpus_scripts():
        tie, spec = evaluate(name, lines)
        if tie or spec:
            report(name, lines, tie, spec)

    nh = {"quick": 60, "thorough": 700}[chk.tier]
    hists = []
    for j in range(nh):
        hists.append(("table-%d" % j, gen_table_history(rnd, rnd.choice([8, 14, 22, 30])), None, None))
    bit0 = bit0_from_header()
    for j in range({"quick": 1, "thorough": 6}[chk.tier]):
        ops, hot = gen_grow_history(rnd, bit0, 2 if chk.tier == "quick" else 3)
        hists.append(("grow-%d" % j, ops, set(hot), None))
    for j in range({"quick": 10, "thorough": 120}[chk.tier]):
        hists.append(("sync-delta-%d" % j, gen_sync_history(rnd, False), None, 40))
        hists.append(("sync-reset-%d" % j, gen_sync_history(rnd, True), None, 40))
    for j in range({"quick": 8, "thorough": 80}[chk.tier]):
        hists.append(("sync-bad-delta-%d" % j, gen_sync_history(rnd, False, bad=True), None, 60))
        hists.append(("sync-bad-reset-%d" % j, gen_sync_history(rnd, True, bad=True), None, 60))
    hists.append(("sync-big-delta", gen_sync_history(rnd, False, big=True), None, 16))
    hists.append(("sync-big-reset", gen_sync_history(rnd, True, big=True), None, 16))
    order = list(range(len(hists)))
    rnd.shuffle(order)
    complete = True
    for j in order:
        name, hist, only, max_k = hists[j]
        clean = hist + ["dump", "end", "dump"]
        tie, spec = evaluate(name + ":clean", clean)
        if tie or spec:
            report(name, clean, tie, spec)
        if name.startswith("sync"):
            only = set(i for i, l in enumerate(hist) if l.startswith(("sync", "psrcdel")))
        if not sweep(name, hist, only, max_k):
            complete = False
            chk.notes.append("time budget reached in history %s" % name)
            break
    # 2. histories with several faults at arbitrary positions
    nm = {"quick": 40, "thorough": 600}[chk.tier]
    for j in range(nm):
        if time.time() - t0 > budget * 1.15:
            break
        hist = gen_table_history(rnd, rnd.choice([12, 24]))
        lines = []
        for l in hist:
            if rnd.random() < 0.3:
                lines.append("failat %d" % rnd.choice([1, 1, 2, 3]))
            lines.append(l)
            if rnd.random() < 0.1:
                lines.append("dump")
        lines += ["dump", "end", "dump"]
        tie, spec = evaluate("multi-%d" % j, lines)
        if tie or spec:
            report("multi-%d" % j, lines, tie, spec)

    chk.cov.update({
        "evaluations": st.cases,
        "distinct_nontrivial": len(st.nontrivial),
        "rule": "one evaluation = one complete script (history prefix, a fault at the k-th allocation of one operation or none, "
                "probes, rest of the history, all tables freed) run on the real code under the injecting allocator, on the extracted "
                "model and judged by the set oracle; non-trivial = distinct (operation, allocator event sequence containing a failed "
                "allocation, result) triples observed on the real code",
        "scripts_run_on_impl": R.impl_runs, "operations_executed": st.ops,
        "faulted_operations_by_kind": st.faulted, "failed_allocation_kinds": st.fail_kinds,
        "results_of_faulted_operations": st.outcomes, "impl_crashes": st.crashes,
        "histories": {"generated": len(hists), "swept_completely": complete, "multi_fault": nm},
        "order_only_differences(drift)": st.drift,
        "model_variant_matched(%s)" % ",".join(FLAGS): variant, "variant_votes": votes,
        "samples": st.samples,
        "tie": "(a) tommy_inthash_u32, TOMMY_HASHLIN_BIT, TEMPORARY_PDU_STORE_INCREMENT_VALUE translated from /repo on this run; "
               "(b) harness/alloc_inject.c (ASan+UBSan, asserts on, lrtr_set_alloc_functions, --wrap=free/malloc/calloc/realloc/strdup) "
               "vs extracted model: results, callbacks, allocator event kinds in order, counts, contents; (c) per-site variant detection",
    })
    chk.assumptions += [
        "at most one allocation fails per operation (the property's quantifier: failed one at a time); several operations of a history may each have one",
        "block identity is abstracted to the allocation site's class in the model (its tables carry no addresses); pointer-exact "
        "checks (double free, foreign block, block start) are made by the harness allocator on every run",
        "synchronisation streams are protocol-consistent (announce absent / withdraw present records); byte-level errors are C03/C04/C14",
        "fewer than 2^28 router keys; single-threaded histories (locking is C16/C06)",
        "rtr_mgr_init / transport allocation paths are outside this property's anchors",
    ]
    chk.notes += [
        "observation (not a violation): when the allocation of a shadow table OBJECT fails, rtr_sync_receive_and_store_pdus returns "
        "RTR_ERROR without changing the socket state (it stays RTR_SYNC): the FSM repeats the query at once, without a retry sleep",
        "observation: trie_get_children sizes its array with sizeof(struct trie_node) instead of sizeof(struct trie_node *) "
        "(over-allocation only)",
        "observation: a failed pfx_table_del_elem shrink in the code as it is puts the element back at the END of the array: the "
        "contents are unchanged as a set, the enumeration order changes (modelled exactly: set_payload)",
        "proved for the first part of a synchronisation only (temporary arrays, prefix shadow table, router-key shadow object: "
        "C18_sync_prepare_contained); the second part (apply / undo / purge / swap / notify_diff / cleanup) is modelled and tied by the "
        "correspondence run for every k, its containment is not a theorem",
    ]
    chk.trusted += ["python set oracle `Spec` in tools/props/C18.py", "harness/alloc_inject.c allocator, registry and libc wrappers",
                    "ASan/UBSan reports used to attribute a crash to an allocation site (function names in the stack)"]
    if not pr.ok and reported["tie"] == 0 and reported["spec"] == 0:
        chk.proof_broken(pr, "%d scripts / %d ops on the real code with injected allocation failures: Impl = Model, oracle satisfied" % (st.cases, st.ops))


def replay(path):
    o = json.load(open(path))
    lines = o.get("script")
    if not lines:
        print("replay file names no input:", json.dumps(o.get("broken")))
        return 1
    R = Runner()
    variant, votes, broken = detect_variant(R)
    oi, ci = R.run_impl(lines)
    om, cm = R.run_model(lines, variant)
    for i, l in enumerate(lines):
        print("%-60s" % l[:60])
        print("      impl : %s" % (json.dumps(oi[i])[:400] if i < len(oi) else "-"))
        print("      model: %s" % (json.dumps(om[i])[:400] if i < len(om) else "-"))
    if ci:
        print("impl died:", ci["rc"], ci["report"][-1200:])
    tie, _ = judge_tie(lines, oi, ci, om, cm)
    spec = judge_spec(lines, oi, ci)
    print("variant:", variant, votes)
    print("tie  :", tie)
    print("spec :", spec)
    return 1 if (tie or spec) else 0
