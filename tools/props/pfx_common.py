"""Common run() for C01, C02, C09: same three-way execution, different focus (which generator mix,
which disagreement classes are attributed to the property, which theorems are its obligations)."""
import json
import os
import time

import pfxlib
import vlib

FOCUS = {
    "C01": {"theorems": ["C01_state", "C01_reasons", "C01_spec_is_rfc6811", "C01_no_ub", "C01_bits_compare", "C01_bit_select", "C01_bits_compare6", "C01_bit_select6",
                         "C01_addr_equal", "C01_is_left_child", "C01_covers"],
            "mine": ("validation", "VALID", "INVALID", "NOT_FOUND", "CRASH", "UB")},
    "C02": {"theorems": ["C02_history", "C02_no_change", "C02_distinct"],
            "mine": ("result code", "contents", "enumerated")},
    "C09": {"theorems": ["C09_history", "C09_free", "C09_reload", "C09_cache_driven"],
            "mine": ("callback", "replay", "diff")},
}


def histories(pid, tier, rnd):
    n = {"quick": 400, "thorough": 20000}[tier]
    hs = []
    for k in range(n):
        if pid == "C09":
            h = pfxlib.gen_reload_history(rnd) if k % 2 == 0 else pfxlib.gen_history(rnd, nops=rnd.randint(10, 60), nq=4)
        elif pid == "C02":
            h = pfxlib.gen_history(rnd, nops=rnd.randint(20, 120), nsrc=rnd.randint(1, 4), nq=6)
        else:
            h = pfxlib.gen_history(rnd, nops=rnd.randint(10, 50), nq=40)
        hs.append(h)
    # a few long histories over a larger key pool (deep / wide tries, many pull-ups)
    for k in range({"quick": 6, "thorough": 200}[tier]):
        hs.append(pfxlib.gen_history(rnd, nops=rnd.randint(200, 500), nsrc=4, nq=60))
    if pid in ("C02", "C09"):
        # "arbitrary records": also records with address bits behind their length (contents / codes / callbacks only, no validation)
        for k in range({"quick": 60, "thorough": 2000}[tier]):
            hs.insert(3 * k + 1, pfxlib.gen_hostbits_history(rnd, nops=rnd.randint(8, 60), nsrc=rnd.randint(1, 3)))
    ndeep = {"quick": 2, "thorough": 12}[tier]
    if pid in ("C01", "C02"):
        for k in range(ndeep):
            hs.append(pfxlib.gen_history(rnd, deep=True, fam="46"[k % 2], nq=300 if pid == "C01" else 20))
    return hs


def corpus(pid):
    d = os.path.join(vlib.VERIF, "corpus", pid)
    res = []
    if os.path.isdir(d):
        for f in sorted(os.listdir(d)):
            if f.endswith(".txt"):
                res.append([l.rstrip("\n") for l in open(os.path.join(d, f)) if l.strip() and not l.startswith("#")])
    return res


def fails(lines):
    o = pfxlib.check_script(lines)
    return bool(o.tie_fail or o.spec_fail)


def run(chk):
    pid = chk.pid
    foc = FOCUS[pid]
    rnd = vlib.rng({"C01": 101, "C02": 102, "C09": 109}[pid])
    pr = vlib.check_proofs(pid, foc["theorems"])
    chk.proof = pr
    hs = corpus(pid) + histories(pid, chk.tier, rnd)
    t0 = time.time()
    budget = {"quick": 150, "thorough": 3000}[chk.tier]
    shapes = {"adds": 0, "dels": 0, "srcdels": 0, "vals": 0, "reload": 0, "has_len0": 0}
    distinct = set()
    nontrivial = 0
    drift = 0
    nrun = 0
    first_bad = None
    for h in hs:
        if time.time() - t0 > budget:
            chk.notes.append("time budget reached after %d histories" % nrun)
            break
        o = pfxlib.check_script(h)
        nrun += 1
        sh = pfxlib.classify_shape(h)
        for k in shapes:
            shapes[k] += int(sh[k])
        key = hash("\n".join(h))
        if key not in distinct:
            distinct.add(key)
            if sh["distinct_lengths"] >= 3 and sh["dels"] + sh["srcdels"] >= 1:
                nontrivial += 1
        drift += o.drift
        if (o.tie_fail or o.spec_fail) and first_bad is None:
            first_bad = (h, o)
            break
    chk.cov.update({
        "evaluations": nrun, "distinct_nontrivial": nontrivial,
        "rule": "one evaluation = one operation history run on Impl (pfx_ops.c on /repo, asserts+ASan+UBSan), on the extracted Model and on "
                "the extracted Spec; non-trivial = distinct script whose table has >= 3 distinct prefix lengths and at least one removal",
        "samples": [hs[0][:12]] + ([hs[-1][:6]] if len(hs) > 1 else []),
        "input_distribution": dict(shapes, histories=nrun, total_ops=sum(len(h) for h in hs[:nrun])),
        "shape_drift_lines": drift,
        "tie": "(b) ordered, exact comparison Impl vs extracted Model per operation; (a) lrtr_get_bits translated (hz_zero_code)",
        "oracle": "extracted Spec (sets + RFC 6811 + callback replay) vs Impl, canonicalised",
    })
    chk.assumptions += ["records given to the table have zero host bits and length <= width (the property's quantifier)",
                        "sources are compared as pointers; the harness uses distinct fake pointers"]
    if first_bad is not None:
        h, o = first_bad
        small = pfxlib.ddmin(h, fails, budget=80)
        o2 = pfxlib.check_script(small)
        if not (o2.tie_fail or o2.spec_fail):
            small, o2 = h, o
        what = o2.spec_fail or o2.tie_fail
        kind = "impl-vs-spec" if o2.spec_fail else "impl-vs-model (tie)"
        idx = what[0]
        chk.violation({"kind": kind, "script": small, "failing_op_index": idx,
                       "failing_op": small[idx] if idx < len(small) else None,
                       "what": what[1] if o2.spec_fail else "Impl and Model answer differently",
                       "impl": what[2] if o2.spec_fail else what[1], "expected": what[3] if o2.spec_fail else what[2],
                       "proof": pr.broken,
                       "replay_cmd": "python3 tools/check.py %s --replay <this file>" % pid},
                      key="%s:%s" % (kind, (small[idx].split() + ["?"])[0] if idx < len(small) else "?"))
    elif not pr.ok:
        chk.proof_broken(pr, "%d histories on Impl/Model/Spec: no disagreement" % nrun)


def replay(path):
    o = json.load(open(path))
    script = o.get("script")
    if not script:
        print("replay file names no input:", json.dumps(o.get("broken")))
        return 1
    r = pfxlib.check_script(script)
    print("script (%d ops):" % len(script))
    for l in script:
        print("  ", l)
    print("tie_fail:", r.tie_fail)
    print("spec_fail:", r.spec_fail)
    return 1 if (r.tie_fail or r.spec_fail) else 0
