"""C08: the fault enumeration (call site x fault kind) and how one fault is injected into a conversation that is
grown with the model in the loop (props/C07_lib.Conv)."""
import struct

import rtrsim as R
from props import C07_lib as L

PDU_KINDS = {"cr": R.CACHE_RESPONSE, "v4": R.IPV4_PREFIX, "v6": R.IPV6_PREFIX, "key": R.ROUTER_KEY, "eod": R.EOD}
TRANSPORT = ["err", "timeout", "close", "stop", "intr"]
MALFORMED = ["len_small", "len_big", "len_type", "type", "version", "flags", "plen"]
ERROR_CODES = [0, 1, 2, 3, 4, 5, 6, 7, 8, 99]
WHOLE = ["spurious_reset", "session_change", "eod_session", "cr_session", "dup_announce", "unknown_withdraw", "announce_withdraw_same",
         "notify_inside", "eod_v0_in_v1", "unexpected:serial_query", "unexpected:reset_query", "unexpected:cache_response",
         "garbage", "err_unsupported_downgrade"] + ["error:%d" % c for c in ERROR_CODES]
ESTABLISHED = ["err", "close", "intr", "stop", "junk:cache_reset", "junk:prefix", "junk:unknown_type", "junk:eod", "junk:cache_response",
               "error:2", "error:0", "garbage", "late_payload"]
SENDS = ["e1", "partial:3", "partial:7"]


def all_faults():
    """Every (call site x fault kind) of the enumeration, as dicts {site, kind}."""
    fs = []
    for n in (1, 2, 3):
        fs.append({"site": ("open",), "kind": "fail*%d" % n})
    for q in ("reset", "serial"):
        for k in SENDS:
            fs.append({"site": ("send", q), "kind": k})
    for ex in ("full", "delta"):
        for pdu in ("cr", "v4", "v6", "key", "eod"):
            for part in (("header",) if pdu == "cr" else ("header", "payload")):
                for k in TRANSPORT:
                    fs.append({"site": ("recv", ex, pdu, part), "kind": k})
            for m in MALFORMED:
                if m in ("flags", "plen") and pdu in ("cr", "eod"):
                    continue
                if m == "plen" and pdu == "key":
                    continue
                fs.append({"site": ("recv", ex, pdu, "pdu"), "kind": "mal:" + m})
        for k in WHOLE:
            fs.append({"site": ("answer", ex), "kind": k})
    for k in ESTABLISHED:
        fs.append({"site": ("established",), "kind": k})
    return fs


def core_faults():
    """One representative per (site class x kind class): the set whose pairs are enumerated exhaustively."""
    out = []
    seen = set()
    for f in all_faults():
        s = f["site"]
        if s[0] == "recv":
            cls = (s[0], s[1], "cr" if s[2] == "cr" else "eod" if s[2] == "eod" else "payload-pdu", s[3],
                   f["kind"] if not f["kind"].startswith("mal:") else f["kind"])
            if s[2] in ("v6", "key") or (f["kind"].startswith("mal:") and f["kind"][4:] in ("len_big", "len_type") and s[2] != "eod"):
                continue
        elif f["kind"].startswith("error:") and f["kind"] not in ("error:2", "error:4", "error:0"):
            continue
        else:
            cls = (s, f["kind"])
        if cls in seen:
            continue
        seen.add(cls)
        out.append(f)
    return out


def fname(f):
    return "/".join(str(x) for x in f["site"]) + ":" + f["kind"]


# ---------------------------------------------------------------------------
# cache with every kind of record, so that full and delta answers contain every PDU kind
# ---------------------------------------------------------------------------
def seed_cache(conv):
    c = conv.cache
    pool = c.pool
    p4 = [x for x in pool if x[0] == "p" and x[1][0] == "4"]
    p6 = [x for x in pool if x[0] == "p" and x[1][0] == "6"]
    ks = [x for x in pool if x[0] == "k"]
    rnd = conv.rnd
    while len(p4) < 3:
        bits = "".join(rnd.choice("01") for _ in range(16)) + "0" * 16
        x = ("p", ("4", bits, 16, rnd.choice([16, 24]), rnd.choice([1, 65000])))
        if x not in pool:
            pool.append(x)
            p4.append(x)
    while len(p6) < 3:
        bits = "".join(rnd.choice("01") for _ in range(32)) + "0" * 96
        x = ("p", ("6", bits, 32, rnd.choice([32, 48]), rnd.choice([1, 65000])))
        if x not in pool:
            pool.append(x)
            p6.append(x)
    c.data = [p4[0], p6[0], ks[0], p4[1]]
    c.history = {c.serial: list(c.data)}
    conv.kinds = {"p4": p4, "p6": p6, "k": ks}


def rich_mutate(conv):
    """Change the data set so that the delta withdraws and announces a record of every kind."""
    c = conv.cache
    c.history[c.serial] = list(c.data)
    for kind in ("p4", "p6", "k"):
        items = conv.kinds[kind]
        present = [x for x in items if x in c.data]
        absent = [x for x in items if x not in c.data]
        if present and absent:
            c.data.remove(present[0])
            c.data.append(absent[0])
        elif absent:
            c.data.append(absent[0])
        elif len(present) > 1:
            c.data.remove(present[0])
    c.serial = (c.serial + 1) & 0xffffffff
    c.history[c.serial] = list(c.data)


def find_pdu(pdus, kind, prefer_withdraw=False):
    typ = PDU_KINDS[kind]
    idx = [i for i, p in enumerate(pdus) if p[1] == typ]
    if not idx:
        return None
    return idx[0]


# ---------------------------------------------------------------------------
# inject one fault; returns True when the fault was placed (the client was at the fault's site)
# ---------------------------------------------------------------------------
def sends_used(conv):
    return sum(1 for l in conv._trace if l.startswith("SEND") or l.startswith("SENDFAIL"))


def goto(conv, where, rounds=8):
    """Drive the client with truthful exchanges until it is at `where`:
       'full' (SYNC, Reset Query pending), 'delta' (SYNC, Serial Query pending, non-empty delta), 'established'."""
    for _ in range(rounds):
        state, q, end = conv.position()
        if end is None or "recv" not in end:
            return False
        if where == "established":
            if state == 1:
                return True
            if state == 3 and q is not None:
                conv.answer()
            else:
                conv.wait(61)
            continue
        if state == 3 and q is not None:
            if q["ver"] in (0, 1) and q["ver"] < conv.cache.ver:
                conv.cache.ver = q["ver"]
            if where == "full" and q["type"] == R.RESET_QUERY:
                return True
            if where == "delta" and q["type"] == R.SERIAL_QUERY and q["field"] == conv.cache.session and q.get("sn") in conv.cache.history \
                    and conv.cache.history[q["sn"]] != conv.cache.data:
                return True
            conv.answer()
            continue
        if state == 1:
            if where == "full":
                conv.cache.new_session()          # the cache restarted: the Serial Query will be answered by Cache Reset
                conv.notify_after(0)
            else:
                rich_mutate(conv)
                conv.notify_after(conv.rnd.choice([0, 1, 5]))
            continue
        conv.wait(61)
    return False


def transport_event(conv, kind):
    if kind == "err":
        conv.s.err(1)
    elif kind == "close":
        conv.s.err(4)
    elif kind == "intr":
        conv.s.err(3)
    elif kind == "timeout":
        conv.s.wait(61)
    elif kind == "stop":
        conv.s.stop()


def inject(conv, f):
    site, kind = f["site"], f["kind"]
    rnd = conv.rnd
    c = conv.cache
    if site[0] == "open":
        n = int(kind.split("*")[1])
        state, q, end = conv.position()
        if state == 1:
            # make the client reconnect: the connection drops while established
            conv.s.err(4)
        elif state == 3:
            conv.s.err(1)
        conv.fail_opens(n)
        conv.steps.append("fault " + fname(f))
        return True
    if site[0] == "send":
        # the next query of the wanted kind is not (completely) accepted by the transport
        want = "established" if site[1] == "serial" else "established"
        if not goto(conv, "established"):
            return False
        if site[1] == "reset":
            c.new_session()
        else:
            rich_mutate(conv)
        conv.model_trace()
        u = sends_used(conv)
        while len(conv.s.sends) < u:
            conv.s.sends.append(1000000)
        if site[1] == "reset":
            # serial query goes through, Cache Reset comes back, the Reset Query is hit
            conv.s.sends.append(1000000)
        conv.s.sends.append("e1" if kind == "e1" else int(kind.split(":")[1]))
        conv.notify_after(0)
        if site[1] == "reset":
            ok, q = conv.need("sync")
            if not ok:
                return False
            conv.deliver(R.cache_reset(c.ver))
            conv.reacted()
        conv.steps.append("fault " + fname(f))
        return True
    if site[0] == "established":
        if not goto(conv, "established"):
            return False
        mark = conv.mark()
        if kind in TRANSPORT:
            transport_event(conv, kind)
        elif kind == "junk:cache_reset":
            conv.deliver(R.cache_reset(c.ver))
        elif kind == "junk:prefix":
            conv.deliver(R.prefix_pdu(c.ver, conv.kinds["p4"][2][1], 1))
        elif kind == "junk:unknown_type":
            conv.deliver(R.hdr(c.ver, 77, 0, 8))
        elif kind == "junk:eod":
            conv.deliver(R.eod(c.ver, c.session, c.serial, *c.ivals))
        elif kind == "junk:cache_response":
            conv.deliver(R.cache_response(c.ver, c.session))
        elif kind.startswith("error:"):
            conv.deliver(R.error_pdu(c.ver, int(kind.split(":")[1]), b"", b"oops"))
        elif kind == "garbage":
            conv.deliver(bytes(rnd.randint(0, 255) for _ in range(rnd.randint(1, 40))))
        elif kind == "late_payload":
            # the header of a stray PDU arrives before the refresh deadline, its payload after it: the client re-enters
            # its wait when the time until the next poll is already negative
            b = R.prefix_pdu(c.ver, conv.kinds["p4"][2][1], 1)
            conv.wait(max(0, conv.s.cfg[0] - 1))       # just before the refresh deadline
            conv.s.data(b[:8])
            conv.wait(30)                              # within the receive timeout, past the deadline
            conv.s.data(b[8:])
            conv.wait(1)                               # the zero-time re-entry of the wait ends here: the client polls
        conv.drop_in_flight(mark)
        conv.steps.append("fault " + fname(f))
        return True
    ex = site[1]
    if not goto(conv, ex):
        return False
    ok, q = conv.need("sync")
    if not ok:
        return False
    pdus = c.answer(q)
    conv.reacted()
    mark = conv.mark()
    if site[0] == "recv":
        i = find_pdu(pdus, site[2])
        if i is None:
            return False
        before = b"".join(pdus[:i])
        p = pdus[i]
        if site[3] == "header":
            conv.deliver(before + p[:rnd.randint(0, 7)])
            transport_event(conv, kind)
        elif site[3] == "payload":
            conv.deliver(before + p[:rnd.randint(8, len(p) - 1)])
            transport_event(conv, kind)
        else:
            # the cache sends the broken PDU and nothing more (what it would have sent afterwards dies with the connection)
            conv.deliver(before + L.malform(rnd, p, kind[4:]))
            conv.drop_in_flight(mark)
        conv.steps.append("fault " + fname(f))
        return True
    # whole-answer faults
    b = b"".join(pdus)
    if kind == "spurious_reset":
        conv.deliver(R.cache_reset(c.ver))
    elif kind == "session_change":
        c.new_session()
        conv.deliver(b"".join(c.answer(q)))
    elif kind == "eod_session":
        conv.deliver(b"".join(pdus[:-1]) + R.eod(c.ver, (c.session + 1) & 0xffff, c.serial, *c.ivals))
    elif kind == "cr_session":
        conv.deliver(R.cache_response(c.ver, (c.session + 7) & 0xffff))
    elif kind == "dup_announce":
        items = [x for x in pdus[1:-1] if x[2 if x[1] == 9 else 8] == 1] or [c.item_pdu(conv.kinds["p4"][0], 1)]
        y = items[0]
        conv.deliver(b"".join(pdus[:-1]) + y + y + pdus[-1])
    elif kind == "unknown_withdraw":
        absent = [x for x in conv.kinds["p4"] + conv.kinds["p6"] if x not in c.data]
        y = c.item_pdu(absent[0] if absent else conv.kinds["p4"][0], 0)
        conv.deliver(b"".join(pdus[:-1]) + y + y + pdus[-1])
    elif kind == "announce_withdraw_same":
        x = conv.kinds["p4"][2]
        conv.deliver(b"".join(pdus[:-1]) + c.item_pdu(x, 1) + c.item_pdu(x, 0) + c.item_pdu(x, 1) + c.item_pdu(x, 1) + pdus[-1])
    elif kind == "notify_inside":
        conv.deliver(pdus[0] + R.serial_notify(c.ver, c.session, c.serial) + b"".join(pdus[1:]))   # legal: not a fault for the client
    elif kind == "eod_v0_in_v1":
        conv.deliver(b"".join(pdus[:-1]) + R.eod(1 - c.ver, c.session, c.serial, *c.ivals))
    elif kind.startswith("unexpected:"):
        u = {"serial_query": R.hdr(c.ver, R.SERIAL_QUERY, 1, 12) + b"\0\0\0\1", "reset_query": R.hdr(c.ver, R.RESET_QUERY, 0, 8),
             "cache_response": R.cache_response(c.ver, c.session)}[kind.split(":")[1]]
        j = rnd.randint(0, len(pdus) - 1)
        conv.deliver(b"".join(pdus[:j]) + u)
    elif kind == "garbage":
        conv.deliver(bytes(rnd.randint(0, 255) for _ in range(rnd.randint(1, 60))))
    elif kind == "err_unsupported_downgrade":
        conv.deliver(R.error_pdu(0, 4, q["raw"], b""))
        if c.ver == 1:
            c.ver = 0                             # the cache only speaks version 0 from now on
    elif kind.startswith("error:"):
        conv.deliver(R.error_pdu(c.ver, int(kind.split(":")[1]), rnd.choice([b"", q["raw"]]), rnd.choice([b"", b"x" * 20])))
    else:
        conv.deliver(b)
    conv.drop_in_flight(mark)
    conv.steps.append("fault " + fname(f))
    return True


def settle(conv, good=3, rounds=14):
    """The cache is correct and quiet from here on: answer every query truthfully, let refresh timers fire,
    until `good` exchanges were answered and the client is ESTABLISHED."""
    answered = 0
    for _ in range(rounds):
        state, q, end = conv.position()
        if end is None or "recv" not in end:
            break
        if state == 3 and q is not None:
            conv.answer()
            answered += 1
        elif state == 1:
            if answered >= good:
                break
            conv.refresh(extra=1)
        else:
            conv.wait(61)
    return answered
