"""C03 - a cache response is applied completely or not at all.

Decided by: Coq theorems (Props/Properties_C03.v) about the executable model Rtr/RtrModel.v: End of Data applies the
whole buffered response or undoes the applied prefix most-recent-first (set-level lemma undo . apply = id on
duplicate-free tables), for every PDU list, every position of the offending PDU in any of the three groups, every
table; lifted through the receive loop (a response that fails before End of Data touches nothing) and rtr_sync;
records of other caches exactly preserved; the duplicate-freedom invariant kept by the whole state machine.
Tie, checked on every run: the REAL state machine of /repo (harness/rtr_run.c) and the extracted model produce the
same trace on scripts with one defect at every payload position (incremental and reload mode, colliding foreign
records and router keys) and on cache conversations with the model in the loop.
Failing-input search: tools/props/C03_trace.py reads only Impl's trace and the script: it replays the callbacks into a
python set, parses what the cache delivered with its own parser and decides each clause with set arithmetic."""
import vlib

from props import C03_gen

THEOREMS = ["C03_success", "C03_success_iff", "C03_failure", "C03_failure_restores", "C03_undo_apply", "C03_undo_apply_keys",
            "C03_purge_fallback", "C03_eod_atomic", "C03_others", "C03_before_eod", "C03_resetting_cleared", "C03_sync",
            "C03_tables_stay_sets", "C03_prefix_record_translated", "C03_update_pfx_translated", "C03_update_spki_translated",
            "C03_undo_pfx_translated", "C03_undo_spki_translated"]

FAULTS = ["dup_announce", "unknown_withdraw", "announce_withdraw_same", "bad_flags", "eod_session", "trunc_err", "trunc_close",
          "timeout", "stop", "prefix_len_big", "dup_announce", "announce_withdraw_same", "cr_session", "spurious_reset",
          "unexpected_pdu", "notify_inside"]


def scripts_for(tier, rnd):
    out = C03_gen.corpus_scripts("C03")
    nbase = 2 if tier == "quick" else 12
    for _ in range(nbase):
        out += C03_gen.position_scripts(rnd, reload_mode=False)
        out += C03_gen.position_scripts(rnd, reload_mode=True)
    out += C03_gen.conversations(rnd, 140 if tier == "quick" else 1500, FAULTS)
    return out


def run(chk):
    rnd = vlib.rng(3)
    C03_gen.warm_up()
    scripts = scripts_for(chk.tier, rnd)
    C03_gen.run_check(chk, "C03", THEOREMS, scripts,
                      "every-position defect scripts (incremental + reload) and cache conversations")
    chk.assumptions += [
        "tables are sets (duplicate-free lists): justified for the C tables by C02 / C10; the invariant itself is proved (C03_tables_stay_sets)",
        "no allocation failure inside an update or its undo (C18's subject): hence the undo never fails and the purge fallback "
        "(C03_purge_fallback) is unreachable in the model",
        "one RTR socket per model instance; records of other sockets are pre-populated and never written concurrently (C16/C06)",
    ]
    chk.trusted += [
        "hand-written Rtr/RtrModel.v (process_eod / store_loop / rtr_sync after packets.c), tied by trace equality on this run",
        "the oracle tools/props/C03_trace.py and its PDU parser; End-of-Data intervals pinned to the configured ones in generated scripts",
    ]


def replay(path):
    return C03_gen.replay_file(path, "C03")
