"""C15 - cache-group failover honours the preference order.

Decided by: Coq theorems (Props/Properties_C15.v) over the executable model Mgr/MgrModel.v of
rtrlib/rtr_mgr.c, proved by induction over arbitrary operation lists for any number of groups and
sockets.  Tie (checked on every run): the extracted model and the REAL rtr_mgr.c (harness/
mgr_events.c; only rtr_start/rtr_stop are link-time stubs that perform the writes of the originals)
run the same scripts; every output line (status callbacks with the group's sockets at that moment,
start/stop records with the group on whose behalf, result codes, the configuration as presented by
rtr_mgr_for_each_group after every operation) must be identical.  Failing-input search: python
predicates for every clause of the property, independent of the model, evaluated on Impl's trace.

The model has two switchable repairs (MgrModel.variant).  The run determines which variant /repo
corresponds to (the shipped one is tried first); the theorems quantified over the variant apply to
whichever matches, `C15_full_when_repaired` applies when both repairs are present."""
import hashlib
import itertools
import json
import os
import re
import shutil
import subprocess
import time

import vlib

THEOREMS = ["C15_init", "C15_init_rejects_when_repaired", "C15_init_rejects_refuted", "C15_add", "C15_remove_last",
            "C15_sorted", "C15_established_only_if_synced", "C15_established_running_when_repaired",
            "C15_established_running_refuted", "C15_closes_less_preferred", "C15_never_upward", "C15_failover",
            "C15_no_failover_while_established", "C15_defined", "C15_full_when_repaired", "C15_refuted",
            "C15_mgr_cb_translated", "C15_mgr_cb_translated_current"]

FSM_STATES = ["CONNECTING", "ESTABLISHED", "RESET", "SYNC", "FAST_RECONNECT", "ERROR_NO_DATA_AVAIL",
              "ERROR_NO_INCR_UPDATE_AVAIL", "ERROR_FATAL", "ERROR_TRANSPORT"]
ERROR_STATES = ("ERROR_FATAL", "ERROR_TRANSPORT", "ERROR_NO_DATA_AVAIL")
SYNC_STATES = ("ESTABLISHED", "RESET", "SYNC")
KEEP = re.compile(r"^(> |status |start |stop |rc |cfg |ignored$|undef$|noconfig$|bad-op$|config_out)")
CORPUS = os.path.join(vlib.VERIF, "corpus", "C15")
VARIANTS = [("shipped", (0, 0)), ("fixed", (1, 1)), ("init-only", (1, 0)), ("shutdown-only", (0, 1))]


# ----------------------------------------------------------------------------- builds
def build_impl():
    return vlib.build_harness("mgr_events", os.path.join(vlib.VERIF, "harness", "mgr_events.c"),
                              wraps=("rtr_start", "rtr_stop", "lrtr_dbg"), san="asan")


def build_model():
    """Extract Mgr/MgrModel.v and compile the driver; cached by content hash under /verif/build."""
    ml, mli = os.path.join(vlib.COQ, "c15_model.ml"), os.path.join(vlib.COQ, "c15_model.mli")
    ok, out = vlib.coq_make(["theories/Extract/Extract_C15.vo"], timeout=900)
    if ok and not (os.path.exists(ml) and os.path.exists(mli)):
        for ext in (".vo", ".vos", ".vok", ".glob"):
            try:
                os.remove(os.path.join(vlib.THEORIES, "Extract", "Extract_C15" + ext))
            except OSError:
                pass
        ok, out = vlib.coq_make(["theories/Extract/Extract_C15.vo"], timeout=900)
    if not ok or not os.path.exists(ml):
        raise vlib.BuildError("extraction of the C15 model failed:\n" + out[-3000:])
    drv = os.path.join(vlib.VERIF, "ocaml", "c15_driver.ml")
    key = vlib._sha(open(ml, "rb").read(), open(mli, "rb").read(), open(drv, "rb").read())
    odir = os.path.join(vlib.BUILD, "ocaml_c15")
    exe = os.path.join(vlib.BUILD, "bin", "c15_model")
    stamp = os.path.join(odir, "stamp")
    if os.path.exists(exe) and os.path.exists(stamp) and open(stamp).read() == key:
        return exe
    os.makedirs(odir, exist_ok=True)
    os.makedirs(os.path.join(vlib.BUILD, "bin"), exist_ok=True)
    for f in (ml, mli, drv):
        shutil.copy(f, odir)
    rc, out = vlib.sh(["ocamlfind", "ocamlopt", "-O3", "-w", "-a", "-o", exe, "c15_model.mli", "c15_model.ml",
                       "c15_driver.ml"], cwd=odir, timeout=600)
    if rc != 0:
        rc, out = vlib.sh(["ocamlfind", "ocamlopt", "-w", "-a", "-o", exe, "c15_model.mli", "c15_model.ml",
                           "c15_driver.ml"], cwd=odir, timeout=600)
    if rc != 0:
        raise vlib.BuildError("ocaml build of the C15 model failed:\n" + out[-3000:])
    with open(stamp, "w") as f:
        f.write(key)
    return exe


# the stubs in harness/mgr_events.c restate these functions of rtr/rtr.c and rtr/packets.c; when their
# text changes the stubs must be re-read against it (normalised text: comments, debug lines, blanks removed)
STUB_SOURCES = {
    ("rtrlib/rtr/rtr.c", "rtr_start"):
        "{if(rtr_socket->thread_id)returnRTR_ERROR;intrtval=pthread_create(&(rtr_socket->thread_id),NULL,(void*(*)(void*))"
        "&rtr_fsm_start,rtr_socket);if(rtval==0)returnRTR_SUCCESS;returnRTR_ERROR;}",
    ("rtrlib/rtr/rtr.c", "rtr_stop"):
        "{rtr_change_socket_state(rtr_socket,RTR_SHUTDOWN);if(rtr_socket->thread_id!=0){pthread_cancel(rtr_socket->thread_id);"
        "pthread_join(rtr_socket->thread_id,NULL);tr_close(rtr_socket->tr_socket);rtr_socket->request_session_id=true;"
        "rtr_socket->serial_number=0;rtr_socket->last_update=0;pfx_table_src_remove(rtr_socket->pfx_table,rtr_socket);"
        "spki_table_src_remove(rtr_socket->spki_table,rtr_socket);rtr_socket->thread_id=0;rtr_socket->state=RTR_CLOSED;}}",
    ("rtrlib/rtr/packets.c", "rtr_change_socket_state"):
        "{if(rtr_socket->state==new_state)return;if(rtr_socket->state==RTR_SHUTDOWN)return;rtr_socket->state=new_state;"
        "if(new_state==RTR_SHUTDOWN)if(rtr_socket->connection_state_fp)rtr_socket->connection_state_fp(rtr_socket,new_state,"
        "rtr_socket->connection_state_fp_param_config,rtr_socket->connection_state_fp_param_group);}",
}
FSM_PROLOGUE = "{if(rtr_socket->state==RTR_SHUTDOWN)returnNULL;intoldcancelstate;pthread_setcancelstate(PTHREAD_CANCEL_DISABLE,&oldcancelstate);rtr_socket->state=RTR_CONNECTING;while(1){"


def _fn_body(path, name):
    txt = open(os.path.join(vlib.REPO, path)).read()
    txt = re.sub(r"/\*.*?\*/", "", txt, flags=re.S)
    txt = re.sub(r"//[^\n]*", "", txt)
    m = re.search(r"^[A-Za-z_][^\n;{}]*\b%s\s*\([^;{}]*\)\s*\{" % re.escape(name), txt, re.M)
    if not m:
        return None
    i = m.end() - 1
    depth, j = 0, i
    while j < len(txt):
        if txt[j] == "{":
            depth += 1
        elif txt[j] == "}":
            depth -= 1
            if depth == 0:
                break
        j += 1
    body = txt[i:j + 1]
    body = re.sub(r"\b(RTR_DBG1?|MGR_DBG1?)\s*\((?:[^()]|\([^()]*\))*\)\s*;", "", body)
    return re.sub(r"\s+", "", body)


def stub_drift():
    """List of functions whose text no longer matches what the stubs were written against."""
    bad = []
    for (path, name), want in STUB_SOURCES.items():
        got = _fn_body(path, name)
        if got != want:
            bad.append({"function": name, "file": path, "expected": want, "found": got})
    got = _fn_body("rtrlib/rtr/rtr.c", "rtr_fsm_start")
    if not got or not got.startswith(FSM_PROLOGUE):
        bad.append({"function": "rtr_fsm_start (prologue)", "file": "rtrlib/rtr/rtr.c", "expected": FSM_PROLOGUE,
                    "found": (got or "")[:len(FSM_PROLOGUE) + 40]})
    return bad


def stub_conformance():
    """Run one fixed rtr_start/rtr_stop sequence through the REAL functions (real thread, dummy transport
    that cannot be opened) and through the link-time stubs; both must observe the same states, thread
    flags, last_update flags, result codes and callbacks.  Returns None or a description of the mismatch."""
    exe = vlib.build_harness("mgr_stubcheck", os.path.join(vlib.VERIF, "harness", "mgr_events.c"), san="asan",
                             extra=("-DC15_STUBCHECK",))
    try:
        rc, so, se = _run([exe], "", env=vlib.san_env(), timeout=120)
    except subprocess.TimeoutExpired:
        return {"what": "stub conformance run timed out"}
    lines = [l for l in so.split("\n") if l.strip()]
    if rc != 0 or "real:" not in lines or "stub:" not in lines:
        return {"what": "stub conformance run failed", "exit": rc, "stdout": so[-1500:], "stderr": se[-1500:]}
    i, j = lines.index("real:"), lines.index("stub:")
    real, stub = lines[i + 1:j], lines[j + 1:]
    if real != stub or len(real) < 10:
        return {"what": "the stubs for rtr_start/rtr_stop do not behave like rtr/rtr.c", "real": real, "stub": stub}
    return None


# ----------------------------------------------------------------------------- running scripts
class Block:
    __slots__ = ("op", "lines")

    def __init__(self, op):
        self.op = op
        self.lines = []


def _run(cmd, text, env=None, timeout=3600):
    p = subprocess.run(cmd, input=text, stdout=subprocess.PIPE, stderr=subprocess.PIPE, universal_newlines=True,
                       errors="replace", env=env, timeout=timeout)
    return p.returncode, p.stdout, p.stderr


def _split(stdout):
    """{script id: [Block]} from a batch output."""
    res, cur, blocks = {}, None, None
    for ln in stdout.split("\n"):
        if not KEEP.match(ln):
            continue
        if ln.startswith("> "):
            op = ln[2:]
            if op.startswith("begin "):
                cur = op.split()[1]
                blocks = res.setdefault(cur, [])
                continue
            if blocks is not None:
                blocks.append(Block(op))
        elif blocks:
            blocks[-1].lines.append(ln)
    return res


def script_text(sid, ops):
    return "begin %s\n%s\n" % (sid, "\n".join(ops))


def run_impl(exe, scripts, symbolize=False):
    """scripts: list of (id, [op lines]).  Returns {id: ([Block], crash|None)}; a crash (sanitizer report,
    signal) ends one script, the others are still run."""
    out = {}
    todo = list(scripts)
    env = vlib.san_env()
    if not symbolize:
        env["ASAN_OPTIONS"] += ":symbolize=0"
        env["UBSAN_OPTIONS"] += ":symbolize=0"
    while todo:
        text = "".join(script_text(s, ops) for s, ops in todo)
        rc, so, se = _run([exe], text, env=env)
        got = _split(so)
        if rc == 0:
            for s, ops in todo:
                out[s] = (got.get(str(s), []), None)
            break
        # the process died inside the last script that printed something
        done = 0
        for i, (s, ops) in enumerate(todo):
            if str(s) in got:
                done = i
        for s, ops in todo[:done]:
            out[s] = (got.get(str(s), []), None)
        s, ops = todo[done]
        sel = [l.strip() for l in se.split("\n") if "ERROR:" in l or "runtime error" in l or "rtrlib/" in l or "SUMMARY" in l]
        kind = "sanitizer" if "Sanitizer" in se or "runtime error" in se else "exit code %d" % rc
        out[s] = (got.get(str(s), []), {"kind": kind, "exit": rc, "stderr": "\n".join(sel[:12])[:2500] or se[:1500]})
        todo = todo[done + 1:]
    return out


def run_model(exe, scripts, variant="current"):
    text = "".join(script_text(s, ops) for s, ops in scripts)
    rc, so, se = _run([exe, variant], text)
    if rc != 0:
        raise vlib.BuildError("the extracted model terminated abnormally: " + se[-800:])
    got = _split(so)
    return {s: got.get(str(s), []) for s, ops in scripts}


# ----------------------------------------------------------------------------- parsing a trace
def parse_cfg(line):
    """'cfg len=2 1:CLOSED[CLOSED/0/0] 2:...' -> (len, [ {pref,status,socks:[(state,lu,th)]} ]) ; 'cfg none' -> None"""
    if line == "cfg none":
        return None
    parts = line.split()
    n = int(parts[1].split("=")[1])
    groups = []
    for tok in parts[2:]:
        m = re.match(r"^(\d+):([A-Z]+)\[(.*)\]$", tok)
        socks = []
        if m.group(3):
            for s in m.group(3).split(","):
                st, lu, th = s.split("/")
                socks.append((st, int(lu), int(th)))
        groups.append({"pref": int(m.group(1)), "status": m.group(2), "socks": socks})
    return (n, groups)


def parse_status(line):
    m = re.match(r"^status (\d+) ([A-Z]+) by=(\S+) socks=(.*)$", line)
    socks = []
    if m.group(4):
        for s in m.group(4).split(","):
            st, lu, th = s.split("/")
            socks.append((st, int(lu), int(th)))
    return {"pref": int(m.group(1)), "status": m.group(2), "by": m.group(3), "socks": socks}


def visible(ops):
    """Ops that are echoed: everything except what lies between `mute` and `unmute`."""
    out, m = [], False
    for o in ops:
        if o == "unmute":
            m = False
        if not m:
            out.append(o)
        if o == "mute":
            m = True
    return out


# ----------------------------------------------------------------------------- the specification, clause by clause
def spec_check(ops, blocks, crash):
    """Evaluate every clause of C15 on Impl's trace of one script.  Returns a list of
    {clause, key, op_index, detail}; independent of the Coq model."""
    bad = []
    ops = visible(ops)

    def viol(clause, i, detail, key=None):
        bad.append({"clause": clause, "key": key or clause, "op_index": i, "op": ops[i] if i < len(ops) else None,
                    "detail": detail})

    prev = None   # configuration before the op: (len, groups) or None
    for i, op in enumerate(ops):
        w = op.split()
        if w[0] in ("mute", "unmute"):
            continue
        died_here = crash is not None and (i >= len(blocks) or
                                           (i == len(blocks) - 1 and not any(l.startswith("cfg ") for l in blocks[i].lines)))
        if died_here or i >= len(blocks):
            if crash:
                expect_reject = False
                if w[0] == "init":
                    specs = [tuple(int(x) for x in s.split(":")) for s in w[1:]]
                    prefs = [p for p, n in specs]
                    expect_reject = (not specs) or any(n == 0 for p, n in specs) or len(set(prefs)) != len(prefs)
                if expect_reject:
                    viol("init-rejects-with-error", i, "rtr_mgr_init crashed instead of returning an error: %s: %s"
                         % (crash["kind"], crash["stderr"][:700]), key="init-error-path-crash")
                else:
                    viol("no-crash", i, "%s: %s" % (crash["kind"], crash["stderr"][:700]), key="crash:" + w[0])
            else:
                viol("trace-incomplete", i, "no output for this op")
            return bad
        b = blocks[i]
        lines = b.lines
        if w[0] == "dump":
            prev = parse_cfg(lines[-1]) if lines else prev
            continue
        cfgl = [l for l in lines if l.startswith("cfg ")]
        cfg = parse_cfg(cfgl[-1]) if cfgl else prev
        rcs = [int(l.split()[1]) for l in lines if l.startswith("rc ")]
        stats = [parse_status(l) for l in lines if l.startswith("status ")]
        stops = [re.match(r"^stop (\d+)\.(\d+) behalf=(\S+)$", l).groups() for l in lines if l.startswith("stop ")]
        starts = [re.match(r"^start (\d+)\.(\d+) (\S+)$", l).groups() for l in lines if l.startswith("start ")]
        if "undef" in lines or any(l.startswith("config_out") for l in lines):
            viol("defined", i, "harness reported %r" % lines)
        # ---- initialisation
        if w[0] == "init":
            specs = [tuple(int(x) for x in s.split(":")) for s in w[1:]]
            prefs = [p for p, n in specs]
            reject = (not specs) or any(n == 0 for p, n in specs) or len(set(prefs)) != len(prefs)
            if reject:
                if not rcs or rcs[0] == 0 or cfg is not None:
                    viol("init-rejects", i, "invalid group list %r accepted (rc=%r)" % (specs, rcs))
            else:
                if not rcs or rcs[0] != 0 or cfg is None:
                    viol("init-accepts", i, "valid group list %r rejected (rc=%r)" % (specs, rcs))
                else:
                    got = [g["pref"] for g in cfg[1]]
                    if got != sorted(prefs) or cfg[0] != len(specs) or any(g["status"] != "CLOSED" for g in cfg[1]):
                        viol("init-sorted", i, "groups presented as %r for input %r" % (got, prefs))
            prev = cfg
            continue
        if prev is None:
            prev = cfg
            continue
        before = {g["pref"]: g for g in prev[1]}
        # ---- ascending presentation, never empty
        if cfg is not None:
            got = [g["pref"] for g in cfg[1]]
            if any(a >= b_ for a, b_ in zip(got, got[1:])):
                viol("sorted", i, "groups presented in order %r" % got)
            if cfg[0] != len(cfg[1]) or len(cfg[1]) == 0:
                viol("group-count", i, "config->len=%d, %d groups presented" % (cfg[0], len(cfg[1])))
            # ---- a group is never left ESTABLISHED with a stopped socket
            for g in cfg[1]:
                was = before.get(g["pref"])
                if was is not None and was["status"] == "ESTABLISHED" and any(th == 0 for st, lu, th in was["socks"]):
                    continue        # reported at the operation that produced it
                if g["status"] == "ESTABLISHED" and any(th == 0 for st, lu, th in g["socks"]):
                    viol("established-running", i, "group %d is ESTABLISHED with sockets %r" % (g["pref"], g["socks"]),
                         key="stale-established-after-stop" if w[0] == "stop" else "established-running:" + w[0])
        # ---- add / remove
        if w[0] == "add":
            p = int(w[1])
            if p in before:
                if not rcs or rcs[0] == 0 or cfg != prev:
                    viol("add-duplicate", i, "adding preference %d already in use: rc=%r, configuration %s"
                         % (p, rcs, "changed" if cfg != prev else "unchanged"))
            elif rcs and rcs[0] == 0:
                if [g["pref"] for g in cfg[1]] != sorted(list(before) + [p]):
                    viol("add-sorted", i, "after add %d: %r" % (p, [g["pref"] for g in cfg[1]]))
        if w[0] == "remove" and len(prev[1]) == 1:
            if not rcs or rcs[0] == 0 or cfg != prev:
                viol("remove-last", i, "removing the last group: rc=%r, configuration %s"
                     % (rcs, "changed" if cfg != prev else "unchanged"))
        # ---- never shut down on behalf of a less-preferred group
        for gp, k, behalf in stops:
            if behalf != "api" and not int(behalf) < int(gp):
                viol("never-upward", i, "socket %s.%s stopped on behalf of group %s" % (gp, k, behalf))
        # ---- newly ESTABLISHED only when every socket is synchronised
        new_est = []
        for s in stats:
            if s["status"] == "ESTABLISHED" and (s["pref"] not in before or before[s["pref"]]["status"] != "ESTABLISHED"):
                new_est.append(s)
                if not s["socks"] or any(lu == 0 or st not in SYNC_STATES for st, lu, th in s["socks"]):
                    viol("established-only-if-synced", i, "group %d reported ESTABLISHED with sockets %r" % (s["pref"], s["socks"]))
        # ---- becoming ESTABLISHED closes every less-preferred group
        for s in new_est:
            p = s["pref"]
            for g in cfg[1]:
                if g["pref"] > p and (g["status"] != "CLOSED" or any(th for st, lu, th in g["socks"])):
                    viol("closes-less-preferred", i, "group %d became ESTABLISHED, less preferred group %d is %s %r"
                         % (p, g["pref"], g["status"], g["socks"]))
            for g in prev[1]:
                if g["pref"] > p and g["status"] != "CLOSED":
                    for k in range(len(g["socks"])):
                        if (str(g["pref"]), str(k), str(p)) not in stops:
                            viol("closes-less-preferred", i, "socket %d.%d not stopped on behalf of %d" % (g["pref"], k, p))
                    if not any(t["pref"] == g["pref"] and t["status"] == "CLOSED" and t["by"] == s["by"] for t in stats):
                        viol("closes-less-preferred", i, "group %d not reported CLOSED" % g["pref"])
        # ---- failover
        if w[0] == "ev" and w[3] in ERROR_STATES:
            p, k = int(w[1]), int(w[2])
            entered = any(t["pref"] == p and t["status"] == "ERROR" and t["by"] == "%d.%d" % (p, k) for t in stats)
            if entered:
                other_est = [g["pref"] for g in prev[1] if g["pref"] != p and g["status"] == "ESTABLISHED"]
                closed = sorted(g["pref"] for g in prev[1] if g["status"] == "CLOSED" and g["pref"] != p)
                if other_est:
                    if starts:
                        viol("failover-only-without-established", i, "group(s) %r ESTABLISHED but sockets %r were started" % (other_est, starts))
                elif closed:
                    g1 = closed[0]
                    n1 = len(before[g1]["socks"])
                    after = {g["pref"]: g for g in cfg[1]}
                    for j in range(n1):
                        if (str(g1), str(j), "ok") not in starts:
                            viol("failover", i, "group %d entered ERROR, no group ESTABLISHED: socket %d.%d of the most preferred "
                                 "closed group was not started (starts: %r)" % (p, g1, j, starts))
                    if after.get(g1, {}).get("status") != "CONNECTING" or any(th == 0 for st, lu, th in after[g1]["socks"]):
                        viol("failover", i, "group %d not CONNECTING with running sockets after failover: %r" % (g1, after.get(g1)))
                    extra = [s_ for s_ in starts if int(s_[0]) != g1]
                    if extra:
                        viol("failover", i, "sockets of other groups started: %r" % extra)
        prev = cfg
    if crash and len(blocks) >= len(ops):
        viol("no-crash", len(ops) - 1, "%s after the last op: %s" % (crash["kind"], crash["stderr"][:700]), key="crash:end")
    return bad


def tie_diff(ops, impl_blocks, crash, model_blocks):
    """First difference between Impl and Model on one script, or None.  A crash of Impl where the
    model says `undef` (the C's behaviour is undefined there) counts as agreement."""
    ops = visible(ops)
    for i, op in enumerate(ops):
        mb = model_blocks[i] if i < len(model_blocks) else None
        ib = impl_blocks[i] if i < len(impl_blocks) else None
        if ib is None:
            if crash and mb is not None and "undef" in mb.lines:
                return None
            return {"op_index": i, "op": op, "impl": "crash: " + crash["kind"] if crash else "(no output)",
                    "model": mb.lines if mb else None}
        if mb is None or ib.lines != mb.lines or ib.op != mb.op:
            if crash and i == len(impl_blocks) - 1 and mb is not None and "undef" in mb.lines:
                return None
            return {"op_index": i, "op": op, "impl": ib.lines, "model": mb.lines if mb else None}
    return None


# ----------------------------------------------------------------------------- generators
def fixed_families():
    """Structured cases aimed at the case splits of the proofs."""
    out = []
    # initialisation: every list of up to 3 groups over preferences {1,2,3} and 0..2 sockets, in every order
    specs = [(p, n) for p in (1, 2, 3) for n in (0, 1, 2)]
    for ng in (0, 1, 2):
        for combo in itertools.product(specs, repeat=ng):
            out.append(("init", ["init " + " ".join("%d:%d" % s for s in combo)] + (["start"] if ng else [])))
    for perm in itertools.permutations((1, 2, 3)):
        for counts in ((1, 1, 1), (2, 1, 2), (1, 2, 2)):
            out.append(("init", ["init " + " ".join("%d:%d" % (p, n) for p, n in zip(perm, counts)), "start"]))
    for combo in (((1, 1), (2, 1), (1, 1)), ((3, 2), (3, 1), (3, 2)), ((1, 1), (2, 0), (3, 1)), ((2, 1), (1, 1), (2, 2)),
                  ((1, 0), (1, 0), (1, 0)), ((1, 1), (2, 1), (3, 0))):
        out.append(("init", ["init " + " ".join("%d:%d" % s for s in combo), "start"]))
    out.append(("init", ["init 255:1 0:2 7:1", "start", "remove 0", "add 255 1", "add 254 2"]))
    # add / remove sequences
    for seq in itertools.product(["add 0 1", "add 2 2", "add 4 1", "add 3 1", "remove 0", "remove 1", "remove 2", "remove 3",
                                  "remove 4", "start"], repeat=3):
        out.append(("groups", ["init 1:1 3:2"] + list(seq)))
    for seq in itertools.product(["add 1 1", "add 2 1", "remove 1", "remove 2", "remove 9", "stop", "start"], repeat=4):
        out.append(("groups", ["init 1:1"] + list(seq)))
    # failover / recovery stories
    story = ["init 1:1 2:2 3:1", "start", "ev 1 0 ERROR_TRANSPORT", "lu 2 0 1", "ev 2 0 ESTABLISHED", "lu 2 1 1", "ev 2 1 ESTABLISHED",
             "ev 1 0 CONNECTING", "ev 1 0 ERROR_FATAL", "ev 2 0 SYNC", "ev 2 0 ERROR_NO_DATA_AVAIL", "ev 2 0 RESET", "lu 1 0 1",
             "ev 1 0 RESET", "ev 1 0 SYNC", "ev 1 0 ESTABLISHED", "stop", "start"]
    for i in range(3, len(story) + 1):
        out.append(("story", story[:i]))
    # the same stories with the groups at the ends of the preference range (0 / 128 / 255, and 253 / 254 / 255)
    for ren in ({"1": "0", "2": "128", "3": "255"}, {"1": "253", "2": "254", "3": "255"}):
        def rn(op, ren=ren):
            w = op.split()
            if w[0] == "init":
                return "init " + " ".join(ren[x.split(":")[0]] + ":" + x.split(":")[1] for x in w[1:])
            if w[0] in ("ev", "lu"):
                w[1] = ren[w[1]]
            return " ".join(w)
        for i in range(3, len(story) + 1):
            out.append(("story", [rn(o) for o in story[:i]]))
        # every group but the last one fails in turn: the last (least preferred) one must be started
        out.append(("story", [rn(o) for o in ["init 1:1 2:1 3:1", "start", "ev 1 0 ERROR_TRANSPORT", "ev 2 0 ERROR_FATAL", "ev 3 0 ERROR_TRANSPORT"]]))
        out.append(("story", [rn(o) for o in ["init 2:1 3:1", "start", "ev 2 0 ERROR_NO_DATA_AVAIL", "lu 3 0 1", "ev 3 0 ESTABLISHED"]]))
    out.append(("story", ["init 1:2", "start", "lu 1 0 1", "lu 1 1 1", "ev 1 0 ESTABLISHED", "ev 1 1 ESTABLISHED", "stop"]))
    out.append(("story", ["init 1:2 2:2", "start", "ev 1 1 ERROR_NO_DATA_AVAIL", "lu 2 0 1", "lu 2 1 1", "ev 2 1 ESTABLISHED",
                          "ev 2 0 ESTABLISHED", "remove 2", "add 0 2", "lu 0 0 1", "lu 0 1 1", "ev 0 0 SYNC", "ev 0 1 ESTABLISHED"]))
    return out


def random_script(rnd):
    ng = rnd.randint(1, 3)
    # preferences: small values, or the ends of the uint8_t range (0, 255 are legal and the extreme ranks)
    prefs = rnd.sample(rnd.choice([list(range(1, 7)), list(range(1, 7)), [0, 1, 2, 127, 128, 254, 255], [0, 255, 254]]), ng)
    socks = {p: rnd.randint(1, 2) for p in prefs}
    ops = ["init " + " ".join("%d:%d" % (p, socks[p]) for p in prefs)]
    if rnd.random() < 0.92:
        ops.append("start")
    n = rnd.choice([4, 8, 12, 20, 30])
    while len(ops) < n:
        r = rnd.random()
        ps = sorted(socks)
        if r < 0.22:       # bring a whole group to the synchronised state
            p = rnd.choice(ps)
            order = list(range(socks[p]))
            rnd.shuffle(order)
            for k in order:
                if rnd.random() < 0.9:
                    ops.append("lu %d %d 1" % (p, k))
                ops.append("ev %d %d %s" % (p, k, rnd.choice(["ESTABLISHED", "ESTABLISHED", "SYNC", "RESET"])))
                if rnd.random() < 0.5:
                    ops.append("ev %d %d ESTABLISHED" % (p, k))
        elif r < 0.42:     # an error on one socket
            p = rnd.choice(ps)
            ops.append("ev %d %d %s" % (p, rnd.randrange(socks[p]), rnd.choice(ERROR_STATES)))
        elif r < 0.62:
            p = rnd.choice(ps)
            ops.append("ev %d %d %s" % (p, rnd.randrange(socks[p]), rnd.choice(FSM_STATES)))
        elif r < 0.72:
            p = rnd.choice(ps)
            ops.append("lu %d %d %d" % (p, rnd.randrange(socks[p]), rnd.randint(0, 1)))
        elif r < 0.76:
            ops.append("start")
        elif r < 0.80:
            ops.append("stop")
        elif r < 0.90:
            p = rnd.choice([rnd.randint(0, 7), rnd.choice(ps), rnd.choice([0, 255, 254])])
            nn = rnd.randint(1, 2)
            ops.append("add %d %d" % (p, nn))
            if p not in socks:
                socks[p] = nn
        else:
            p = rnd.choice([rnd.randint(0, 7), rnd.choice(ps)])
            ops.append("remove %d" % p)
            if p in socks and len(socks) > 1:
                del socks[p]
    return ops


def malformed_script(rnd):
    """Ops outside the domain: unknown groups/sockets, events on stopped sockets, SHUTDOWN/CLOSED as events."""
    if rnd.random() < 0.15:
        ops = ["init " + " ".join("%d:%d" % (p, rnd.randint(0, 2)) for p in [rnd.randint(0, 3) for _ in range(rnd.randint(0, 4))])]
    else:
        ops = ["init " + " ".join("%d:%d" % (p, rnd.randint(1, 2)) for p in rnd.sample(range(0, 5), rnd.randint(1, 3)))]
    for _ in range(rnd.randint(1, 10)):
        r = rnd.random()
        if r < 0.5:
            ops.append("ev %d %d %s" % (rnd.randint(0, 4), rnd.randint(0, 3), rnd.choice(FSM_STATES + ["SHUTDOWN", "CLOSED"])))
        elif r < 0.6:
            ops.append("lu %d %d %d" % (rnd.randint(0, 4), rnd.randint(0, 3), rnd.randint(0, 1)))
        else:
            ops.append(rnd.choice(["start", "stop", "remove %d" % rnd.randint(0, 300), "add %d %d" % (rnd.randint(0, 4), rnd.randint(1, 2))]))
    return ops


def load_corpus():
    res = []
    if os.path.isdir(CORPUS):
        for f in sorted(os.listdir(CORPUS)):
            if f.endswith(".script"):
                ops = [l.strip() for l in open(os.path.join(CORPUS, f)) if l.strip() and not l.startswith("#")]
                res.append(("corpus:" + f, ops))
    return res


# ----------------------------------------------------------------------------- evaluation of a batch
class Runner:
    def __init__(self, impl, model):
        self.impl, self.model = impl, model
        self.variant = None           # name of the model variant /repo was found to correspond to
        self.stats = {"scripts": 0, "ops": 0, "pairs": set(), "by_family": {}, "op_kinds": {}, "events": {},
                      "crashes": 0, "hits": {}}

    def evaluate(self, scripts, variant, last_only=False, finals=None):
        """scripts: [(id, family, ops)].  Returns (spec violations, tie differences): lists of
        (id, ops, detail).  Coverage statistics are accumulated."""
        pairs = [(sid, ops) for sid, fam, ops in scripts]
        ires = run_impl(self.impl, pairs)
        mres = run_model(self.model, pairs, variant)
        spec_bad, tie_bad = [], []
        st = self.stats
        for sid, fam, ops in scripts:
            blocks, crash = ires[sid]
            vio = spec_check(ops, blocks, crash)
            if vio:
                spec_bad.append((sid, ops, vio))
            d = tie_diff(ops, blocks, crash, mres[sid])
            if d:
                tie_bad.append((sid, ops, d))
            st["scripts"] += 1
            st["by_family"][fam] = st["by_family"].get(fam, 0) + 1
            if crash:
                st["crashes"] += 1
            prev = None
            rng = range(len(blocks))
            for i in rng:
                b = blocks[i]
                w = b.op.split()
                if w[0] in ("mute", "unmute"):
                    continue
                cfgl = [l for l in b.lines if l.startswith("cfg ")]
                if w[0] != "dump" and (not last_only or i == len(blocks) - 1):
                    st["ops"] += 1
                    st["op_kinds"][w[0]] = st["op_kinds"].get(w[0], 0) + 1
                    effective = bool([l for l in b.lines if not l.startswith("cfg ")]) or (cfgl and cfgl[-1] != prev)
                    if effective and "ignored" not in b.lines:
                        st["pairs"].add(hashlib.sha1((str(prev) + "|" + b.op).encode()).digest()[:8])
                    for l in b.lines:
                        if l.startswith("status "):
                            k = "report:" + l.split()[2]
                            st["events"][k] = st["events"].get(k, 0) + 1
                        elif l.startswith("stop "):
                            k = "stop:" + ("api" if l.endswith("=api") else "callback")
                            st["events"][k] = st["events"].get(k, 0) + 1
                        elif l.startswith("start "):
                            k = "start:" + l.split()[2]
                            st["events"][k] = st["events"].get(k, 0) + 1
                        elif l.startswith("rc ") and w[0] in ("add", "remove", "init", "start"):
                            k = "%s:rc=%s" % (w[0], l.split()[1])
                            st["events"][k] = st["events"].get(k, 0) + 1
                        elif l == "ignored":
                            st["events"]["ignored"] = st["events"].get("ignored", 0) + 1
                if cfgl:
                    prev = cfgl[-1]
            if finals is not None and not crash:
                finals[sid] = prev
        return spec_bad, tie_bad

    def choose_variant(self, scripts):
        """Find the model variant /repo corresponds to on these scripts; the shipped one first."""
        results = []
        for name, flags in VARIANTS:
            saved = self.stats
            self.stats = {"scripts": 0, "ops": 0, "pairs": set(), "by_family": {}, "op_kinds": {}, "events": {},
                          "crashes": 0, "hits": {}}
            spec_bad, tie_bad = self.evaluate(scripts, name)
            st = self.stats
            self.stats = saved
            results.append((name, spec_bad, tie_bad, st))
            if not tie_bad:
                break
        results.sort(key=lambda r: len(r[2]))
        name, spec_bad, tie_bad, st = results[0]
        self.variant = name
        for k in ("scripts", "ops", "crashes"):
            self.stats[k] += st[k]
        self.stats["pairs"] |= st["pairs"]
        for k in ("by_family", "op_kinds", "events"):
            for a, b in st[k].items():
                self.stats[k][a] = self.stats[k].get(a, 0) + b
        return spec_bad, tie_bad, [(r[0], len(r[2])) for r in results]


# ----------------------------------------------------------------------------- shrinking
def shrink(ops, still_fails):
    """Remove ops (never the init line) while the failure persists."""
    ops = list(ops)
    changed = True
    while changed:
        changed = False
        # whole suffix first
        i = len(ops) - 1
        while i >= 1:
            cand = ops[:i] + ops[i + 1:]
            if still_fails(cand):
                ops = cand
                changed = True
            i -= 1
    return ops


# ----------------------------------------------------------------------------- exhaustive exploration
def explore(runner, variant, init, alphabet, depth, budget, t_end):
    """Breadth-first over the configurations reachable from `init` by ops of the alphabet, merging
    equal Impl dumps; every (reachable configuration, op) pair up to `depth` is run on Impl and
    Model (by replaying a shortest path, muted, then the op) and checked against the Spec."""
    strip = lambda ops: [o for o in ops if o not in ("mute", "unmute", "dump")]
    fin = {}
    runner.evaluate([(0, "exhaustive", [init])], variant, finals=fin)
    seen = {fin.get(0): []}
    frontier = [[]]
    total_pairs = 0
    level_sizes = []
    spec_bad, tie_bad = [], []
    spec_keys = {}
    truncated = False
    for d in range(depth):
        scripts = []
        for path in frontier:
            for op in alphabet(path):
                pre = [init] + (["mute"] + path + ["unmute"] if path else []) + ["dump", op]
                scripts.append((len(scripts), "exhaustive", pre))
        if not scripts:
            break
        if total_pairs + len(scripts) > budget or time.time() > t_end:
            truncated = True
            break
        total_pairs += len(scripts)
        level_sizes.append(len(frontier))
        nxt = []
        CH = 50000
        for c in range(0, len(scripts), CH):
            chunk = scripts[c:c + CH]
            fin = {}
            sb, tb = runner.evaluate(chunk, variant, last_only=True, finals=fin)
            for s, ops, v in sb:      # keep a few witnesses per clause, go on exploring
                k = v[0]["key"]
                spec_keys[k] = spec_keys.get(k, 0) + 1
                if spec_keys[k] <= 3:
                    spec_bad.append((s, strip(ops), v))
            tie_bad += [(s, strip(ops), v) for s, ops, v in tb]
            for sid, fam, ops in chunk:
                key = fin.get(sid)
                if key is not None and key not in seen:
                    path = strip(ops)[1:]
                    seen[key] = path
                    nxt.append(path)
            if tie_bad:
                break
        if tie_bad:
            break
        frontier = nxt
    return {"init": init, "depth_reached": len(level_sizes), "depth_asked": depth, "states": len(seen),
            "closed": (not truncated) and not frontier and not tie_bad, "spec_violations_by_key": spec_keys,
            "pairs": total_pairs, "frontier_sizes": level_sizes, "truncated": truncated,
            "spec_bad": spec_bad, "tie_bad": tie_bad}


def event_alphabet(init):
    specs = [tuple(int(x) for x in s.split(":")) for s in init.split()[1:]]

    def alpha(path):
        ops = ["start", "stop"]
        for p, n in specs:
            for k in range(n):
                for st in FSM_STATES:
                    ops.append("ev %d %d %s" % (p, k, st))
                ops.append("lu %d %d 1" % (p, k))
                ops.append("lu %d %d 0" % (p, k))
        return ops
    return alpha


def group_alphabet(init):
    def alpha(path):
        prefs = {}
        for s in init.split()[1:]:
            p, n = s.split(":")
            prefs[int(p)] = int(n)
        for o in path:
            w = o.split()
            if w[0] == "add" and int(w[1]) not in prefs:
                prefs[int(w[1])] = int(w[2])
            elif w[0] == "remove" and int(w[1]) in prefs and len(prefs) > 1:
                del prefs[int(w[1])]
        ops = ["start", "stop"]
        for p in range(0, 5):
            ops += ["add %d 1" % p, "add %d 2" % p, "remove %d" % p]
        for p, n in sorted(prefs.items()):
            for k in range(n):
                ops += ["lu %d %d 1" % (p, k), "ev %d %d ESTABLISHED" % (p, k), "ev %d %d ERROR_TRANSPORT" % (p, k)]
        return ops
    return alpha


# ----------------------------------------------------------------------------- the check
def _finding_key(v):
    return v[0]["key"]


def run(chk):
    rnd = vlib.rng(15)
    pr = vlib.check_proofs("C15", THEOREMS)
    chk.proof = pr
    impl = build_impl()
    model = build_model()
    runner = Runner(impl, model)
    drift = stub_drift()
    mismatch = stub_conformance()

    scripts = []
    for name, ops in load_corpus():
        scripts.append((len(scripts), "corpus", ops))
    for fam, ops in fixed_families():
        scripts.append((len(scripts), fam, ops))
    n_rand = 6000 if chk.tier == "quick" else 40000
    for _ in range(n_rand):
        scripts.append((len(scripts), "random", random_script(rnd)))
    for _ in range(n_rand // 10):
        scripts.append((len(scripts), "malformed", malformed_script(rnd)))

    spec_bad, tie_bad, tried = runner.choose_variant(scripts)
    variant = runner.variant
    chk.notes.append("model variants tried (name, scripts differing from Impl): %r; /repo corresponds to %r" % (tried, variant))

    exhaustive = []
    if chk.tier == "thorough" and not tie_bad:
        t_end = time.time() + 25 * 60
        plan = []
        for ng in (1, 2, 3):
            for counts in itertools.product((1, 2), repeat=ng):
                init = "init " + " ".join("%d:%d" % (i + 1, n) for i, n in enumerate(counts))
                ns = sum(counts)
                depth = {1: 12, 2: 12, 3: 7, 4: 6, 5: 5, 6: 5}[ns]
                plan.append((init, event_alphabet(init), depth, "events"))
        for init in ("init 1:1", "init 2:2", "init 1:1 3:2", "init 1:2 2:1 3:1"):
            plan.append((init, group_alphabet(init), 4, "groups"))
        for init, alpha, depth, kind in plan:
            r = explore(runner, variant, init, alpha, depth, budget=1500000, t_end=t_end)
            r["alphabet"] = kind
            sb, tb = r.pop("spec_bad"), r.pop("tie_bad")
            spec_bad += sb
            tie_bad += tb
            exhaustive.append(r)
            if tb:
                break

    # ---------------- report
    def replay_obj(kind, ops, extra):
        o = {"kind": kind, "script": ops, "model_variant": variant,
             "replay_cmd": "python3 tools/check.py C15 --replay <this file>"}
        o.update(extra)
        return o

    def impl_fails_with(key):
        def f(cand):
            blocks, crash = run_impl(impl, [(0, cand)])[0]
            return any(v["key"] == key for v in spec_check(cand, blocks, crash))
        return f

    def tie_fails(cand):
        blocks, crash = run_impl(impl, [(0, cand)])[0]
        m = run_model(model, [(0, cand)], variant)[0]
        return tie_diff(cand, blocks, crash, m) is not None

    reported = set()
    for sid, ops, vio in sorted(spec_bad, key=lambda x: len(x[1])):
        key = vio[0]["key"]
        if key in reported:
            continue
        reported.add(key)
        small = shrink(ops, impl_fails_with(key))
        blocks, crash = run_impl(impl, [(0, small)], symbolize=True)[0]
        v2 = [v for v in spec_check(small, blocks, crash) if v["key"] == key]
        m = run_model(model, [(0, small)], variant)[0]
        chk.violation(replay_obj("impl-vs-spec", small, {
            "violated_clause": v2[0]["clause"] if v2 else vio[0]["clause"], "detail": (v2 or vio)[0]["detail"],
            "expected": "clause '%s' of C15 holds on the trace" % vio[0]["clause"],
            "observed_impl": [[b.op] + b.lines for b in blocks], "crash": crash,
            "observed_model": [[b.op] + b.lines for b in m],
            "original_length": len(ops), "proof": pr.broken}), key=key)
    if tie_bad:
        sid, ops, d = sorted(tie_bad, key=lambda x: len(x[1]))[0]
        small = shrink(ops, tie_fails)
        blocks, crash = run_impl(impl, [(0, small)])[0]
        m = run_model(model, [(0, small)], variant)[0]
        d2 = tie_diff(small, blocks, crash, m) or d
        chk.violation(replay_obj("impl-vs-model", small, {
            "detail": "the real rtr_mgr.c and the Coq model (variant %s, the closest of %r) disagree: the theorems no longer "
                      "describe /repo" % (variant, tried),
            "first_difference": d2, "expected": d2.get("model"), "observed": d2.get("impl"),
            "differing_scripts": len(tie_bad), "original_length": len(ops), "proof": pr.broken}),
            key="tie:" + (d2.get("op") or "").split()[0])
    if drift:
        chk.violation({"kind": "stub-drift", "detail": "rtr_start / rtr_stop / rtr_change_socket_state / rtr_fsm_start changed in /repo; "
                       "the link-time stubs in harness/mgr_events.c and the model's stop_one / start_sock restate them and must be "
                       "re-read against the new text", "functions": drift}, key="stub-drift", no_input=True, tag="%s-stubs" % vlib.seed())

    if mismatch:
        chk.violation({"kind": "stub-mismatch", "detail": mismatch}, key="stub-mismatch", no_input=True, tag="%s-stubcheck" % vlib.seed())

    st = runner.stats
    chk.cov.update({
        "evaluations": st["ops"], "distinct_nontrivial": len(st["pairs"]),
        "rule": "evaluations = operations executed on the real rtr_mgr.c and on the model and compared line by line; "
                "non-trivial = distinct (configuration before, operation) pairs whose operation was neither ignored nor a no-op",
        "scripts": st["scripts"], "scripts_by_family": st["by_family"], "op_kinds": st["op_kinds"],
        "observed_events": st["events"], "impl_crashes": st["crashes"],
        "samples": [ops for sid, fam, ops in scripts[:2]] + [ops for sid, fam, ops in scripts if fam == "random"][:2],
        "exhaustive": bool(exhaustive) and all(not r["truncated"] for r in exhaustive),
        "exhaustive_runs": exhaustive,
        "exhaustive_note": "'closed': true means the frontier became empty: EVERY sequence of any length over the alphabet was covered "
                           "for that start configuration.  Otherwise: breadth-first over Impl configurations (dump after each op = every field rtr_mgr.c reads), equal "
                           "configurations merged; every (reachable configuration, op) pair up to the stated depth is executed "
                           "on Impl and Model by replaying a shortest path; alphabet 'events' = start, stop, every socket x "
                           "the 9 states the FSM reports, last_update set/cleared per socket; alphabet 'groups' = start, stop, "
                           "add/remove of preferences 0..4 with 1..2 sockets, and per socket lu/ESTABLISHED/ERROR_TRANSPORT",
        "model_variant": variant, "variants_tried": tried,
        "tie": "(b) differential execution of the extracted model against the real rtr_mgr.c; rtr_start/rtr_stop stubbed at "
               "link time; the stubs are (1) run side by side with the real rtr_start/rtr_stop (real thread) on a fixed 10-step "
               "sequence (result: %s) and (2) the text of the stubbed functions is compared with a recorded normal form (drift: %s)"
               % ("identical" if not mismatch else "MISMATCH", "none" if not drift else "YES"),
    })
    full = variant == "fixed"
    chk.notes.append("property theorem for this tree: " + ("C15_full_when_repaired (every clause)" if full else
                     "all clauses proved for every variant except 'rejection is an error return' and 'never ESTABLISHED with a stopped "
                     "socket', which hold only with the corresponding repair; C15_refuted / *_refuted give the witnesses for the shipped code"))
    chk.assumptions += [
        "reading of 'reported ESTABLISHED only when synchronised': (1) the report by which a group BECOMES ESTABLISHED requires every "
        "socket synced; (2) no group is left ESTABLISHED with a stopped socket.  Re-announcements of an unchanged ESTABLISHED status "
        "(default arm of rtr_mgr_cb, SHUTDOWN handler) are by design and not counted",
        "callbacks of different sockets are serialised (the property quantifies over histories, not schedules)",
        "only the FSM thread of a started socket (thread_id != 0) changes that socket's state or last_update, and it never reports "
        "RTR_SHUTDOWN or RTR_CLOSED itself; state changes and last_update changes are otherwise arbitrary (over-approximates rtr_fsm_start)",
        "interval arguments of rtr_mgr_init are in range and allocation succeeds (C18 covers allocation failure)",
        "status_fp does not call back into the manager",
        "add_group is given at least one socket (the property's domain); with none the C later reads sockets[0] of an empty array (model: OUndef)",
    ]
    chk.trusted += [
        "hand-written model coq/theories/Mgr/MgrModel.v of rtr_mgr.c (tied by the differential run)",
        "link-time stubs for rtr_start / rtr_stop in harness/mgr_events.c (restating rtr/rtr.c; guarded by a side-by-side run against the "
        "real functions and by the recorded normal form of rtr_start, rtr_stop, rtr_change_socket_state and the prologue of rtr_fsm_start)",
        "tommyds list and tommy_list_sort (modelled as a Coq list and insertion sort; exercised by the run)",
        "ocaml/c15_driver.ml, python Spec predicates in tools/props/C15.py",
    ]
    if not pr.ok and not chk.violations:
        chk.proof_broken(pr, "differential run on %d scripts (%d ops) and Spec predicates on Impl: nothing found" % (st["scripts"], st["ops"]))


def replay(path):
    o = json.load(open(path))
    ops = o.get("script")
    if not ops:
        print("replay file names no input:", json.dumps(o.get("broken") or o.get("detail")))
        return 1
    impl = build_impl()
    model = build_model()
    blocks, crash = run_impl(impl, [(0, ops)], symbolize=True)[0]
    m = run_model(model, [(0, ops)], o.get("model_variant") or "current")[0]
    print("script:")
    for l in ops:
        print("   ", l)
    print("Impl (real rtr_mgr.c):")
    for b in blocks:
        print("   >", b.op)
        for l in b.lines:
            print("     ", l)
    if crash:
        print("   CRASH:", crash["kind"])
        print("     " + crash["stderr"].replace("\n", "\n     ")[:1500])
    vio = spec_check(ops, blocks, crash)
    d = tie_diff(ops, blocks, crash, m)
    for v in vio:
        print("Spec violated: clause %s at op %d (%s): %s" % (v["clause"], v["op_index"], v["op"], v["detail"][:400]))
    if d:
        print("Impl and Model (%s) differ at op %d (%s):\n  impl : %r\n  model: %r" % (o.get("model_variant"), d["op_index"], d["op"], d["impl"], d["model"]))
    return 1 if (vio or d) else 0
