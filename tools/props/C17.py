"""C17 - timer values stay within protocol bounds. Proof: Props/Properties_C17.v (translated C functions +
RtrModel); tie (b): boundary grid through the real rtr_sync + Model trace equality; independent oracle below."""
import rtrsim as R
from props import rtr_common

THEOREMS = ["C17_code_is_model", "C17_init", "C17_mode", "C17_unchanged", "C17_in_range", "C17_poll_deadline", "C17_wait_translated"]
RANGES = {"refresh": (1, 86400), "retry": (1, 7200), "expire": (600, 172800)}
EDGE = {"refresh": [0, 1, 2, 86399, 86400, 86401, 2 ** 32 - 1, 3600],
        "retry": [0, 1, 2, 7199, 7200, 7201, 2 ** 32 - 1, 600],
        "expire": [0, 599, 600, 601, 172799, 172800, 172801, 2 ** 32 - 1]}


def prescribed(mode, sent, old, mn, mx):
    if mode == 0:
        return old
    if mode == 1:
        return sent
    if mode == 2:
        return mn if sent < mn else mx if sent > mx else sent
    return sent if mn <= sent <= mx else old


def gen(rnd):
    """Grid-driven: configured intervals at their own boundaries, EOD values at every boundary +-1, all four modes,
    v0 and v1; then the client is left alone so that the poll deadline shows; sometimes a notify."""
    cfg = {"refresh": rnd.choice([1, 2, 2, 30, 86400, 3600]), "retry": rnd.choice([1, 600, 7200]),
           "expire": rnd.choice([600, 601, 7200, 172800]), "mode": rnd.randint(0, 3), "ver": rnd.choice([1, 1, 1, 0]),
           "ivals": (rnd.choice(EDGE["refresh"]), rnd.choice(EDGE["retry"]), rnd.choice(EDGE["expire"]))}
    s, meta = R.build_conversation(rnd, nex=rnd.randint(3, 7), fault_p=0.1, cfg=cfg, faults=["timeout", "spurious_reset", "notify_inside"], pre=False)
    meta["cfg"] = cfg
    return s, meta


def bad_init_scripts():
    out = []
    # every boundary of every field with the other two fields valid, the special value 0 everywhere, and products of small / zero values
    # (a "0 means derive it from the others" shortcut must not let a value outside its range through)
    R_, E_, T_ = [0, 1, 2, 299, 300, 86399, 86400, 86401, 2 ** 31, 2 ** 32 - 1], [0, 1, 599, 600, 601, 172799, 172800, 172801, 2 ** 31, 2 ** 32 - 1], \
        [0, 1, 2, 7199, 7200, 7201, 2 ** 31, 2 ** 32 - 1]
    grid = [(r, 7200, 600) for r in R_] + [(3600, e, 600) for e in E_] + [(3600, 7200, t) for t in T_]
    grid += [(r, 0, 600) for r in (1, 100, 299, 300, 301, 86400)] + [(0, 0, 0), (1, 0, 0), (0, 600, 1), (1, 600, 0), (100, 200, 600), (86400, 172800, 7200), (1, 600, 1)]
    for (r, e, t) in grid:
        s = R.Script(refresh=r, expire=e, retry=t, mode=0)
        s.opens = [True]
        out.append((s, (r, e, t)))
    return out


def oracle(tr, script, meta):
    lines = tr.lines
    refresh, expire, retry, mode = script.cfg
    # rtr_init: rejects exactly the out-of-range triples
    ok = 1 <= refresh <= 86400 and 600 <= expire <= 172800 and 1 <= retry <= 7200
    init = next((l for l in lines if l.startswith("INIT")), "INIT ?")
    if (init == "INIT 0") != ok:
        return {"key": "init-range", "what": "rtr_init accepted/rejected the wrong interval triple", "cfg": script.cfg, "got": init}
    if not ok:
        return None
    cur = {"refresh": refresh, "retry": retry, "expire": expire}
    cons = rtr_common.consumed_pdus(lines, script)
    # every EOD that completed an exchange (ESTABLISHED follows): expected values by mode
    refresh_seen = []
    for c in cons:
        if "raw" not in c or not c.get("complete") or c["raw"][1] != R.EOD:
            continue
        end = c.get("at_end", c["at"])
        nxt = [l for l in lines[end + 1:end + 400] if l.startswith("STATE") or l.startswith("SEND") or l.startswith("RECV")]
        became_est = False
        for l in lines[end + 1:]:
            if l.startswith("PFXCB") or l.startswith("KEYCB"):
                continue
            became_est = (l == "STATE 1")
            break
        if not became_est:
            continue
        if c["raw"][0] == 1 and len(c["raw"]) == 24:
            sent = {"refresh": int.from_bytes(c["raw"][12:16], "big"), "retry": int.from_bytes(c["raw"][16:20], "big"),
                    "expire": int.from_bytes(c["raw"][20:24], "big")}
            for k in cur:
                cur[k] = prescribed(mode, sent[k], cur[k], *RANGES[k])
            refresh_seen.append(cur["refresh"])
    fin = tr.final()
    if fin is None:
        return {"key": "no-final-dump", "what": "no final dump"}
    f = fin[1]
    got = {"refresh": int(f["refresh"]), "retry": int(f["retry"]), "expire": int(f["expire"])}
    if got != cur:
        return {"key": "interval-law", "what": "intervals after the run are not what the mode prescribes", "mode": mode, "expected": cur, "got": got}
    if mode != 1:
        for k in got:
            if not (RANGES[k][0] <= got[k] <= RANGES[k][1]):
                return {"key": "interval-out-of-range", "what": "interval outside its range in a mode other than accept-any", "field": k, "value": got[k]}
    # polling: every time the client (re-)enters its wait while ESTABLISHED, the timeout handed to the transport
    # is at most the refresh interval in force (it is max(0, last_sync + refresh - now))
    maxrefresh = max([refresh, cur["refresh"]] + refresh_seen)
    ends = set()
    for c in cons:
        if "raw" in c:
            ends.add(c.get("at_end", c["at"]))
    state = None
    expect_wait = False
    for i, l in enumerate(lines):
        if l.startswith("STATE "):
            state = int(l.split()[1])
            expect_wait = (state == 1)
        elif l.startswith("RECV timeout="):
            if expect_wait and state == 1:
                w = int(l.split()[1].split("=")[1])
                if w > maxrefresh:
                    return {"key": "poll-deadline", "what": "while established the client asks the transport to wait longer than the refresh interval",
                            "timeout": w, "refresh_at_most": maxrefresh, "trace_index": i}
                expect_wait = False
            if i in ends and state == 1:
                expect_wait = True
    return None


def run(chk):
    # the rtr_init grid first (deterministic), then conversations
    for s, cfg in bad_init_scripts():
        rc, a = R.run_impl(s.lines())
        rc2, b = R.run_model(s.lines())
        o = oracle(R.Trace(a), s, {"exchanges": []})
        if R.first_diff(a, b) or o:
            chk.violation({"kind": "init-grid", "script": s.lines(), "detail": o or {"what": "Impl/Model differ on rtr_init"},
                           "replay_cmd": "python3 tools/check.py C17 --replay <this file>"}, key="init-range")
            return
    rtr_common.run_property(chk, THEOREMS, gen, oracle, "C17")
    chk.cov["init_grid_cases"] = len(bad_init_scripts())
    chk.cov["tie"] += "; (a) rtr_check_interval_range/option and apply_interval_value translated from /repo (C17_code_is_model)"


def replay(path):
    return rtr_common.replay_script(path, oracle)
