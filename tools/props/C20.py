"""C20 - state and status names for every enumerator.

Decided by: Coq theorems over the *translated* enums, name tables and function bodies
(Gen/Generated.v regenerated from /repo on this run).  Supporting / failing-input search:
the real functions under ASan on every enumerator and on values outside the enumeration."""
import json
import os
import re

import vlib

THEOREMS = ["C20_state_names", "C20_state_null", "C20_status_names", "C20_status_null", "C20_never_out_of_bounds"]


def enums_from_headers():
    """Independent of the translator: read the enumerator names straight from the public headers."""
    res = {}
    for key, hdr, en in (("s", "rtrlib/rtr/rtr.h", "rtr_socket_state"), ("m", "rtrlib/rtr_mgr.h", "rtr_mgr_status")):
        txt = open(os.path.join(vlib.REPO, hdr)).read()
        txt = re.sub(r"/\*.*?\*/", "", txt, flags=re.S)
        txt = re.sub(r"//[^\n]*", "", txt)
        m = re.search(r"enum\s+%s\s*\{(.*?)\}" % en, txt, re.S)
        names, nxt = [], 0
        for item in m.group(1).split(","):
            item = item.strip()
            if not item:
                continue
            if "=" in item:
                n, v = item.split("=")
                nxt = int(v.strip(), 0)
                item = n.strip()
            names.append((item, nxt))
            nxt += 1
        res[key] = names
    return res


def cases(tier, rnd):
    en = enums_from_headers()
    out = []
    for key in ("s", "m"):
        vals = dict((v, n) for n, v in en[key])
        n = len(en[key])
        probe = set(vals) | {-1, -2, n, n + 1, n + 2, 255, 256, 1000, 65535, 2 ** 31 - 1, -2 ** 31}
        extra = 200 if tier == "quick" else 20000
        for _ in range(extra):
            probe.add(rnd.choice([rnd.randint(-64, 64), rnd.randint(-2 ** 31, 2 ** 31 - 1), rnd.randint(0, 4096)]))
        for v in sorted(probe):
            out.append((key, v, vals.get(v)))
    return out


def run_impl(cs):
    exe = vlib.build_harness("names", os.path.join(vlib.VERIF, "harness", "names.c"), san="asan")
    res = []
    # one process per batch; on a crash, bisect to the single offending input
    def batch(lst):
        text = "".join("%s %d\n" % (k, v) for k, v, _ in lst)
        rc, lines = vlib.run_lines(exe, text, env=vlib.san_env(), timeout=120)
        got = {}
        for ln in lines:
            p = ln.split()
            if len(p) == 3 and p[0] in ("s", "m"):
                got[(p[0], int(p[1]))] = p[2]
        return rc, got, "\n".join(lines[-25:])
    rc, got, tail = batch(cs)
    crashes = []
    if rc != 0:
        for c in cs:
            if (c[0], c[1]) not in got:
                rc1, got1, tail1 = batch([c])
                if rc1 != 0:
                    crashes.append((c, tail1))
                got.update(got1)
    return got, crashes


def sweep():
    """every 32-bit value outside the enumerations, on an optimised build: -> (list of (fn, value) answered non-NULL, note)"""
    exe = vlib.build_harness("names_fast", os.path.join(vlib.VERIF, "harness", "names.c"), san="none", opt="-O2")
    en = enums_from_headers()
    found, done, rcs, tails = [], 0, [], []
    for cmd, key in (("S", "s"), ("M", "m")):          # one process per function: a crash ends only that sweep
        rc, lines = vlib.run_lines(exe, "%s %d\n" % (cmd, max(v for _, v in en[key]) + 1), timeout=900)
        rcs.append(rc)
        tails += lines[-2:]
        for ln in lines:
            p = ln.split()
            if len(p) == 3 and p[2] in ("nonnull", "crash"):
                found.append((p[0], int(p[1])))
            if len(p) == 3 and p[1] == "sweep":
                done += 1
    rc, lines = (0 if all(r == 0 for r in rcs) else rcs), tails
    return found, ("complete" if done == 2 and rc == 0 else "sweep ended early (rc %s): %s" % (rc, " | ".join(lines[-3:])))


def run(chk):
    rnd = vlib.rng(20)
    pr = vlib.check_proofs("C20", THEOREMS)
    chk.proof = pr
    cs = cases(chk.tier, rnd)
    got, crashes = run_impl(cs)
    swept = None
    if chk.tier != "quick" or not pr.ok:
        # thorough, or a proof no longer checks: look at all 2^32 values for a failing input
        found, swept = sweep()
        extra = [(k, v, None) for k, v in found if (k, v) not in set((a, b) for a, b, _ in cs)]
        if extra:
            g2, c2 = run_impl(extra)
            got.update(g2)
            crashes += c2
            cs = cs + extra
    bad = []
    for c, tail in crashes:
        bad.append({"fn": c[0], "value": c[1], "expected": c[2] or "NULL", "got": "crash (sanitizer)", "detail": tail[-1500:]})
    for k, v, exp in cs:
        g = got.get((k, v))
        if g is None:
            continue
        if g != (exp or "NULL"):
            bad.append({"fn": k, "value": v, "expected": exp or "NULL", "got": g})
    nontriv = len(set((k, v) for k, v, e in cs if e is not None)) + len(set((k, v) for k, v, e in cs if e is None and -300 < v < 300))
    chk.cov.update({
        "evaluations": len(cs), "distinct_nontrivial": nontriv,
        "rule": "every enumerator of both enums (names parsed from the public headers, independently of the translator) plus values "
                "around and far outside the enumeration; non-trivial = an enumerator or a value within 300 of the enumeration",
        "samples": [list(c) for c in cs[:6]] + [list(c) for c in cs[-3:]],
        "exhaustive": swept == "complete", "sweep_of_all_32_bit_values": swept or "not run in this tier (runs in thorough, and whenever a proof breaks)",
        "tie": "(a) translator: enums, tables and both function bodies regenerated into Gen/Generated.v; (b) real functions under ASan",
    })
    chk.assumptions += ["enum objects are 32 bits wide (theorems quantify over -2^31 <= v < 2^32)", "LP64 pointer size in sizeof(table)/sizeof(entry)"]
    if bad:
        b = bad[0]
        chk.violation({"kind": "impl-vs-spec", "input": {"fn": "rtr_state_to_str" if b["fn"] == "s" else "rtr_mgr_status_to_str", "value": b["value"]},
                       "expected": b["expected"], "observed": b["got"], "all": bad[:20], "proof": pr.broken,
                       "replay_cmd": "python3 tools/check.py C20 --replay <this file>"},
                      key="%s:%s" % (b["fn"], b["value"]))
    elif not pr.ok:
        chk.proof_broken(pr, "names harness under ASan on %d values: all as specified" % len(cs))


def replay(path):
    o = json.load(open(path))
    inp = o.get("input")
    if not inp:
        print("replay file names no input:", json.dumps(o.get("broken")))
        return 1
    k = "s" if inp["fn"] == "rtr_state_to_str" else "m"
    got, crashes = run_impl([(k, inp["value"], None)])
    print("input", inp, "expected", o.get("expected"), "observed", "crash" if crashes else got.get((k, inp["value"])))
    return 0 if (not crashes and got.get((k, inp["value"])) == o.get("expected")) else 1
