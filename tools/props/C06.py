"""C06 - a full reload replaces a cache's data atomically for concurrent readers.

Decided by: Coq theorems (Props/Properties_C06.v) on top of C16's rwlock semantics: every reader answer is the
query on the complete OLD or the complete NEW table, per table never NEW then OLD, for every schedule and every
old/new pair, given that each main table is written by exactly one step of the synchronising thread - which is
proved of the sequential reload model (reset mode of Rtr/RtrModel.v) and checked on the lock skeletons regenerated
from /repo on this run (pfx_table_swap / spki_table_swap: one write-locked section; copy / diff: no write).

Ties: (a) translator: lock skeletons; (b) the RTR correspondence: real rtr socket (harness/rtr_run.c) and extracted
model produce the same trace on reload conversations.  Supporting, not the claim: harness/reload_readers.c under
TSan - readers against the real rtr_sync doing reloads; every answer must be the OLD or the NEW Spec answer."""
import json
import os
import re

import rtrsim
import vlib
from props import C16

THEOREMS = ["C06_general", "C06_written_once", "C06", "C06_old_or_new", "C06_same_answer", "C06_reload_writes_main_once",
            "C06_reload_skeletons", "C06_instance", "C06_instance_once", "C06_instance_new_is_model_new", "C06_when",
            "C06_when_cache_reset", "C06_data_implies_synchronised"]
SESSION = 4711


def bits(rnd, n, fam):
    w = 32 if fam == "4" else 128
    return "".join(rnd.choice("01") for _ in range(n)) + "0" * (w - n)


def gen_conversation(rnd, nreloads, setsize, nkeys, disjoint=False, bad_p=0.0):
    """Data sets 0..nreloads for this socket, records of another source, a query set, and the byte script.
    bad_p: probability that a reload is first answered by a response that fails at End of Data (its last record announced twice:
    everything before it has been applied to the tables built aside, and is rolled back there) - the readers must keep seeing the
    complete OLD set until the repeated, correct answer has been swapped in."""
    pool = []
    while len(pool) < 3 * setsize:
        fam = rnd.choice("4446")
        ln = rnd.randint(4, 24) if fam == "4" else rnd.randint(16, 48)
        r = (fam, bits(rnd, ln, fam), ln, min(32 if fam == "4" else 128, ln + rnd.randint(0, 8)), rnd.randint(1, 9))
        if r not in pool:
            pool.append(r)
    # key ids: the SKI (what the key table hashes) comes from the id's upper bits - many different SKIs, a few keys per SKI
    kpool = list(dict.fromkeys((rnd.randint(1, 9), rnd.randint(1, 240) * 256 + rnd.randint(0, 2)) for _ in range(3 * nkeys + 3)))
    common = pool[:max(1, setsize // 8)]          # in every set: answers that never change
    sets = []
    for k in range(nreloads + 1):
        if disjoint:
            body = pool[(k % 2) * setsize + len(common):][:setsize]
        else:
            body = rnd.sample(pool[len(common):], setsize)
        nk = nkeys if nkeys <= 8 else rnd.choice([5, nkeys // 2, nkeys])      # key tables of different sizes meet in a reload
        # big key runs: 30 keys are in every set (queried all the time: a miss at any moment is a violation), the rest varies
        kcommon = kpool[:30] if nkeys > 8 else []
        ks = kcommon + rnd.sample(kpool[len(kcommon):], min(nk, len(kpool) - len(kcommon)))
        sets.append((common + [r for r in body if r not in common], ks))
    pre_p = []
    for _ in range(4):
        fam = rnd.choice("46")
        ln = rnd.randint(4, 16)
        pre_p.append((fam, bits(rnd, ln, fam), ln, ln + 8, rnd.randint(1, 9), rnd.choice([2, 0])))      # 0: no socket
    pre_k = [(rnd.randint(1, 9), rnd.randint(241, 250) * 256, s) for s in (2, 0)]
    qs = []
    for fam, b, ln, mx, asn in rnd.sample(pool, min(len(pool), 60)) + common[:3]:
        w = 32 if fam == "4" else 128
        ql = min(w, ln + rnd.randint(0, 4))
        qb = b[:ln] + "".join(rnd.choice("01") for _ in range(ql - ln)) + "0" * (w - ql)
        qs.append("q %s %s %d %d" % (fam, qb, ql, rnd.choice([asn, asn, rnd.randint(1, 9)])))
    for fam, b, ln, mx, asn, src in pre_p[:2]:
        qs.append("q %s %s %d %d" % (fam, b, ln + 2, asn))
    for asn, kid in (kpool[:40] if nkeys > 8 else kpool[:10]) + kpool[60:70] + kpool[200:206]:   # the id's bits 8..15 are the SKI: distinct ids = distinct keys
        qs.append("k %d %d" % (asn, kid))
    qs.append("k %d %d" % (pre_k[0][0], pre_k[0][1]))
    lines = ["cfg 3600 7200 600 0"]
    lines += ["pre pfx %s %s %d %d %d %d" % r for r in pre_p] + ["pre key %d %d %d" % k for k in pre_k]
    for k, (ps, ks) in enumerate(sets):
        lines += ["set %d pfx %s %s %d %d %d" % ((k,) + r) for r in ps] + ["set %d key %d %d" % ((k,) + x) for x in ks]
    lines += qs
    bad = [k for k in range(1, nreloads + 1) if rnd.random() < bad_p]
    lines.append("open " + " ".join("1" for _ in range(8 + len(bad))))

    def response(k, broken=False):
        ps, ks = sets[k]
        out = rtrsim.cache_response(1, SESSION)
        for r in ps:
            out += rtrsim.prefix_pdu(1, r, 1)
        for x in ks:
            out += rtrsim.key_pdu(1, x, 1)
        if broken:
            out += rtrsim.key_pdu(1, ks[-1], 1) if ks and rnd.random() < 0.5 else rtrsim.prefix_pdu(1, ps[-1], 1)
        return out + rtrsim.eod(1, SESSION, k + 1)
    evs = [("data", response(0)), ("gate",)]
    for k in range(1, nreloads + 1):
        evs += [("wait", 3601), ("data", rtrsim.cache_reset(1)), ("mark", "s%d" % k)]
        if k in bad:
            evs += [("data", response(k, broken=True))]      # fails at End of Data; the client reconnects and asks again
        evs += [("data", response(k)), ("mark", "d%d" % k)]
    return lines, evs, {"sets": len(sets), "setsize": [len(s[0]) for s in sets][:4], "queries": len(qs), "failed_reloads": len(bad)}


def script_text(lines, evs, readers, for_rtr_run=False):
    out = list(l for l in lines if not (for_rtr_run and (l.startswith("set ") or l[:2] in ("q ", "k "))))
    for e in evs:
        if e[0] == "data":
            out.append("ev data " + e[1].hex())
        elif e[0] in ("gate", "mark"):
            if not for_rtr_run:
                out.append("ev %s %s" % (e[0], e[1] if len(e) > 1 else ""))
        else:
            out.append("ev %s %s" % (e[0], e[1]))
    if not for_rtr_run:
        out.append("readers %d" % readers)
    out.append("run")
    return out


def reload_exe():
    return vlib.build_harness("reload_readers_tsan", os.path.join(vlib.VERIF, "harness", "reload_readers.c"), san="tsan", opt="-O1",
                              wraps=("lrtr_get_monotonic_time", "sleep"))


def run_reload(text, timeout=900):
    rc, out = vlib.sh([reload_exe()], input=text, env=C16.tsan_env(), timeout=timeout)
    res = {"rc": rc, "done": None, "violations": [], "reports": [], "abort": None}
    for line in out.split("\n"):
        if line.startswith("DONE "):
            res["done"] = dict((k, int(v)) for k, v in (x.split("=") for x in line.split()[1:]))
        elif line.startswith("VIOLATION") or line.startswith("ERROR"):
            res["violations"].append(line)
        elif "Assertion" in line and "failed" in line:
            res["abort"] = line.strip()
    for rep in re.split(r"={18}\n", out):
        if "WARNING: ThreadSanitizer" in rep:
            frames = re.findall(r"#\d+ (\w+) ", rep)
            res["reports"].append({"kind": re.search(r"WARNING: ThreadSanitizer: ([^\n(]+)", rep).group(1).strip(),
                                   "functions": [f for f in dict.fromkeys(frames) if not f.startswith("pthread")][:8], "text": rep[:1800]})
    if res["done"] is None and res["abort"] is None:
        res["abort"] = "exit code %s: %s" % (rc, out[-500:])
    return res


def corpus_scripts():
    d = os.path.join(vlib.VERIF, "corpus", "C06")
    res = []
    if os.path.isdir(d):
        for f in sorted(os.listdir(d)):
            if f.endswith(".txt"):
                res.append((f, open(os.path.join(d, f)).read()))
    return res


def skeleton_status():
    body = ("From Coq Require Import List String.\nFrom RtrV Require Import Conc.RwLock Gen.LockSkeletons Conc.LockCheck.\n"
            "Local Open Scope string_scope.\n"
            "Eval vm_compute in (reload_skeleton_check, one_write_section \"pfx_table_swap\" \"a\", one_write_section \"spki_table_swap\" \"a\",\n"
            "  map (acquisitions \"a\") (paths_of \"pfx_table_swap\"), map (acquisitions \"a\") (paths_of \"spki_table_swap\"),\n"
            "  never_writes \"pfx_table_copy_except_socket\" \"src_table\", never_writes \"spki_table_copy_except_socket\" \"src\",\n"
            "  never_writes \"pfx_table_notify_diff\" \"new_table\", never_writes \"spki_table_notify_diff\" \"new_table\").\n")
    rc, out = vlib.coq_eval("C06_status", body, timeout=300)
    return rc, " ".join(out.split())[-700:]


def run(chk):
    rnd = vlib.rng(6)
    pr = vlib.check_proofs("C06", THEOREMS)
    chk.proof = pr
    chk.trusted += C16.TRUSTED + ["the reload of packets.c is the reload of Rtr/RtrModel.v (checked by the RTR correspondence on reload conversations, "
                                  "not proved)", "version stamps of reload_readers.c: relaxed atomics set inside the mock transport, valid on x86-TSO"]
    chk.assumptions += ["readers only read (queries are one critical section under the read lock); other writers to the shared tables are outside the "
                        "property's quantifier (a record another socket adds between the copy and the swap is lost: observation, not C06)",
                        "atomicity is per table: prefix table and router-key table are swapped in two critical sections",
                        "C06_when assumes last_update <> 0 for a socket that holds data (not proved as an invariant of all runs)"]
    quick = chk.tier == "quick"
    readers = 4 if quick else min(12, max(4, vlib.NCPU - 2))
    # the C16 finding makes pfx_table_copy_except_socket / notify_diff / spki_table_notify_diff fail the plain check; C06 depends on C16
    st = C16.instance_status()
    if st["full"] is False:
        chk.notes.append("C16's lock-discipline check is false on this tree (functions %s): C06's 'all other steps read main under the read lock' "
                         "holds only outside that finding (see C16)" % st["failing"])
    if not pr.ok:
        rc, txt = skeleton_status()
        chk.notes.append("skeleton facts on this tree: " + txt)

    # ---- (b) RTR correspondence on reload conversations: real socket vs extracted model ----
    tie_bad = None
    ntie = 3 if quick else 25
    tie_runs = 0
    for i in range(ntie):
        lines, evs, meta = gen_conversation(rnd, nreloads=rnd.randint(1, 3), setsize=rnd.randint(3, 12), nkeys=rnd.randint(0, 3), bad_p=0.5)
        sl = script_text(lines, evs, readers, for_rtr_run=True)
        rc_i, impl = rtrsim.run_impl(sl)
        rc_m, model = rtrsim.run_model(sl)
        tie_runs += 1
        d = rtrsim.first_diff(impl, model)
        if d is not None or rc_i != 0:
            tie_bad = {"kind": "impl-vs-model (tie): reload conversation", "script": sl, "first_difference": d, "impl_rc": rc_i,
                       "impl_tail": impl[-12:], "model_tail": model[-12:], "replay_cmd": "python3 tools/check.py C06 --replay <this file>"}
            break
    if tie_bad:
        chk.violation(tie_bad, key="reload-correspondence", tag="%s-tie" % vlib.seed())

    # ---- supporting: readers against the real reload ----
    plan = [("corpus/" + n, t) for n, t in corpus_scripts()]
    for i in range(2 if quick else 6):
        lines, evs, meta = gen_conversation(rnd, nreloads=500 if quick else 1500, setsize=rnd.choice([150, 400]), nkeys=(8 if i % 2 == 0 else rnd.choice([40, 70, 140])), disjoint=(i % 2 == 1), bad_p=0.04)
        # odd runs: enough router keys for the old and the new key table to be at different steps of the hash table's growth
        plan.append(("gen%d %s" % (i, meta), "\n".join(script_text(lines, evs, readers)) + "\n"))
    totals = {"reader_ops": 0, "key_ops": 0, "during_reload": 0, "during_reload_answer_differs": 0, "reloads_done": 0, "callbacks": 0}
    runs, findings = [], {}
    for name, text in plan:
        r = run_reload(text)
        runs.append({"run": name[:80], "done": r["done"], "violations": len(r["violations"]), "tsan_reports": len(r["reports"]), "abort": r["abort"]})
        if r["done"]:
            for k in totals:
                totals[k] += r["done"].get(k, 0)
            if r["done"].get("reloads_done", 0) + 1 < r["done"].get("sets", 0):
                findings.setdefault("reload-did-not-complete", {"kind": "reload_readers: the scripted reloads did not all complete", "run": name,
                                                                "observed": r["done"], "script": text.split("\n")})
        bad = []
        for v in r["violations"][:4]:
            m = re.search(r"kind=([\w-]+)", v)
            bad.append(("reload-" + (m.group(1) if m else "violation"), {"line": v}))
        for rep in r["reports"]:
            bad.append((C16.classify_report(rep), {"tsan": rep["kind"], "functions": rep["functions"], "report": rep["text"]}))
        if r["abort"]:
            bad.append((C16.classify_abort(r["abort"]), {"abort": r["abort"]}))
        for key, what in bad:
            findings.setdefault(key, {"kind": "reload_readers (real rtr_sync reload against reader threads, TSan)", "run": name, "observed": what,
                                      "script": text.split("\n"), "replay_cmd": "python3 tools/check.py C06 --replay <this file>"})
    for key, obj in sorted(findings.items()):
        chk.violation(obj, key=key, tag="%s-reload-%s" % (vlib.seed(), re.sub(r"\W+", "_", key)[:40]))
    chk.cov.update({
        "evaluations": totals["reader_ops"], "distinct_nontrivial": totals["reloads_done"] + tie_runs,
        "rule": "one evaluation = one reader query (pfx_table_validate_r / spki_table_get_all) answered by the real tables while the real rtr socket "
                "thread ran the scripted reloads (how many complete depends on the machine and its load); non-trivial = reloads carried out "
                "against the readers plus reload conversations compared with the model - counts that do not depend on the schedule.  How many "
                "queries were in flight during a reload with differing OLD and NEW answers in this run is reload_totals.during_reload_answer_differs.  "
                "Distinct interleavings cannot be counted.",
        "samples": runs[:6], "reload_totals": totals, "readers": readers,
        "tie": "(a) lock skeletons (C06_reload_skeletons); (b) %d reload conversations: trace of harness/rtr_run.c on /repo == trace of the extracted model" % tie_runs,
        "input_distribution": {"reload_runs": len(plan), "tie_conversations": tie_runs},
    })
    if not pr.ok:
        chk.proof_broken(pr, "reload_readers under TSan: %d reader queries, %d reloads" % (totals["reader_ops"], totals["reloads_done"]))


def replay(path):
    o = json.load(open(path))
    sc = o.get("script")
    if not sc:
        print("replay file names no input:", json.dumps(o.get("broken") or o.get("detail"))[:2000])
        return 1
    if o.get("kind", "").startswith("impl-vs-model"):
        rc_i, impl = rtrsim.run_impl(sc)
        rc_m, model = rtrsim.run_model(sc)
        d = rtrsim.first_diff(impl, model)
        print("first difference:", d)
        return 1 if (d is not None or rc_i != 0) else 0
    r = run_reload("\n".join(sc) + "\n")
    print("done:", r["done"], "abort:", r["abort"])
    for v in r["violations"][:10]:
        print(v)
    for rep in r["reports"][:2]:
        print(rep["text"])
    return 1 if (r["violations"] or r["reports"] or r["abort"]) else 0
