"""C10 - the router-key table is an exact set keyed by AS, SKI, key and source.

Decided by: Coq theorems (coq/theories/Props/Properties_C10.v) about an executable model of
ht-spkitable.c + tommyhashlin.c (Spki/Hashlin.v, Spki/SpkiModel.v), for ANY hash function.
Tie to /repo, checked on every run:
  (a) the model is executed with tommy_inthash_u32 / TOMMY_HASHLIN_BIT / enum spki_rtvals as
      translated from /repo's source on this run (Gen/Generated.v);
  (b) correspondence: harness/spki_ops.c (the real spki_table_* functions, ASan+UBSan, asserts on)
      and the extracted model (ocaml/c10_driver.ml) run the same op scripts; return codes, lookup
      results, callback streams and list walks are compared (as multisets: strict; order: drift).
Failing-input search: an independent python set oracle (class Spec) judges Impl's observations.
"""
import hashlib
import json
import os
import re
import shutil

import vlib

LEVEL = "proof"
THEOREMS = [
    "C10_hashlin_init", "C10_hashlin_insert", "C10_hashlin_remove", "C10_hashlin_bucket", "C10_hashlin_loops_exit",
    "C10_invariant_all_histories", "C10_get_all", "C10_search_by_ski",
    "C10_add", "C10_remove", "C10_src_remove", "C10_copy", "C10_swap", "C10_notify_diff",
    "C10_callbacks", "C10_refines_all_histories", "C10_spec_is_set", "C10_full_holds",
    "C10_full_of_fix", "C10_full_for_fixed_model", "C10_code_constants",
]
NT = 8
INC = ("rtrlib/spki/hashtable/ht-spkitable.c",)
KNOWN_KEY = "src_remove-no-callback"
CORPUS = os.path.join(vlib.VERIF, "corpus", "C10")


# ---------------------------------------------------------------------------
# building the two executables
# ---------------------------------------------------------------------------
def build_impl():
    return vlib.build_harness("spki_ops", os.path.join(vlib.VERIF, "harness", "spki_ops.c"),
                              includes_repo_c=INC, san="asan")


def build_model():
    """Extract (Extract/Extract_C10.vo -> coq/c10_model.ml) and compile with ocaml/c10_driver.ml."""
    ml = os.path.join(vlib.COQ, "c10_model.ml")
    mli = os.path.join(vlib.COQ, "c10_model.mli")
    vo = os.path.join(vlib.THEORIES, "Extract", "Extract_C10.vo")
    if not (os.path.exists(ml) and os.path.exists(mli)) and os.path.exists(vo):
        os.remove(vo)
    ok, out = vlib.coq_make(["theories/Extract/Extract_C10.vo"], timeout=900)
    if not ok or not os.path.exists(ml):
        raise vlib.BuildError("extraction of the C10 model failed:\n" + out[-3000:])
    drv = os.path.join(vlib.VERIF, "ocaml", "c10_driver.ml")
    key = hashlib.sha1(b"\0".join(open(f, "rb").read() for f in (ml, mli, drv))).hexdigest()
    odir = os.path.join(vlib.BUILD, "c10")
    os.makedirs(odir, exist_ok=True)
    os.makedirs(os.path.join(vlib.BUILD, "bin"), exist_ok=True)
    exe = os.path.join(vlib.BUILD, "bin", "c10_model")
    stamp = os.path.join(odir, "stamp")
    if os.path.exists(exe) and os.path.exists(stamp) and open(stamp).read() == key:
        return exe
    for f in (ml, mli, drv):
        shutil.copy(f, odir)
    rc, out = vlib.sh(["ocamlfind", "ocamlopt", "-O3", "-w", "-a", "-o", exe, "c10_model.mli", "c10_model.ml", "c10_driver.ml"],
                      cwd=odir, timeout=900)
    if rc != 0:
        raise vlib.BuildError("ocaml build of the C10 model failed:\n" + out[-3000:])
    with open(stamp, "w") as f:
        f.write(key)
    return exe


# ---------------------------------------------------------------------------
# running scripts, parsing observations
# ---------------------------------------------------------------------------
LINE_RE = re.compile(r"^rc=(-?\d+) (cb|res)=\[(.*)\]$")
DUMP_RE = re.compile(r"^count=(\d+) list=\[(.*)\]$")
SHAPE_RE = re.compile(r"^shape bit=(-?\d+) low_max=(-?\d+) split=(-?\d+) state=(-?\d+)$")


def parse(line):
    m = LINE_RE.match(line)
    if m:
        return {"k": m.group(2), "rc": int(m.group(1)), "items": m.group(3).split()}
    m = DUMP_RE.match(line)
    if m:
        return {"k": "dump", "rc": int(m.group(1)), "items": m.group(2).split()}
    if line.startswith("hash="):
        return {"k": "hash", "rc": int(line[5:]), "items": []}
    m = SHAPE_RE.match(line)
    if m:
        return {"k": "shape", "rc": 0, "items": [], "shape": tuple(int(x) for x in m.groups())}
    if line.startswith("bad"):
        return {"k": "bad", "rc": 0, "items": []}
    return {"k": "garbage", "rc": 0, "items": [line[:200]]}


def run_script(exe, ops, env=None, args=()):
    """-> (rc, [parsed observation per op], tail of raw output)"""
    rc, lines = vlib.run_lines(exe, "".join(o + "\n" for o in ops), env=env, timeout=900, args=args)
    while lines and lines[-1] == "":
        lines.pop()
    obs = [parse(l) for l in lines[:len(ops)]]
    return rc, obs, "\n".join(lines[len(obs):][-30:]) if len(lines) > len(obs) or rc != 0 else ""


def strict(o):
    return (o["k"], o["rc"], tuple(sorted(o["items"])))


# ---------------------------------------------------------------------------
# Spec: python sets.  It judges Impl's observations; it never looks at the model.
# ---------------------------------------------------------------------------
def ent(a, s, k, src):
    return "%d/%d/%d/%d" % (a, s, k, src)


def fields(e):
    return tuple(int(x) for x in e.split("/"))


class Spec:
    def __init__(self):
        self.t = [set() for _ in range(NT)]

    @staticmethod
    def replay(cbs, before, table):
        """apply a callback sequence to a set; None if some callback does not mirror a change"""
        cur = set(before)
        for c in cbs:
            m = re.match(r"^(-?\d+):([+-])(.*)$", c)
            if not m or int(m.group(1)) != table:
                return None
            e = m.group(3)
            if m.group(2) == "+":
                if e in cur:
                    return None
                cur.add(e)
            else:
                if e not in cur:
                    return None
                cur.discard(e)
        return cur

    def step(self, op, obs):
        """Judge Impl's observation of one op.  Returns (problem or None, finding_key or None)."""
        tk = op.split()
        if not tk:
            return (None, None) if obs["k"] == "bad" else ("malformed line was not rejected", None)
        if len(tk) > 6 or any(not re.match(r"^[0-9]{1,10}$", x) or int(x) > 4294967295 for x in tk[1:]):
            return (None, None) if obs["k"] == "bad" else ("malformed line was not rejected", None)
        name, a = tk[0], [int(x) for x in tk[1:]]
        T = self.t
        ok_t = lambda x: 0 <= x < NT  # noqa: E731

        def expect(kind, rc, items, exact_order=False):
            if obs["k"] != kind:
                return "expected a %s line, observed %r" % (kind, obs)
            if obs["rc"] != rc:
                return "return value %d, expected %d" % (obs["rc"], rc)
            if sorted(obs["items"]) != sorted(items):
                return "observed %s %r, expected %r" % (kind, sorted(obs["items"])[:8], sorted(items)[:8])
            if exact_order and obs["items"] != items:
                return "order: observed %r expected %r" % (obs["items"][:8], items[:8])
            return None

        if name == "add" and len(a) == 5 and ok_t(a[0]):
            e = ent(*a[1:])
            if e in T[a[0]]:
                return expect("cb", -2, []), None
            T[a[0]].add(e)
            return expect("cb", 0, ["%d:+%s" % (a[0], e)]), None
        if name == "rm" and len(a) == 5 and ok_t(a[0]):
            e = ent(*a[1:])
            if e not in T[a[0]]:
                return expect("cb", -3, []), None
            T[a[0]].discard(e)
            return expect("cb", 0, ["%d:-%s" % (a[0], e)]), None
        if name == "srcrm" and len(a) == 2 and ok_t(a[0]):
            gone = set(e for e in T[a[0]] if fields(e)[3] == a[1])
            before = set(T[a[0]])
            T[a[0]] -= gone
            p = expect("cb", 0, ["%d:-%s" % (a[0], e) for e in gone])
            if p and obs["k"] == "cb" and obs["rc"] == 0 and gone and not obs["items"]:
                return ("spki_table_src_remove removed %d record(s) of source %d and invoked no update callback"
                        % (len(gone), a[1])), KNOWN_KEY
            if not p and self.replay(obs["items"], before, a[0]) != T[a[0]]:
                p = "callback sequence does not replay to the contents"
            return p, None
        if name == "get" and len(a) == 3 and ok_t(a[0]):
            return expect("res", 0, [e for e in T[a[0]] if fields(e)[0] == a[1] and fields(e)[1] == a[2]]), None
        if name == "ski" and len(a) == 2 and ok_t(a[0]):
            return expect("res", 0, [e for e in T[a[0]] if fields(e)[1] == a[1]]), None
        if name == "copy" and len(a) == 3 and ok_t(a[0]) and ok_t(a[1]) and a[0] != a[1]:
            new = set(e for e in T[a[0]] if fields(e)[3] != a[2])
            before = set(T[a[1]])
            if not (new & before):
                T[a[1]] |= new
                p = expect("cb", 0, ["%d:+%s" % (a[1], e) for e in new])
                if not p and self.replay(obs["items"], before, a[1]) != T[a[1]]:
                    p = "callback sequence does not replay to the contents"
                return p, None
            # some record is already in the destination: SPKI_ERROR after a prefix (in the source's order)
            if obs["k"] != "cb" or obs["rc"] != -1:
                return "copy onto a table holding one of the records: expected SPKI_ERROR (-1), observed %r" % (obs,), None
            after = self.replay(obs["items"], before, a[1])
            if after is None or not (after - before <= new):
                return "callbacks of a failed copy are not additions of source records: %r" % (obs["items"][:8],), None
            T[a[1]] = after
            return None, None
        if name == "swap" and len(a) == 2 and ok_t(a[0]) and ok_t(a[1]) and a[0] != a[1]:
            T[a[0]], T[a[1]] = T[a[1]], T[a[0]]
            return expect("cb", 0, []), None
        if name == "diff" and len(a) == 3 and ok_t(a[0]) and ok_t(a[1]) and a[0] != a[1]:
            n_s = set(e for e in T[a[0]] if fields(e)[3] == a[2])
            o_s = set(e for e in T[a[1]] if fields(e)[3] == a[2])
            T[a[1]] -= (n_s & o_s)
            exp = ["%d:+%s" % (a[0], e) for e in n_s - o_s] + ["%d:-%s" % (a[0], e) for e in o_s - n_s]
            p = expect("cb", 0, exp)
            if not p and self.replay(obs["items"], o_s, a[0]) != n_s:
                p = "callback sequence does not replay the old records of the source to the new ones"
            return p, None
        if name == "free" and len(a) == 1 and ok_t(a[0]):
            T[a[0]] = set()
            return expect("cb", 0, []), None
        if name == "dump" and len(a) == 1 and ok_t(a[0]):
            return expect("dump", len(T[a[0]]), list(T[a[0]])), None
        if name == "hash" and len(a) == 1:
            return (None, None) if obs["k"] == "hash" else ("no hash line", None)
        if name == "shape":
            return None, None       # internal state of the hash table: compared Impl vs Model (tie), no Spec opinion
        return (None, None) if obs["k"] == "bad" else ("malformed line was not rejected: %r" % (obs,), None)


# ---------------------------------------------------------------------------
# judging a script: tie (Impl vs Model) and property (Spec vs Impl)
# ---------------------------------------------------------------------------
class Verdict:
    def __init__(self):
        self.tie = None       # (index, text)
        self.spec = None      # (index, text)
        self.known = None     # (index, text)
        self.drift = []       # indices with order-only differences
        self.impl = []
        self.model = []
        self.crash = None


def judge(exe_i, exe_m, ops, want_model=True):
    v = Verdict()
    rci, oi, taili = run_script(exe_i, ops, env=vlib.san_env())
    v.impl = oi
    if rci != 0 or len(oi) < len(ops):
        v.crash = (len(oi), "harness exited with %d after %d of %d ops: %s" % (rci, len(oi), len(ops), taili[-1500:]))
    if want_model:
        rcm, om, tailm = run_script(exe_m, ops)
        v.model = om
        if rcm != 0 or len(om) < len(ops):
            v.tie = (len(om), "model driver exited with %d after %d ops: %s" % (rcm, len(om), tailm[-500:]))
        for i in range(min(len(oi), len(om))):
            if ops[i].startswith("shape"):
                # the resize state machine itself: bucket_bit, low_max, split, state must agree at every probe
                if oi[i].get("shape") != om[i].get("shape"):
                    if v.tie is None or i < v.tie[0]:
                        v.tie = (i, "hash table shape after op %d: Impl %r, Model %r" % (i, oi[i].get("shape"), om[i].get("shape")))
                    break
                continue
            if strict(oi[i]) != strict(om[i]):
                if v.tie is None or i < v.tie[0]:
                    v.tie = (i, "op %r: Impl %r, Model %r" % (ops[i], oi[i], om[i]))
                break
            if oi[i]["items"] != om[i]["items"]:
                v.drift.append(i)
    sp = Spec()
    for i in range(len(oi)):
        p, key = sp.step(ops[i], oi[i])
        if p and key:
            if v.known is None:
                v.known = (i, p)
        elif p:
            v.spec = (i, "op %r: %s" % (ops[i], p))
            break
    if v.crash and v.spec is None:
        v.spec = v.crash
    return v


def ddmin(ops, test):
    """classic delta debugging on the op list; test(sub) -> True if the failure is still there"""
    n = 2
    budget = 900
    while len(ops) >= 2 and budget > 0:
        chunk = max(1, len(ops) // n)
        reduced = False
        for start in range(0, len(ops), chunk):
            sub = ops[:start] + ops[start + chunk:]
            budget -= 1
            if sub and test(sub):
                ops = sub
                n = max(n - 1, 2)
                reduced = True
                break
            if budget <= 0:
                break
        if not reduced:
            if chunk == 1:
                break
            n = min(len(ops), n * 2)
    return ops


# ---------------------------------------------------------------------------
# generators
# ---------------------------------------------------------------------------
class Sim:
    """counts-only mirror of the resize thresholds of tommyhashlin.c; used only to AIM the generators
    (which sizes to visit); what was actually reached is measured from the model's `shape` lines"""

    def __init__(self, bit0):
        self.bit0 = bit0
        self.bit = bit0
        self.bmax = 1 << bit0
        self.low = self.bmax
        self.split = 0
        self.state = 0
        self.count = 0

    def stable(self):
        self.state, self.low, self.split = 0, self.bmax, 0

    def ins(self):
        self.count += 1
        if self.state != 1 and self.count > self.bmax // 2:
            if self.state == 0:
                self.low = self.bmax
                self.bit += 1
                self.bmax = 1 << self.bit
                self.split = 0
            self.state = 1
        if self.state == 1:
            while self.split + self.low < 2 * self.count:
                self.split += 1
                if self.split == self.low:
                    self.stable()
                    break

    def rem(self):
        self.count -= 1
        if self.state != 2 and self.count < self.bmax // 8:
            if self.bit > self.bit0:
                if self.state == 0:
                    self.low = self.bmax // 2
                    self.split = self.low
                self.state = 2
        if self.state == 2:
            while self.split + self.low > 8 * self.count:
                self.split -= 1
                if self.split == 0:
                    self.bit -= 1
                    self.bmax = 1 << self.bit
                    self.stable()
                    break


class Pools:
    """AS-number pools built from the hash values *of the code under test* (asked from the harness)"""

    def __init__(self, exe_i, rnd):
        cand = list(range(0, 3000)) + [2 ** 32 - 1, 2 ** 31, 2 ** 31 - 1, 65535, 65536, 4200000000]
        cand += [rnd.randrange(0, 2 ** 32) for _ in range(1200)]
        cand = sorted(set(cand))
        rc, obs, _ = run_script(exe_i, ["hash %d" % c for c in cand], env=vlib.san_env())
        self.hash = dict((c, o["rc"]) for c, o in zip(cand, obs) if o["k"] == "hash")
        self.cand = cand

        def group(mask):
            g = {}
            for c, h in self.hash.items():
                g.setdefault(h & mask, []).append(c)
            return max(g.values(), key=len)
        self.col6 = sorted(group(63))[:24]         # one initial bucket, separated by growth
        self.col10 = sorted(group(1023))[:8]       # together through four doublings
        self.col8 = sorted(group(255))[:12]
        self.plain = [c for c in cand if c < 3000]
        self.edge = [0, 1, 2 ** 32 - 1, 2 ** 31, 65535, 65536]

    def asn_mix(self, rnd, n):
        out = list(self.col10) + list(self.col6[:10]) + list(self.col8[:6]) + self.edge
        while len(set(out)) < n:
            out.append(rnd.choice(self.plain) if rnd.random() < 0.8 else rnd.choice(self.cand))
        out = list(dict.fromkeys(out))
        return out[:n]


SKIS = [1, 2, 3, 7, 1 + 65536, 1 + (3 << 16), 2 + (1 << 24), 0]          # several differ only in the tail bytes
SPKIS = [5, 6, 5 + 65536, 5 + (1 << 30), 0]


def lookups(rnd, t, present, universe, n):
    ops = []
    for _ in range(n):
        r = rnd.random()
        if present and r < 0.45:
            e = rnd.choice(present)
            ops.append("get %d %d %d" % (t, e[0], e[1]))
        elif r < 0.7:
            e = rnd.choice(universe)
            ops.append("get %d %d %d" % (t, e[0], rnd.choice(SKIS)))
        else:
            ops.append("ski %d %d" % (t, rnd.choice(SKIS)))
    return ops


def gen_sweep(rnd, pools, bit0, peak, variant):
    """one table driven up across the grow thresholds, down across the shrink thresholds, and up again
    while the shrink is in progress (and down again while the grow is in progress)"""
    t = rnd.randrange(NT)
    nas = rnd.choice([1, 3, 12, 40, 120]) if variant != "one-as" else 1
    asns = pools.asn_mix(rnd, max(nas, 1))[:nas] if nas > 1 else [rnd.choice(pools.col6)]
    nsrc = rnd.choice([1, 2, 4])
    uni = []
    seen = set()
    tries = 0
    while len(uni) < 2 * peak + 100 and tries < 50 * (peak + 100):
        tries += 1
        e = (rnd.choice(asns), rnd.choice(SKIS) if rnd.random() < 0.8 else rnd.randrange(0, 2 ** 32),
             rnd.choice(SPKIS) if rnd.random() < 0.5 else rnd.randrange(0, 2 ** 32), rnd.randrange(0, nsrc + 1))
        if e not in seen:
            seen.add(e)
            uni.append(e)
    sim = Sim(bit0)
    present = []
    ops = []

    def add(e):
        ops.append("add %d %d %d %d %d" % ((t,) + e))
        ops.append("shape %d" % t)
        if e not in present:
            present.append(e)
            sim.ins()

    def rm(e):
        ops.append("rm %d %d %d %d %d" % ((t,) + e))
        ops.append("shape %d" % t)
        if e in present:
            present.remove(e)
            sim.rem()

    def sprinkle(p=0.12):
        if rnd.random() < p:
            ops.extend(lookups(rnd, t, present, uni, rnd.randrange(1, 4)))
        if present and rnd.random() < p / 3:
            add(rnd.choice(present))                       # duplicate
        if rnd.random() < p / 3:
            e = rnd.choice(uni)
            if e not in present:
                rm(e)                                      # unknown removal
            else:
                rm((e[0], e[1], e[2], e[3] + 1))           # same key, other source
        if rnd.random() < p / 6:
            ops.append("dump %d" % t)

    fresh = list(uni)
    rnd.shuffle(fresh)
    # up
    while len(present) < peak and fresh:
        add(fresh.pop())
        sprinkle()
    ops.append("shape %d" % t)
    ops.append("dump %d" % t)
    # down: until a shrink is in progress (or nearly empty), sometimes by source
    low = rnd.choice([0, 1, 5, 9])
    used_src = False
    while len(present) > low:
        if variant == "by-source" and not used_src and len(present) < peak * 0.7:
            s = rnd.randrange(0, nsrc + 1)
            ops.append("srcrm %d %d" % (t, s))
            for e in [x for x in present if x[3] == s]:
                present.remove(e)
                sim.rem()
            used_src = True
            ops.append("dump %d" % t)
            continue
        rm(rnd.choice(present))
        sprinkle()
        if sim.state == 2 and variant == "regrow" and rnd.random() < 0.15:
            break
    ops.append("shape %d" % t)
    # up again (grow while shrinking when the state is SHRINK)
    goal = min(sim.bmax // 2 + rnd.randrange(2, 12), len(uni) - 3) if sim.state == 2 else rnd.randrange(5, peak // 2 + 6)
    cand2 = [e for e in uni if e not in present]
    rnd.shuffle(cand2)
    while len(present) < goal and cand2:
        add(cand2.pop())
        sprinkle(0.08)
    ops.append("shape %d" % t)
    # and down while the grow is in progress
    if sim.state == 1:
        goal2 = max(0, sim.bmax // 8 - rnd.randrange(1, 8))
        while len(present) > goal2:
            rm(rnd.choice(present))
            sprinkle(0.08)
        ops.append("shape %d" % t)
    ops.extend(lookups(rnd, t, present, uni, 6))
    ops.append("dump %d" % t)
    for s in range(nsrc + 1):
        if rnd.random() < 0.5:
            ops.append("srcrm %d %d" % (t, s))
    ops.append("dump %d" % t)
    return ops


def gen_mixed(rnd, pools, n):
    """small universe, all operations, several tables: duplicates, unknown removals, copies onto
    non-empty tables, swaps, diffs"""
    asns = [pools.col10[0], pools.col10[1 % len(pools.col10)], pools.col6[0], rnd.choice(pools.plain)]
    uni = [(a, s, k, src) for a in asns for s in SKIS[:3] for k in SPKIS[:2] for src in range(0, 3)]
    tabs = rnd.sample(range(NT), 3)
    ops = []
    for _ in range(n):
        r = rnd.random()
        t = rnd.choice(tabs)
        e = rnd.choice(uni)
        if r < 0.38:
            ops.append("add %d %d %d %d %d" % ((t,) + e))
        elif r < 0.58:
            ops.append("rm %d %d %d %d %d" % ((t,) + e))
        elif r < 0.64:
            ops.append("srcrm %d %d" % (t, rnd.randrange(0, 4)))
        elif r < 0.76:
            ops.append("get %d %d %d" % (t, e[0], e[1]))
        elif r < 0.82:
            ops.append("ski %d %d" % (t, e[1]))
        elif r < 0.87:
            u = rnd.choice([x for x in tabs if x != t])
            ops.append("copy %d %d %d" % (t, u, rnd.randrange(0, 4)))
        elif r < 0.91:
            u = rnd.choice([x for x in tabs if x != t])
            ops.append("swap %d %d" % (t, u))
        elif r < 0.94:
            u = rnd.choice([x for x in tabs if x != t])
            ops.append("diff %d %d %d" % (t, u, rnd.randrange(0, 3)))
        elif r < 0.96:
            ops.append("free %d" % t)
        else:
            ops.append("dump %d" % t)
    for t in tabs:
        ops.append("dump %d" % t)
    return ops


def gen_sync(rnd, pools, size):
    """the use made by rtr_sync: copy the live table except one source into a shadow table, fill the
    shadow with that source's new records, swap, notify the difference, drop the shadow"""
    live, shadow = rnd.sample(range(NT), 2)
    asns = pools.asn_mix(rnd, 30)
    ops = []
    cur = {}
    for s in (1, 2, 3):
        cur[s] = set()
        for _ in range(size):
            e = (rnd.choice(asns), rnd.choice(SKIS), rnd.randrange(0, 50), s)
            cur[s].add(e)
            ops.append("add %d %d %d %d %d" % ((live,) + e))
    for _ in range(rnd.randrange(1, 4)):
        s = rnd.choice((1, 2, 3))
        ops.append("copy %d %d %d" % (live, shadow, s))
        new = set(e for e in cur[s] if rnd.random() < 0.6)
        for _ in range(rnd.randrange(0, size)):
            new.add((rnd.choice(asns), rnd.choice(SKIS), rnd.randrange(0, 50), s))
        for e in sorted(new, key=lambda _: rnd.random()):
            ops.append("add %d %d %d %d %d" % ((shadow,) + e))
        ops.append("swap %d %d" % (live, shadow))
        ops.append("diff %d %d %d" % (live, shadow, s))
        ops.append("dump %d" % shadow)
        ops.append("free %d" % shadow)
        cur[s] = new
        ops.append("dump %d" % live)
        ops.extend(lookups(rnd, live, [e for v in cur.values() for e in v], [(a, 0, 0, 0) for a in asns], 5))
        if rnd.random() < 0.4:
            s2 = rnd.choice((1, 2, 3))
            ops.append("srcrm %d %d" % (live, s2))
            cur[s2] = set()
    return ops


def gen_malformed(rnd):
    ops = ["add 0 1 1 1 1", "frobnicate 0", "add 9 1 1 1 1", "add 0 1 1 1", "copy 1 1 0", "swap 2 2", "diff 3 3 1",
           "get 0 x 1", "", "rm 0 1 1 1 1 1 1", "add 0 1 1 1 1", "dump 0", "srcrm 0", "srcrm 0 1", "dump 0"]
    for _ in range(10):
        ops.append("".join(rnd.choice("adrmget 0123456789xyz-") for _ in range(rnd.randrange(1, 30))).strip() or "zz")
    return ops


def bit0_from_header():
    txt = open(os.path.join(vlib.REPO, "third-party/tommyds/tommyhashlin.h")).read()
    m = re.search(r"#define\s+TOMMY_HASHLIN_BIT\s+(\d+)", txt)
    return int(m.group(1)) if m else 6


def scripts(tier, rnd, pools):
    bit0 = bit0_from_header()
    out = []
    if tier == "quick":
        peaks = [40, 70, 70, 140, 140, 300, 300, 600]
        nmixed, nsync, reps = 120, 40, 1
    else:
        peaks = [40, 70, 140, 300, 600, 1200, 2500]
        nmixed, nsync, reps = 1500, 400, 12
    for rep in range(reps):
        if rep:
            rnd = vlib.rng(10 + 7919 * rep)          # thorough: an independent generator stream per repetition
        for p in peaks:
            for variant in ("plain", "by-source", "regrow", "one-as"):
                out.append(("sweep-%d-%s" % (p, variant), gen_sweep(rnd, pools, bit0, p, variant)))
    for i in range(nmixed):
        out.append(("mixed", gen_mixed(rnd, pools, rnd.choice([30, 80, 200]))))
    for i in range(nsync):
        out.append(("sync", gen_sync(rnd, pools, rnd.choice([3, 10, 40, 90]))))
    out.append(("malformed", gen_malformed(rnd)))
    return out


def corpus_scripts():
    out = []
    if os.path.isdir(CORPUS):
        for f in sorted(os.listdir(CORPUS)):
            if f.endswith(".txt"):
                ops = [l.rstrip("\n") for l in open(os.path.join(CORPUS, f)) if not l.startswith("#")]
                out.append(("corpus:" + f, ops))
    return out


# ---------------------------------------------------------------------------
# the check
# ---------------------------------------------------------------------------
def report(chk, exe_i, exe_m, name, ops, v, kind, pr):
    """shrink and file one violation. kind: 'tie' | 'spec' | 'known'"""
    def still(sub):
        w = judge(exe_i, exe_m, sub, want_model=(kind == "tie"))
        return {"tie": w.tie, "spec": w.spec, "known": w.known}[kind] is not None
    start = list(ops)
    if not still(start):
        start = list(ops)
    small = ddmin(start, still)
    w = judge(exe_i, exe_m, small)
    at = {"tie": w.tie, "spec": w.spec, "known": w.known}[kind] or (len(small) - 1, "(not reproduced after shrinking)")
    i = min(at[0], len(small) - 1)
    obj = {
        "kind": {"tie": "impl-vs-model (the model no longer describes the code: proofs do not transfer)",
                 "spec": "impl-vs-spec (property violated by the code)",
                 "known": "impl-vs-spec (property violated by the code)"}[kind],
        "script": small, "failing_op_index": i, "failing_op": small[i] if small else None,
        "what": at[1],
        "impl_observation": [o if isinstance(o, dict) else str(o) for o in w.impl[max(0, i - 2):i + 1]],
        "model_observation": w.model[max(0, i - 2):i + 1],
        "from": name, "original_length": len(ops), "proof": pr.broken,
        "replay_cmd": "python3 tools/check.py C10 --replay <this file>",
    }
    key = KNOWN_KEY if kind == "known" else None
    return chk.violation(obj, key=key)


def run(chk):
    rnd = vlib.rng(10)
    pr = vlib.check_proofs("C10", THEOREMS)
    chk.proof = pr
    exe_i = build_impl()
    exe_m = build_model()
    pools = Pools(exe_i, rnd)
    all_scripts = corpus_scripts() + scripts(chk.tier, rnd, pools)

    nops = 0
    opmix = {}
    rcs = {}
    shapes = set()
    trans = {"grow_started": 0, "shrink_started": 0, "grow_during_shrink": 0, "shrink_during_grow": 0,
             "grow_finished": 0, "shrink_finished": 0}
    maxbit = 0
    maxcount = 0
    nontrivial = set()
    drift = 0
    reported = {"tie": 0, "spec": 0, "known": 0}
    hash_checked = len(pools.hash)
    shared_bucket_gets = 0
    samples = []
    for name, ops in all_scripts:
        v = judge(exe_i, exe_m, ops)
        nops += len([o for o in ops if not o.startswith("shape")])
        drift += len(v.drift)
        last = {}
        for i, o in enumerate(ops):
            k = o.split()[0] if o.split() else "(empty)"
            opmix[k] = opmix.get(k, 0) + 1
            if i < len(v.impl):
                ob = v.impl[i]
                if ob["k"] in ("cb", "res"):
                    rcs["%s:%d" % (k, ob["rc"])] = rcs.get("%s:%d" % (k, ob["rc"]), 0) + 1
                if ob["k"] == "dump":
                    maxcount = max(maxcount, ob["rc"])
                if (ob["k"] in ("cb", "res") and (ob["items"] or ob["rc"] != 0)) or (ob["k"] == "dump" and ob["rc"] > 0):
                    nontrivial.add(o + "=>" + str(ob["rc"]) + ":" + hashlib.sha1(" ".join(sorted(ob["items"])).encode()).hexdigest()[:10])
            if i < len(v.model) and v.model[i]["k"] == "shape":
                sh = v.model[i]["shape"]
                t = o.split()[1]
                shapes.add((sh[0], sh[3]))
                maxbit = max(maxbit, sh[0])
                p = last.get(t)
                if p is not None:
                    if p[3] == 0 and sh[3] == 1 or (p[3] == 0 and sh[3] == 0 and sh[0] > p[0]):
                        trans["grow_started"] += 1
                    if p[3] == 0 and sh[3] == 2 or (p[3] == 0 and sh[3] == 0 and sh[0] < p[0]):
                        trans["shrink_started"] += 1
                    if p[3] == 2 and (sh[3] == 1 or (sh[3] == 0 and sh[0] == p[0])):
                        trans["grow_during_shrink"] += 1      # SHRINK -> GROW (often completed within the same insert)
                    if p[3] == 1 and sh[3] == 2:
                        trans["shrink_during_grow"] += 1
                    if p[3] == 1 and sh[3] == 0:
                        trans["grow_finished"] += 1
                    if p[3] == 2 and sh[3] == 0 and sh[0] == p[0] - 1:
                        trans["shrink_finished"] += 1
                last[t] = sh
        if len(samples) < 6:
            samples.append({"from": name, "ops": ops[:6], "impl": [strict(x) for x in v.impl[:6]]})
        if v.tie and reported["tie"] < 2:
            reported["tie"] += 1
            report(chk, exe_i, exe_m, name, ops, v, "tie", pr)
        if v.spec and reported["spec"] < 2:
            reported["spec"] += 1
            report(chk, exe_i, exe_m, name, ops, v, "spec", pr)
        if v.known and reported["known"] < 1:
            reported["known"] += 1
            if chk.classify(KNOWN_KEY) is not None:
                chk.violation({}, key=KNOWN_KEY)       # registers the known finding, writes nothing
            else:
                report(chk, exe_i, exe_m, name, ops, v, "known", pr)

    chk.cov.update({
        "evaluations": nops,
        "distinct_nontrivial": len(nontrivial),
        "rule": "evaluations = op lines executed on the real table code (and on the model, and judged by the set oracle); "
                "non-trivial = distinct (op line, observation) pairs whose observation is not an empty success "
                "(a callback fired, a record returned, a duplicate / unknown removal reported, a non-empty walk)",
        "scripts": len(all_scripts),
        "op_mix": opmix, "return_codes": rcs,
        "resize_events_seen_in_model_shape_samples": trans,
        "hashlin_states_seen(bucket_bit,state)": sorted(shapes), "max_bucket_bit": maxbit, "max_table_size": maxcount,
        "hash_values_compared_impl_vs_translated": hash_checked,
        "as_pools": {"share_initial_bucket(hash&63)": pools.col6[:8], "share_low_10_bits": pools.col10,
                     "share_low_8_bits": pools.col8[:6]},
        "order_only_differences(drift)": drift,
        "samples": samples,
        "tie": "(a) tommy_inthash_u32, TOMMY_HASHLIN_BIT, enum spki_rtvals translated from /repo on this run and used by the executed model; "
               "(b) harness/spki_ops.c (ASan+UBSan, asserts on) vs extracted model on every script",
    })
    chk.assumptions += [
        "fewer than 2^28 records per table (no wrap-around of 2*count / 8*count / 1<<bucket_bit in tommyhashlin.c)",
        "allocation never fails (allocation failure is property C18)",
        "the SKI / SPKI arrays are only copied and compared as a whole; the harness encodes a 32-bit identifier injectively "
        "into the 20 / 91 bytes with the distinguishing bytes at both ends",
        "operations are not applied to one table as both arguments (copy/swap/notify_diff would self-deadlock on the rwlock)",
        "single-threaded histories (locking is properties C16 / C06)",
    ]
    chk.trusted += ["python set oracle `Spec` in tools/props/C10.py", "harness/spki_ops.c record encoding / callback recorder"]
    if not pr.ok and reported["tie"] == 0 and reported["spec"] == 0:
        chk.proof_broken(pr, "%d scripts / %d ops on the real code: Impl = Model = Spec everywhere" % (len(all_scripts), nops))


def replay(path):
    o = json.load(open(path))
    ops = o.get("script")
    if not ops:
        print("replay file names no input:", json.dumps(o.get("broken")))
        return 1
    exe_i = build_impl()
    exe_m = build_model()
    v = judge(exe_i, exe_m, ops)
    for i, op in enumerate(ops):
        print("%-34s impl: %-60s model: %s" % (op, v.impl[i] if i < len(v.impl) else "-", v.model[i] if i < len(v.model) else "-"))
    print("tie   :", v.tie)
    print("spec  :", v.spec)
    print("known :", v.known)
    return 1 if (v.tie or v.spec or v.known) else 0
