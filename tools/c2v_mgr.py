#!/usr/bin/env python3
"""c2v_mgr.py - translate the decision logic of rtrlib/rtr_mgr.c (the connection manager's callback and what it is made
of) from clang's AST into Coq.  Output: coq/theories/Gen/GeneratedMgr.v (rewritten only if its text changes);
vocabulary: coq/theories/Mgr/MgrEff.v; tie to the hand-written model Mgr/MgrModel.v: coq/theories/Mgr/MgrTie.v.

    python3 tools/c2v_mgr.py [output.v]

Library use (hook for c2v.main()):   import c2v_mgr; text, problems = c2v_mgr.generate_mgr()

DATA MODEL (see Mgr/MgrEff.v)
  heap h : mheap       = integer/handle fields of struct rtr_mgr_config + the tommy list config->groups->list as the Coq
                         list of its groups, in list order.  A `struct rtr_mgr_config *` (parameter or local, also the
                         `void *data_config` that initialises one) is the heap itself: it disappears.
  group                = store of "preference", "status" + the list of its sockets; `sockets_len` is the list's length.
  struct rtr_mgr_group * = option nat: NULL / index of the node in the list.  Pointer comparison = index comparison.
  struct rtr_socket *  = (group index, socket index); only handed on (to rtr_stop, rtr_start, status_fp) - the one
                         place that dereferences one is `G->sockets[i]->field`, a read of socket i of group G.
EFFECTS
  rtr_stop, rtr_start and the user's callback conf->status_fp are MCall nodes (the callee gets the whole heap and hands
  back a new one).  pthread_rwlock_rdlock/_unlock/_wrlock and the debug printer lrtr_dbg (MGR_DBG, MGR_DBG1) are DROPPED:
  no node, their arguments are not evaluated.  Calls of functions translated here are mbind of the callee's tree.
LOOPS (recognised syntactically; anything else is refused)
  walk:  `tommy_node *node = tommy_list_head(&config->groups->list); while (node) { struct rtr_mgr_group_node *gn =
         node->data; ...; node = node->next; }` with node / gn used nowhere else except as `gn->group`
         -> Fixpoint over the number of nodes read at tommy_list_head (hnodes h), with the node's index; `gn->group` is
         Some index; every read of a group field goes to the heap of that moment (guarded: MUndef if there is no such group).
  for:   `for (unsigned i = 0; i < G->sockets_len; i++) body` with i used only as `G->sockets[i]`
         -> Fixpoint over the number of sockets read at loop entry (hscount h G) with the index.
  Both fix the trip count at loop entry: a callee that changed the chain or sockets_len during the loop is outside the
  model (rtr_stop, rtr_start do not; status_fp must not - it runs under the read lock).
  `break` and `return` inside a loop: the loop function yields (Some r, locals) = "the function returned r" or
  (None, locals) = "loop left normally or by break", locals = the outer integer locals the body assigns.
INTEGERS as in c2v.Tr: every integral conversion is an explicit wrapu/wraps/b2z∘z2b at the width of the C type
  (preference: uint8_t promoted to int; status/state: enums = unsigned int).
A function that cannot be translated comes out as `Definition <f>_untranslated := tt.` and an entry in
`mgr_translator_problems`.
"""
import json
import os
import sys

sys.path.insert(0, "/verif/tools")
import c2v  # noqa: E402
import vlib  # noqa: E402
from c2v import inner, find_def, Untranslatable, int_type  # noqa: E402

CFILE = "rtrlib/rtr_mgr.c"
MGR_OUT = os.path.join(vlib.THEORIES, "Gen", "GeneratedMgr.v")

# in dependency order (callees first)
MGR_FUNCS = [
    "set_status",
    "rtr_mgr_start_sockets",
    "rtr_mgr_config_status_is_synced",
    "rtr_mgr_close_less_preferable_groups",
    "get_best_inactive_rtr_mgr_group",
    "is_some_rtr_mgr_group_established",
    "_rtr_mgr_cb_state_shutdown",
    "_rtr_mgr_cb_state_established",
    "_rtr_mgr_cb_state_connecting",
    "_rtr_mgr_cb_state_error",
    "rtr_mgr_cb",
]
MGR_ENUMS = [("rtrlib/rtr/rtr.h", "rtr_socket_state"), ("rtrlib/rtr_mgr.h", "rtr_mgr_status"),
             ("rtrlib/rtr/rtr.h", "rtr_rtvals")]
DROPPED = {"pthread_rwlock_rdlock", "pthread_rwlock_unlock", "pthread_rwlock_wrlock", "lrtr_dbg"}
EXTERNAL = {"rtr_stop", "rtr_start"}
GROUP_FIELDS = {"preference", "status"}
SOCK_FIELDS = {"state", "last_update"}
CONF_FIELDS = {"status_fp", "status_fp_data"}
COQ_TY = {"int": "Z", "group": "gptr", "sock": "sptr", "idx": "nat"}


def strip(n, casts=("LValueToRValue", "NoOp", "BitCast")):
    while True:
        k = n.get("kind")
        if k == "ParenExpr":
            n = inner(n)[0]
        elif k in ("ImplicitCastExpr", "CStyleCastExpr") and n.get("castKind") in casts:
            n = inner(n)[0]
        else:
            return n


def qtype(n):
    return (n.get("type") or {}).get("qualType", "")


def kind_of_type(q):
    q = q.replace("const ", "").replace(" const", "").replace("*const", "*").strip()
    if q == "struct rtr_mgr_group *":
        return "group"
    if q == "struct rtr_socket *":
        return "sock"
    if q == "struct rtr_mgr_config *":
        return "config"
    if q == "void *":
        return "void"
    if q in ("tommy_node *", "struct tommy_node_struct *"):
        return "node"
    if q == "struct rtr_mgr_group_node *":
        return "gnode"
    if int_type(q) is not None:
        return "int"
    return None


def walk_nodes(n):
    yield n
    for c in inner(n):
        yield from walk_nodes(c)


def refs(n, name):
    return sum(1 for x in walk_nodes(n) if x.get("kind") == "DeclRefExpr" and x["referencedDecl"].get("name") == name)


def has_call(n):
    return any(x.get("kind") == "CallExpr" for x in walk_nodes(n))


def assigned_locals(n):
    res = []
    for x in walk_nodes(n):
        if x.get("kind") in ("BinaryOperator", "CompoundAssignOperator") and x.get("opcode", "") in ("=", "+=", "-=", "|=", "&="):
            lhs = strip(inner(x)[0])
            if lhs.get("kind") == "DeclRefExpr" and lhs["referencedDecl"]["name"] not in res:
                res.append(lhs["referencedDecl"]["name"])
        if x.get("kind") == "UnaryOperator" and x.get("opcode") in ("++", "--"):
            t = strip(inner(x)[0])
            if t.get("kind") == "DeclRefExpr" and t["referencedDecl"]["name"] not in res:
                res.append(t["referencedDecl"]["name"])
    return res


def gname(s):
    return "v_" + s


class TrMgr(c2v.Tr):
    """one function of rtr_mgr.c -> a term of type meff R (heap variable: always `h`)"""

    def __init__(self, fn, known, enums):
        super().__init__(fn, {}, enums, {}, {})
        self.name = fn["name"]
        self.mknown = known          # name -> {"params": [kinds], "ret": kind}
        self.vars = {}               # C variable -> kind
        self.scope = []              # variables that exist as Coq binders, in order: (name, kind)
        self.aux = []                # texts of the loop functions, innermost first
        self.nloops = 0
        self.loop = None             # inside a loop function: list of carried locals
        self.walk = None             # inside a walk: (node var, gnode var, index binder)
        self.fors = []               # enclosing for loops: (index var, text of the group pointer)
        self.ret_kind = None

    # -- variables ------------------------------------------------------------
    def declare(self, name, kind):
        self.vars[name] = kind
        if kind in COQ_TY and (name, kind) not in self.scope:
            self.scope.append((name, kind))
        if kind == "int":
            self.locals.add(name)

    def carried_tuple(self, names=None):
        names = self.loop if names is None else names
        if not names:
            return "tt"
        if len(names) == 1:
            return gname(names[0])
        return "(" + ", ".join(gname(x) for x in names) + ")"

    # -- pointer expressions ----------------------------------------------------
    def pexpr(self, n):
        """-> (kind, guards, term)"""
        n = strip(n)
        k = n.get("kind")
        if k in ("ImplicitCastExpr", "CStyleCastExpr") and n.get("castKind") == "NullToPointer":
            return "null", [], "None"
        if k == "DeclRefExpr":
            nm = n["referencedDecl"]["name"]
            kd = self.vars.get(nm)
            if kd == "config":
                return "config", [], None
            if kd in ("group", "sock"):
                return kd, [], gname(nm)
            if kd == "gnode" and self.walk and nm == self.walk[1]:
                return "gnode", [], None
            raise Untranslatable("pointer variable %s of kind %s" % (nm, kd))
        if k == "MemberExpr" and n.get("name") == "group":
            bk, _, _ = self.pexpr(inner(n)[0])
            if bk == "gnode":
                return "group", [], "(Some %s)" % self.walk[2]
            raise Untranslatable("->group of " + bk)
        if k == "ArraySubscriptExpr":
            a, i = inner(n)
            a, i = strip(a), strip(i)
            if a.get("kind") == "MemberExpr" and a.get("name") == "sockets" and i.get("kind") == "DeclRefExpr":
                bk, g, t = self.pexpr(inner(a)[0])
                iv = i["referencedDecl"]["name"]
                for (fv, ft) in self.fors:
                    if fv == iv and ft == t and bk == "group":
                        return "sock", g + ["(hs_ok h %s %s)" % (t, gname(iv))], "(hsptr %s %s)" % (t, gname(iv))
            raise Untranslatable("array element other than G->sockets[i] of the enclosing for loop")
        raise Untranslatable("pointer expression " + str(k))

    def is_pointer(self, n):
        q = qtype(n)
        return q.rstrip().endswith("*")

    # -- integer expressions ------------------------------------------------------
    def expr(self, n):
        k = n.get("kind")
        if k in ("ImplicitCastExpr", "CStyleCastExpr") and n.get("castKind") in ("LValueToRValue", "NoOp"):
            sub = inner(n)[0]
            if sub.get("kind") in ("MemberExpr", "ParenExpr", "DeclRefExpr"):
                return self.expr(sub)
        if k == "MemberExpr":
            f = n.get("name")
            base = strip(inner(n)[0])
            if base.get("kind") == "ArraySubscriptExpr" and f in SOCK_FIELDS:
                bk, g, t = self.pexpr(base)       # (hsptr G v_i) with its guard
                a = strip(inner(base)[0])
                _, _, gt = self.pexpr(inner(a)[0])
                iv = strip(inner(base)[1])["referencedDecl"]["name"]
                return g, '(hsf h %s %s "%s")' % (gt, gname(iv), f)
            bk, g, t = self.pexpr(base)
            if bk == "group" and f in GROUP_FIELDS:
                return g + ["(hg_ok h %s)" % t], '(hgf h %s "%s")' % (t, f)
            if bk == "group" and f == "sockets_len":
                return g + ["(hg_ok h %s)" % t], "(hslen h %s)" % t
            if bk == "config" and f in CONF_FIELDS:
                return g, '(hcf h "%s")' % f
            raise Untranslatable("field %s of a %s" % (f, bk))
        if k == "DeclRefExpr":
            nm = n["referencedDecl"]["name"]
            if self.vars.get(nm) == "idx":
                return [], "(Z.of_nat %s)" % gname(nm)
            if self.vars.get(nm) not in (None, "int") and n["referencedDecl"]["kind"] != "EnumConstantDecl":
                raise Untranslatable("variable %s of kind %s in an integer expression" % (nm, self.vars.get(nm)))
        if k == "CallExpr":
            raise Untranslatable("call inside an expression")
        return super().expr(n)

    def cond(self, n):
        m = strip(n, casts=("LValueToRValue", "NoOp"))
        k = m.get("kind")
        if k == "BinaryOperator" and m.get("opcode") in ("==", "!=") and self.is_pointer(inner(m)[0]):
            ka, ga, ta = self.pexpr(inner(m)[0])
            kb, gb, tb = self.pexpr(inner(m)[1])
            if {ka, kb} <= {"group", "null"}:
                t = "(gp_eqb %s %s)" % (ta, tb)
                return ga + gb, t if m["opcode"] == "==" else "(negb %s)" % t
            raise Untranslatable("comparison of %s and %s pointers" % (ka, kb))
        if k == "UnaryOperator" and m.get("opcode") == "!" and self.is_pointer(inner(m)[0]):
            g, t = self.cond(inner(m)[0])
            return g, "(negb %s)" % t
        if self.is_pointer(m) and k in ("DeclRefExpr", "MemberExpr"):
            kd, g, t = self.pexpr(m)
            if kd == "group":
                return g, "(gp_nonnull %s)" % t
            raise Untranslatable("truth value of a %s pointer" % kd)
        if k == "MemberExpr" and m.get("name") == "status_fp":
            g, t = self.expr(m)
            return g, "(z2b %s)" % t
        return super().cond(n)

    # -- calls ----------------------------------------------------------------------
    def callee_name(self, c):
        f = strip(inner(c)[0], casts=("LValueToRValue", "NoOp", "FunctionToPointerDecay"))
        if f.get("kind") == "DeclRefExpr":
            return f["referencedDecl"]["name"]
        if f.get("kind") == "MemberExpr" and f.get("name") == "status_fp":
            bk, _, _ = self.pexpr(inner(f)[0])
            if bk == "config":
                return "->status_fp"
        raise Untranslatable("callee " + str(f.get("kind")))

    def arg_kind(self, a):
        q = qtype(a)
        kd = kind_of_type(q)
        if kd == "void":
            s = strip(a)
            if s.get("kind") == "DeclRefExpr":
                return self.vars.get(s["referencedDecl"]["name"])
            return "int"      # an opaque handle held in a field (status_fp_data)
        return kd

    def call(self, c, result, nxt):
        """c: CallExpr; result: Coq binder for its value; nxt: () -> term for what follows (heap variable h)"""
        name = self.callee_name(c)
        args = inner(c)[1:]
        if name in DROPPED:
            return nxt()
        guards = []
        if name in self.mknown:
            ts = []
            for a, pk in zip(args, self.mknown[name]["params"]):
                if pk == "config":
                    kd, _, _ = self.pexpr(a)
                    if kd != "config":
                        raise Untranslatable("configuration argument")
                    continue
                if pk == "int":
                    g, t = self.expr(a)
                else:
                    kd, g, t = self.pexpr(a)
                    if kd == "null" and pk == "group":
                        kd = "group"
                    if kd != pk:
                        raise Untranslatable("argument of kind %s for a %s parameter" % (kd, pk))
                guards += g
                ts.append(t)
            body = "mbind (%s_gen %s h) (fun %s h =>\n%s)" % (name, " ".join(ts), result, nxt())
            return self.mguarded(guards, body)
        if name in EXTERNAL or name == "->status_fp":
            ts = []
            if name == "->status_fp":
                guards.append('(z2b (hcf h "status_fp"))')      # a call through a NULL function pointer
            for a in args:
                kd = self.arg_kind(a)
                if kd == "int":
                    g, t = self.expr(a)
                    ts.append("AInt %s" % t)
                elif kd in ("group", "sock"):
                    kk, g, t = self.pexpr(a)
                    ts.append("%s %s" % ("AGroup" if kd == "group" else "ASock", t))
                else:
                    raise Untranslatable("argument of kind %s for %s" % (kd, name))
                guards += g
            body = 'MCall "%s" [%s] h (fun %s h =>\n%s)' % (name.replace("->", ""), "; ".join(ts), result, nxt())
            return self.mguarded(guards, body)
        raise Untranslatable("call of " + name)

    def mguarded(self, guards, body):
        seen = []
        for g in guards:
            if g not in seen:
                seen.append(g)
        for g in reversed(seen):
            body = "mguard %s (\n%s)" % (g, body)
        return body

    def branch(self, f):
        """translate with f() and put the variable environment back afterwards"""
        sv, sc, sl = dict(self.vars), list(self.scope), set(self.locals)
        t = f()
        self.vars, self.scope, self.locals = sv, sc, sl
        return t

    def cond_with_call(self, n, kt, kf):
        """if (n) kt else kf, n containing at most one call, at a position where C evaluates it conditionally or first"""
        if not has_call(n):
            g, t = self.cond(n)
            return self.mguarded(g, "if %s\nthen (%s)\nelse (%s)" % (t, self.branch(kt), self.branch(kf)))
        m = strip(n, casts=("LValueToRValue", "NoOp", "IntegralToBoolean", "IntegralCast"))
        k = m.get("kind")
        if k == "UnaryOperator" and m.get("opcode") == "!":
            return self.cond_with_call(inner(m)[0], kf, kt)
        if k == "BinaryOperator" and m.get("opcode") in ("&&", "||"):
            a, b = inner(m)
            if has_call(a):
                raise Untranslatable("call in the left operand of " + m["opcode"])
            g, t = self.cond(a)
            if m["opcode"] == "&&":
                body = "if %s\nthen (%s)\nelse (%s)" % (t, self.cond_with_call(b, kt, kf), self.branch(kf))
            else:
                body = "if %s\nthen (%s)\nelse (%s)" % (t, self.branch(kt), self.cond_with_call(b, kt, kf))
            return self.mguarded(g, body)
        if k == "BinaryOperator" and m.get("opcode") in ("==", "!=", "<", ">", "<=", ">="):
            a, b = inner(m)
            ca = strip(a, casts=("LValueToRValue", "NoOp", "IntegralCast"))
            if ca.get("kind") == "CallExpr" and not has_call(b):
                gb, tb = self.expr(b)
                op = {"==": "(%s =? %s)", "!=": "(negb (%s =? %s))", "<": "(%s <? %s)", ">": "(%s >? %s)",
                      "<=": "(%s <=? %s)", ">=": "(%s >=? %s)"}[m["opcode"]]
                self.fresh += 1
                r = "r__%d" % self.fresh
                body = self.call(ca, r, lambda: "if %s\nthen (%s)\nelse (%s)" % (op % (r, tb), self.branch(kt), self.branch(kf)))
                return self.mguarded(gb, body)
            raise Untranslatable("comparison with a call on the right")
        if k == "CallExpr":
            self.fresh += 1
            r = "r__%d" % self.fresh
            return self.call(m, r, lambda: "if (z2b %s)\nthen (%s)\nelse (%s)" % (r, self.branch(kt), self.branch(kf)))
        raise Untranslatable("call inside a condition of kind " + str(k))

    # -- results ------------------------------------------------------------------------
    def ret(self, term):
        if term is None:
            term = "0"
        if self.loop is not None:
            return "MRet (Some %s, %s) h" % (term, self.carried_tuple())
        return "MRet %s h" % term

    def rtype(self):
        return "gptr" if self.ret_kind == "group" else "Z"

    def carried_type(self, names):
        if not names:
            return "unit"
        return "(" + " * ".join("Z" for _ in names) + ")"

    # -- loops ----------------------------------------------------------------------------
    def make_loop(self, idx, body_stmts, count, nxt, undo):
        """emit a loop function for body_stmts (index binder idx : nat), call it with `count` trips, continue with nxt"""
        body_node = {"kind": "CompoundStmt", "inner": body_stmts}
        outer_ints = [nm for (nm, kd) in self.scope if kd == "int"]
        carried = [x for x in assigned_locals(body_node) if x in outer_ints]
        self.nloops += 1
        lname = "%s__loop%d" % (self.name, self.nloops)
        params = [(nm, kd) for (nm, kd) in self.scope if nm != idx]
        ptxt = " ".join("(%s : %s)" % (gname(nm), COQ_TY[kd]) for nm, kd in params)
        pcall = " ".join(gname(nm) for nm, _ in params)
        saved_loop, saved_break = self.loop, self.break_k
        sv, sc, sl = dict(self.vars), list(self.scope), set(self.locals)
        self.loop = carried
        self.break_k = [lambda: "MRet (None, %s) h" % self.carried_tuple(carried)]
        self.vars[idx] = "idx"
        rec = lambda: "%s n__ (S %s) %s h" % (lname, gname(idx), pcall)  # noqa: E731
        body = self.stmts(body_stmts, rec)
        self.loop, self.break_k = saved_loop, saved_break
        self.vars, self.scope, self.locals = sv, sc, sl
        undo()
        ctype = self.carried_type(carried)
        self.aux.append(
            "Fixpoint %s (n__ : nat) (%s : nat) %s (h : mheap) {struct n__} : meff (option %s * %s) :=\n"
            "match n__ with\n| O => MRet (None, %s) h\n| S n__ =>\n%s\nend.\n"
            % (lname, gname(idx), ptxt, self.rtype(), ctype, self.carried_tuple(carried), body))
        return ("mbind (%s %s O %s h) (fun lr__ h =>\nmatch lr__ with\n| (Some r__, _) => %s\n| (None, %s) =>\n%s\nend)"
                % (lname, count, pcall, self.ret("r__"), self.carried_tuple(carried), nxt()))

    def for_loop(self, s, nxt):
        ins = s.get("inner", [])
        if len(ins) != 5:
            raise Untranslatable("for statement of an unknown shape")
        init, _, cnd, inc, body = ins
        try:
            d = inner(init)[0]
            iv = d["name"]
            zero = strip(inner(d)[0], casts=("IntegralCast", "NoOp"))
            ok = init.get("kind") == "DeclStmt" and len(inner(init)) == 1 and zero.get("kind") == "IntegerLiteral" and zero["value"] == "0"
            a, b = inner(cnd)
            a, b = strip(a), strip(b)
            ok = ok and cnd.get("opcode") == "<" and a["referencedDecl"]["name"] == iv and b.get("kind") == "MemberExpr" and b["name"] == "sockets_len"
            ok = ok and inc.get("kind") == "UnaryOperator" and inc.get("opcode") == "++" and strip(inner(inc)[0])["referencedDecl"]["name"] == iv
        except (KeyError, IndexError, TypeError, ValueError):
            ok = False
        if not ok:
            raise Untranslatable("for loop that is not `for (unsigned i = 0; i < G->sockets_len; i++)`")
        gk, gg, gt = self.pexpr(inner(b)[0])
        gbase = strip(inner(b)[0])
        if gk != "group" or gg or gbase.get("kind") != "DeclRefExpr":
            raise Untranslatable("for loop over the sockets of something that is not a group variable")
        gvar = gbase["referencedDecl"]["name"]
        if iv in assigned_locals(body) or gvar in assigned_locals(body):
            raise Untranslatable("for loop whose body assigns its index or its group")
        if any(x.get("kind") == "ContinueStmt" for x in walk_nodes(body)):
            raise Untranslatable("continue")
        # every use of the index is G->sockets[i]
        uses = refs(body, iv)
        subs = 0
        for x in walk_nodes(body):
            if x.get("kind") == "ArraySubscriptExpr":
                aa, ii = strip(inner(x)[0]), strip(inner(x)[1])
                if ii.get("kind") == "DeclRefExpr" and ii["referencedDecl"]["name"] == iv and aa.get("kind") == "MemberExpr" \
                        and aa.get("name") == "sockets" and strip(inner(aa)[0]).get("kind") == "DeclRefExpr" \
                        and strip(inner(aa)[0])["referencedDecl"]["name"] == gvar:
                    subs += 1
        if uses != subs:
            raise Untranslatable("loop index used other than as %s->sockets[%s]" % (gvar, iv))
        self.fors.append((iv, gt))
        body_stmts = inner(body) if body.get("kind") == "CompoundStmt" else [body]
        t = self.make_loop(iv, body_stmts, "(hscount h %s)" % gt, nxt, lambda: self.fors.pop())
        return self.mguarded(["(hg_ok h %s)" % gt], t)

    def walk_loop(self, decl, wh, nxt):
        d = inner(decl)[0]
        node = d["name"]
        init = strip(inner(d)[0]) if inner(d) else {}
        ok = init.get("kind") == "CallExpr" and self.callee(init) == "tommy_list_head"
        if ok:
            a = strip(inner(init)[1])
            ok = a.get("kind") == "UnaryOperator" and a.get("opcode") == "&"
            lst = strip(inner(a)[0]) if ok else {}
            ok = ok and lst.get("kind") == "MemberExpr" and lst.get("name") == "list"
            grp = strip(inner(lst)[0]) if ok else {}
            ok = ok and grp.get("kind") == "MemberExpr" and grp.get("name") == "groups" and self.pexpr(inner(grp)[0])[0] == "config"
        if not ok:
            raise Untranslatable("node variable not initialised by tommy_list_head(&config->groups->list)")
        c, body = inner(wh)
        c = strip(c)
        if not (c.get("kind") == "DeclRefExpr" and c["referencedDecl"]["name"] == node and body.get("kind") == "CompoundStmt"):
            raise Untranslatable("while loop that is not `while (node)`")
        bs = inner(body)
        if len(bs) < 2:
            raise Untranslatable("walk body too short")
        first, last = bs[0], bs[-1]
        ok = first.get("kind") == "DeclStmt" and len(inner(first)) == 1 and kind_of_type(qtype(inner(first)[0])) == "gnode"
        if ok:
            gn = inner(first)[0]["name"]
            fi = strip(inner(inner(first)[0])[0])
            ok = fi.get("kind") == "MemberExpr" and fi.get("name") == "data" and strip(inner(fi)[0]).get("kind") == "DeclRefExpr" \
                and strip(inner(fi)[0])["referencedDecl"]["name"] == node
        if ok:
            ok = last.get("kind") == "BinaryOperator" and last.get("opcode") == "="
            l, r = (strip(x) for x in inner(last)) if ok else ({}, {})
            ok = ok and l.get("kind") == "DeclRefExpr" and l["referencedDecl"]["name"] == node and r.get("kind") == "MemberExpr" \
                and r.get("name") == "next" and strip(inner(r)[0]).get("kind") == "DeclRefExpr" \
                and strip(inner(r)[0])["referencedDecl"]["name"] == node
        if not ok:
            raise Untranslatable("walk body that does not start with `gn = node->data` and end with `node = node->next`")
        mid = {"kind": "CompoundStmt", "inner": bs[1:-1]}
        if refs(mid, node) != 0:
            raise Untranslatable("node used inside the walk body")
        gn_uses = refs(mid, gn)
        gn_group = sum(1 for x in walk_nodes(mid) if x.get("kind") == "MemberExpr" and x.get("name") == "group"
                       and strip(inner(x)[0]).get("kind") == "DeclRefExpr" and strip(inner(x)[0])["referencedDecl"]["name"] == gn)
        if gn_uses != gn_group:
            raise Untranslatable("group node used other than as ->group")
        if any(x.get("kind") == "ContinueStmt" for x in walk_nodes(mid)):
            raise Untranslatable("continue")
        if self.walk is not None:
            raise Untranslatable("nested walk")
        idx = "node__"
        self.vars[gn] = "gnode"
        self.walk = (node, gn, gname(idx))

        def undo():
            self.walk = None
        return self.make_loop(idx, bs[1:-1], "(hnodes h)", nxt, undo)

    # -- statements -------------------------------------------------------------------------
    def stmts(self, lst, k):
        if not lst:
            return k()
        s, rest = lst[0], lst[1:]
        kind = s.get("kind")
        nxt = lambda: self.stmts(rest, k)  # noqa: E731
        if kind == "CompoundStmt":
            return self.stmts(inner(s) + rest, k)
        if kind == "NullStmt":
            return nxt()
        if kind == "CallExpr":
            return self.call(s, "_", nxt)
        if kind == "DeclStmt":
            ds = inner(s)
            if len(ds) != 1 or ds[0].get("kind") != "VarDecl":
                raise Untranslatable("declaration statement")
            d = ds[0]
            kd = kind_of_type(qtype(d))
            nm = d["name"]
            ini = inner(d)[0] if inner(d) else None
            if kd == "node":
                if not rest or rest[0].get("kind") != "WhileStmt":
                    raise Untranslatable("node variable without a while loop behind it")
                after = rest[1:]
                if refs({"kind": "CompoundStmt", "inner": after}, nm) != 0:
                    raise Untranslatable("node variable used after its loop")
                return self.walk_loop(s, rest[0], lambda: self.stmts(after, k))
            if kd == "config":
                if ini is None or self.pexpr(ini)[0] != "config":
                    raise Untranslatable("configuration pointer from something else")
                self.vars[nm] = "config"
                return nxt()
            if kd == "group":
                if ini is None:
                    raise Untranslatable("uninitialised pointer")
                si = strip(ini)
                if si.get("kind") == "CallExpr":
                    self.declare(nm, "group")
                    return self.call(si, gname(nm), nxt)
                pk, g, t = self.pexpr(ini)
                if pk not in ("group", "null"):
                    raise Untranslatable("group pointer from a " + pk)
                self.declare(nm, "group")
                return self.mguarded(g, "let %s : gptr := %s in\n%s" % (gname(nm), t, nxt()))
            if kd == "int":
                if ini is None:
                    self.declare(nm, "int")
                    return "let %s := 0 in\n%s" % (gname(nm), nxt())
                si = strip(ini, casts=("LValueToRValue", "NoOp", "IntegralCast"))
                if si.get("kind") == "CallExpr":
                    self.declare(nm, "int")
                    return self.call(si, gname(nm), nxt)
                g, t = self.expr(ini)
                self.declare(nm, "int")
                return self.mguarded(g, "let %s := %s in\n%s" % (gname(nm), t, nxt()))
            raise Untranslatable("local %s of type %s" % (nm, qtype(d)))
        if kind == "BinaryOperator" and s.get("opcode") == "=":
            l, r = inner(s)
            l = strip(l)
            if l.get("kind") == "DeclRefExpr" and self.vars.get(l["referencedDecl"]["name"]) == "int":
                g, t = self.expr(r)
                return self.mguarded(g, "let %s := %s in\n%s" % (gname(l["referencedDecl"]["name"]), t, nxt()))
            if l.get("kind") == "MemberExpr" and l.get("name") in GROUP_FIELDS:
                pk, gp, tp = self.pexpr(inner(l)[0])
                if pk != "group":
                    raise Untranslatable("store into a " + pk)
                g, t = self.expr(r)
                return self.mguarded(g + gp + ["(hg_ok h %s)" % tp],
                                     'let h := hgset h %s "%s" %s in\n%s' % (tp, l["name"], t, nxt()))
            raise Untranslatable("assignment to " + str(l.get("kind")))
        if kind == "ReturnStmt":
            ins = inner(s)
            if not ins:
                return self.ret(None)
            if self.ret_kind == "group":
                pk, g, t = self.pexpr(ins[0])
                if pk not in ("group", "null"):
                    raise Untranslatable("returned pointer of kind " + pk)
                return self.mguarded(g, self.ret(t))
            if has_call(ins[0]):
                raise Untranslatable("call in a return statement")
            g, t = self.expr(ins[0])
            return self.mguarded(g, self.ret(t))
        if kind == "BreakStmt":
            if not self.break_k:
                raise Untranslatable("break outside loop and switch")
            return self.break_k[-1]()
        if kind == "IfStmt":
            ins = inner(s)
            th = ins[1]
            el = ins[2] if len(ins) > 2 else None
            kt = lambda: self.stmts([th], nxt)  # noqa: E731
            kf = (lambda: self.stmts([el], nxt)) if el is not None else nxt
            if not has_call(ins[0]) and self.effect_free(th) and (el is None or self.effect_free(el)):
                self.cond(ins[0])      # must be translatable; it has no effect (guards: see effect_free)
                return nxt()
            return self.cond_with_call(ins[0], kt, kf)
        if kind == "ForStmt":
            return self.for_loop(s, nxt)
        if kind == "SwitchStmt":
            return self.switch(s, nxt)
        raise Untranslatable("statement " + str(kind))

    def effect_free(self, s):
        """a statement that only calls dropped functions (debug output)"""
        for x in walk_nodes(s):
            kd = x.get("kind")
            if kd == "CallExpr":
                try:
                    if self.callee_name(x) not in DROPPED:
                        return False
                except Untranslatable:
                    return False
                continue
            if kd in ("BinaryOperator", "CompoundAssignOperator") and x.get("opcode", "").endswith("=") \
                    and x["opcode"] not in ("==", "!=", "<=", ">="):
                return False
            if kd in ("ReturnStmt", "BreakStmt", "ContinueStmt", "GotoStmt", "UnaryOperator") and \
                    (kd != "UnaryOperator" or x.get("opcode") in ("++", "--")):
                return False
        # everything under a dropped call is ignored, so only the call statements themselves remain
        return all(y.get("kind") in ("CompoundStmt", "CallExpr", "NullStmt") for y in
                   ([s] + (inner(s) if s.get("kind") == "CompoundStmt" else [])))

    def switch(self, s, nxt):
        ins = inner(s)
        g, tx = self.expr(ins[0])
        if has_call(ins[0]):
            raise Untranslatable("call in the switch expression")
        items = []

        def flat(n):
            kk = n.get("kind")
            if kk == "CaseStmt":
                cins = inner(n)
                gv, tv = self.expr(cins[0])
                items.append(("case", tv))
                flat(cins[-1])
            elif kk == "DefaultStmt":
                items.append(("case", None))
                flat(inner(n)[-1])
            else:
                items.append(("stmt", n))
        if ins[1].get("kind") != "CompoundStmt":
            raise Untranslatable("switch body")
        for c in inner(ins[1]):
            flat(c)
        saved_loop_break = self.break_k
        self.break_k = self.break_k + [nxt]

        def arm(p):
            seq = []
            for it in items[p:]:
                if it[0] == "stmt":
                    if it[1].get("kind") == "BreakStmt":
                        break
                    seq.append(it[1])
            return self.branch(lambda: self.stmts(seq, nxt))
        default = None
        chain = []
        for p, it in enumerate(items):
            if it[0] == "case":
                if it[1] is None:
                    default = arm(p)
                else:
                    chain.append((it[1], arm(p)))
        if default is None:
            default = self.branch(nxt)
        self.break_k = saved_loop_break
        body = default
        for v, t in reversed(chain):
            body = "if (sw__ =? %s)\nthen (%s)\nelse (%s)" % (v, t, body)
        return self.mguarded(g, "let sw__ := %s in\n%s" % (tx, body))

    # -- the function ---------------------------------------------------------------------------
    def function(self, mutates=False):
        fn = self.fn
        rq = qtype(fn).split("(")[0].strip()
        self.ret_kind = "void" if rq == "void" else kind_of_type(rq)
        if self.ret_kind not in ("void", "int", "group"):
            raise Untranslatable("result type " + rq)
        body = [c for c in inner(fn) if c.get("kind") == "CompoundStmt"][0]
        params = [c for c in inner(fn) if c.get("kind") == "ParmVarDecl"]
        pk = []
        for p in params:
            kd = kind_of_type(qtype(p))
            if kd == "void":
                # a `void *` parameter gets the kind of the local pointer it initialises (its only use)
                kd = None
                for x in walk_nodes(body):
                    if x.get("kind") == "VarDecl" and inner(x):
                        i0 = strip(inner(x)[0])
                        if i0.get("kind") == "DeclRefExpr" and i0["referencedDecl"]["name"] == p["name"]:
                            kd = kind_of_type(qtype(x))
                if kd not in ("group", "config") or refs(body, p["name"]) != 1:
                    raise Untranslatable("void * parameter " + p["name"])
            if kd not in ("int", "group", "sock", "config"):
                raise Untranslatable("parameter %s of type %s" % (p["name"], qtype(p)))
            pk.append(kd)
            if kd == "config":
                self.vars[p["name"]] = "config"
            else:
                self.declare(p["name"], kd)
        end = (lambda: "MRet 0 h") if self.ret_kind == "void" else (lambda: "MUndef")
        term = self.stmts(inner(body), end)
        ptxt = " ".join("(%s : %s)" % (gname(p["name"]), COQ_TY[kd]) for p, kd in zip(params, pk) if kd != "config")
        text = "".join(a + "\n" for a in self.aux)
        text += "Definition %s_gen %s (h : mheap) : meff %s :=\n%s.\n" % (self.name, ptxt, self.rtype(), term)
        return text, {"params": pk, "ret": self.ret_kind}


def generate_mgr():
    """text of Gen/GeneratedMgr.v and the list of problems"""
    out, problems = [], []
    w = out.append
    w("(* GENERATED by tools/c2v_mgr.py from rtrlib/rtr_mgr.c - do not edit.")
    w("   Data model, effects, loops: see the header of tools/c2v_mgr.py and Mgr/MgrEff.v.")
    w("   Dropped as no-ops: %s.  External calls (MCall nodes): %s, status_fp. *)" % (", ".join(sorted(DROPPED)), ", ".join(sorted(EXTERNAL))))
    w("From RtrV Require Import Base.CSem Mgr.MgrEff.")
    w("Local Open Scope string_scope.\nLocal Open Scope Z_scope.\n")
    enums = {}
    for hfile, en in MGR_ENUMS:
        try:
            vals = c2v.enum_values(hfile, en)
            w("(* %s : enum %s *)" % (hfile, en))
            for name, val in vals:
                enums[name] = val
                w("Definition mgr_c_%s : Z := %d." % (name, val))
            w("")
        except Exception as e:  # noqa: BLE001
            problems.append("enum %s: %s" % (en, e))
    known = {}
    for fname in MGR_FUNCS:
        try:
            fn = find_def(CFILE, fname)
            if fn is None:
                raise Untranslatable("definition not found")
            tr = TrMgr(fn, known, enums)
            text, sig = tr.function()
            known[fname] = sig
            w("(* %s : %s *)" % (CFILE, fname))
            w(text)
        except Exception as e:  # noqa: BLE001
            problems.append("function %s: %s: %s" % (fname, type(e).__name__, e))
            w("(* %s could not be translated: %s *)" % (fname, str(e).replace("*)", "* )")))
            w("Definition %s_untranslated := tt.\n" % fname)
    w("Definition mgr_translator_problems : list string := [%s]." % "; ".join(c2v.coq_string(p[:200]) for p in problems))
    return "\n".join(out) + "\n", problems


def main():
    path = sys.argv[1] if len(sys.argv) > 1 else MGR_OUT
    try:
        text, problems = generate_mgr()
    except Exception as e:  # noqa: BLE001
        print("c2v_mgr: generator failed:", e)
        return 1
    c2v.write_if_changed(path, text, os.path.basename(path))
    for p in problems:
        print("c2v_mgr: problem:", p)
    return 0


if __name__ == "__main__":
    sys.exit(main())
