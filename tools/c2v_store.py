#!/usr/bin/env python3
"""c2v_store.py - translate the functions of rtrlib/rtr/packets.c that turn ONE stored PDU into a table operation
(property C03) from clang's AST into Coq.

    python3 tools/c2v_store.py [output.v]      (writes coq/theories/Gen/GeneratedStore.v, only if its text changes)
Library use (hook for c2v.main()):  import c2v_store; text, problems = c2v_store.generate_store()

Translated:
  record builders (memory mode with stores, class TrRec < c2v.TrMemW; vocabulary Base/Mem.v, Base/MemW.v)
      rtr_prefix_pdu_2_pfx_record, rtr_key_pdu_2_spki_record
  table operations (effect mode with memory, class TrStore < TrRec; vocabulary Base/Eff.v, Base/EffMem.v)
      rtr_update_pfx_table, rtr_update_spki_table, rtr_undo_update_pfx_table, rtr_undo_update_spki_table
over rtr_get_pdu_type of Gen/GeneratedMem.v (reused, not translated again).

REPRESENTATION
  * The stored PDU is a MEMORY OBJECT  (m_pdu : list Z) (v_pdu : option Z): the bytes as they lie in the temporary PDU
    array (host byte order: the receive path has converted header and body), read with loads guarded by ld_ok at the
    struct offsets of c2v's probe (offsetof_pdu_ipv4__flags ... of Gen/Generated.v).
  * The RECORD being built (struct pfx_record pfxr / struct spki_record entry) is a MEMORY OBJECT too - a local of
    sizeof(struct ...) bytes, `zeros` before the first store (C: indeterminate; padding stays 0) - written with
    guarded stores (stu / mcopy under st_ok) at the offsets of THIS module's probe (offsetof_pfx_record__asn ...,
    emitted at the top of the output).  A memory object, not a field store, because struct lrtr_ip_addr holds a UNION:
    u.addr4.addr and u.addr6.addr[0] are the same four bytes, which only bytes can say.  A member of a union has
    offset 0 (C11 6.7.2.1p16).
  * `struct rtr_socket *rtr_socket` is, in the record builders, the HANDLE (h_rtr_socket : Z) - the address, stored into
    the record's `socket` field as 8 bytes - and in the table operations the handle plus the field store
    (v_rtr_socket : store) of effect mode.
  * `struct pfx_table *` / `struct spki_table *` parameters are opaque handles (v_<p> : Z), passed on to the callee.
  * EXTERNAL CALLS are ECall nodes.  Argument list = concatenation, in C argument order, of
        - nothing for the socket pointer (it is the store slot of the node),
        - [handle] for a table pointer,
        - sbuf m p = (number of bytes from the pointer to the end of its object) :: those bytes
          for a pointer into a known object (the PDU, &record, a text array); [0] for NULL,
        - [value] for an integer.
    So  pfx_table_add(pfx_table, &pfxr)  is  ECall "pfx_table_add" ([v_pfx_table] ++ sbuf m_pfxr (Some 0)):
    the callee receives the record - every byte of it, hence every field.  Result list: [return value].
    rtr_send_error_pdu_from_host / rtr_change_socket_state have the layout of c2v.TrEff2 (Rtr/FsmTie2.v).
  * lrtr_dbg (RTR_DBG / RTR_DBG1) and lrtr_ip_addr_to_str are NO-OPS, their arguments are not evaluated;
    lrtr_ip_addr_to_str writes only the local array handed to it, which must not be mentioned anywhere else but in
    no-op calls (checked) - so `char ip[INET6_ADDRSTRLEN]` is not even declared in the output.
  * `const char txt[] = "..."` : let m_txt : list Z := [bytes; 0]   (as c2v.TrEff2).
  * assert(c) : guard c / eguard c.
  * An `if` never joins its branches: the code behind it is emitted once per branch.
A function that cannot be translated comes out as `Definition <f>_untranslated := tt.` plus an entry of
`store_translator_problems`; no exception leaves generate_store().
"""
import json
import os
import re
import sys

sys.path.insert(0, "/verif/tools")
import c2v   # noqa: E402
import vlib  # noqa: E402

from c2v import Untranslatable, inner, int_type, is_ptr_type, gname  # noqa: E402

STORE_OUT = os.path.join(vlib.THEORIES, "Gen", "GeneratedStore.v")
CFILE = "rtrlib/rtr/packets.c"
REC_LEAFS = ["rtr_prefix_pdu_2_pfx_record", "rtr_key_pdu_2_spki_record"]
OP_LEAFS = ["rtr_undo_update_pfx_table", "rtr_undo_update_spki_table", "rtr_update_pfx_table", "rtr_update_spki_table"]
# (struct, file whose AST names its fields)
STORE_STRUCTS = [("pfx_record", CFILE), ("lrtr_ip_addr", CFILE), ("lrtr_ipv4_addr", CFILE), ("lrtr_ipv6_addr", CFILE),
                 ("spki_record", CFILE)]
STORE_ENUMS = [("rtrlib/lib/ip.c", "lrtr_ip_version")]
NOOPS = {"lrtr_dbg", "printf", "lrtr_ip_addr_to_str"}
CASTS = ("ImplicitCastExpr", "ParenExpr", "CStyleCastExpr")
SOCK_RE = re.compile(r"^(?:const )?struct rtr_socket \*(?:const)?$")
TABLE_RE = re.compile(r"^(?:const )?struct (?:pfx_table|spki_table) \*(?:const)?$")


def strip(n, kinds=CASTS):
    while n.get("kind") in kinds and inner(n):
        n = inner(n)[0]
    return n


def qtype(n):
    t = n.get("type") or {}
    return (t.get("desugaredQualType") or t.get("qualType", "")).strip()


# ---------------------------------------------------------------------------
# probe: sizes and offsets of the record structs
# ---------------------------------------------------------------------------
def run_store_probe():
    src = os.path.join(vlib.BUILD, "probe_store.c")
    os.makedirs(vlib.BUILD, exist_ok=True)
    lines = ['#include "rtrlib/rtr/packets.c"', "#include <stdio.h>", "#include <stddef.h>", "int main(void){"]
    for s, cfile in STORE_STRUCTS:
        lines.append(' printf("S %s %%lld\\n", (long long)sizeof(struct %s));' % (s, s))
        for fld in c2v.record_fields(cfile, s) or []:
            lines.append(' printf("O %s.%s %%lld\\n", (long long)offsetof(struct %s, %s));' % (s, fld, s, fld))
    lines.append(' printf("S ptr_rtr_socket %lld\\n", (long long)sizeof(const struct rtr_socket *));')
    lines.append(" return 0; }")
    text = "\n".join(lines) + "\n"
    if not os.path.exists(src) or open(src).read() != text:
        tmp = src + ".%d" % os.getpid()
        with open(tmp, "w") as f:
            f.write(text)
        os.replace(tmp, src)
    exe = vlib.build_harness("probe_store", src, includes_repo_c=(CFILE,), opt="-O0")
    rc, out = vlib.sh([exe], timeout=60)
    if rc != 0:
        raise ValueError("store probe failed: " + out)
    vals = {}
    for line in out.split("\n"):
        p = line.split()
        if len(p) == 3 and p[0] in ("S", "O"):
            vals[(p[0], p[1])] = int(p[2])
    return vals


# ---------------------------------------------------------------------------
# record builders: memory mode with stores + socket handle + union members
# ---------------------------------------------------------------------------
class TrRec(c2v.TrMemW):
    def __init__(self, fn, known, enums, sizes, written=None):
        c2v.TrMemW.__init__(self, fn, known, enums, sizes, {}, written=written)
        self.handles = {}         # parameter -> Coq variable holding the pointer's value as a number

    def field_offset(self, n):
        base = inner(n)[0]
        bq = qtype(base)
        bt = c2v.pointee(bq) if n.get("isArrow") else bq.replace("const ", "").strip()
        if bt.startswith("union "):
            return "0"            # every member of a union starts at its beginning
        return c2v.TrMemW.field_offset(self, n)

    def header(self, params):
        ptrs = [p for p in params if is_ptr_type(qtype(p)) and not SOCK_RE.match(qtype(p))]
        objs, vals, kinds = [], [], []
        for p in params:
            self.locals.add(p["name"])
            q = qtype(p)
            if SOCK_RE.match(q):
                self.handles[p["name"]] = "h_" + p["name"]
                vals.append("(h_%s : Z)" % p["name"])
                kinds.append("handle")
            elif int_type(q) or int_type(p["type"]["qualType"]):
                vals.append("(%s : Z)" % gname(p["name"]))
                kinds.append("Z")
            elif is_ptr_type(q):
                o = "m_" + p["name"]
                objs.append(o)
                self.param_objs.append(o)
                self.obj_of[p["name"]] = o
                self.ptr_locals.add(p["name"])
                vals.append("(%s : option Z)" % gname(p["name"]))
                kinds.append("ptr")
            else:
                raise Untranslatable("parameter type " + q)
        del ptrs
        sig = " ".join((["(%s : list Z)" % " ".join(objs)] if objs else []) + vals)
        return sig, kinds

    def handle_of(self, n):
        r = strip(n)
        if r.get("kind") == "DeclRefExpr" and r["referencedDecl"]["name"] in self.handles:
            return self.handles[r["referencedDecl"]["name"]]
        return None

    def stmts(self, lst, k):
        if lst:
            s, rest = lst[0], lst[1:]
            if s.get("kind") == "BinaryOperator" and s.get("opcode") == "=" and is_ptr_type(qtype(s)):
                lhs, rhs = inner(s)
                h = self.handle_of(rhs)
                if h is not None and self.through_pointer(strip(lhs, ("ParenExpr",))):
                    # record->socket = rtr_socket : the pointer's value, sizeof(pointer) bytes
                    size = self.sizes.get(("S", "ptr_rtr_socket"))
                    if not size:
                        raise Untranslatable("size of a socket pointer unknown")
                    ga, p = self.paddr(lhs)
                    m = self.objof(lhs)
                    self.note_write(m)
                    body = "let %s := stu %s %s %d %s in\n%s" % (m, m, p, size, h, self.stmts(rest, k))
                    return self.guarded(ga + ["(st_ok %s %s %d)" % (m, p, size)], body)
        return c2v.TrMemW.stmts(self, lst, k)

    def function(self, mutates=False):
        fn = self.fn
        params = [c for c in inner(fn) if c.get("kind") == "ParmVarDecl"]
        body = [c for c in inner(fn) if c.get("kind") == "CompoundStmt"][0]
        sig, kinds = self.header(params)
        rq = fn["type"]["qualType"].split("(")[0].strip()
        self.void = rq == "void"
        if not self.void and not int_type(rq):
            raise Untranslatable("return type " + rq)
        self.result_kind = "Z"
        self.rq = rq
        term = self.stmts([body], lambda: self.ret(None) if self.void else "None (* falls off the end *)")
        if self.written is None:
            w = set(o for o in self.param_objs if o in self.seen_writes)
            return TrRec(fn, self.known, self.enums, self.sizes, written=w).function()
        info = {"kinds": kinds, "objs": list(self.param_objs), "written": [o for o in self.param_objs if o in self.written],
                "void": self.void}
        return "Definition %s_gen %s : option %s :=\n%s.\n" % (fn["name"], sig, self.result_type(), term), info


# ---------------------------------------------------------------------------
# table operations: effect trees
# ---------------------------------------------------------------------------
class TrStore(TrRec):
    def __init__(self, fn, known, rec_known, enums, sizes):
        TrRec.__init__(self, fn, known, enums, sizes, written=set())
        self.rec_known = rec_known      # record builders: name -> info
        self.sock = None
        self.dead = set()               # local arrays that only no-op calls mention
        self.texts = {}                 # string-initialised arrays: name -> length

    # -- helpers ---------------------------------------------------------------
    def eguarded(self, guards, body):
        for g in reversed(guards):
            body = "eguard %s (%s)" % (g, body)
        return body

    def mentions_outside_noops(self, n, name):
        k = n.get("kind")
        if k == "CallExpr" and self.callee(n) in NOOPS:
            return False
        if k == "DeclRefExpr" and n.get("referencedDecl", {}).get("name") == name:
            return True
        return any(self.mentions_outside_noops(c, name) for c in n.get("inner", []))

    def has_call(self, n):
        if n.get("kind") == "CallExpr" and self.callee(n) not in c2v.BSWAP:
            return True
        return any(self.has_call(c) for c in inner(n))

    def pure(self, n, what):
        if self.has_call(n):
            raise Untranslatable("call inside " + what)
        return n

    def ret_term(self, t):
        rt = int_type(self.rq)
        return "ERet (%s %d %s) %s" % ("wraps" if rt[1] else "wrapu", rt[0], t, gname(self.sock))

    # -- external calls ----------------------------------------------------------
    def ext_args(self, c):
        g, parts = [], []
        for a in inner(c)[1:]:
            r = strip(a)
            q = qtype(a)
            if r.get("kind") == "DeclRefExpr" and r["referencedDecl"]["name"] == self.sock:
                continue
            if r.get("kind") == "DeclRefExpr" and r["referencedDecl"]["name"] in self.handles:
                parts.append("[%s]" % self.handles[r["referencedDecl"]["name"]])
                continue
            if "NullToPointer" in json.dumps(a) and c2v.is_null_ptr(a):
                parts.append("[(0)]")
                continue
            if is_ptr_type(q) or r.get("kind") == "DeclRefExpr" and r["referencedDecl"]["name"] in self.arr_locals:
                ga, p = self.pexpr(a)
                g += ga
                parts.append("(sbuf %s %s)" % (self.objof(a), p))
                continue
            ga, t = self.expr(self.pure(a, "an argument"))
            g += ga
            parts.append("[%s]" % t)
        return g, "(" + " ++ ".join(parts) + ")%list" if parts else "[]"

    def emit_ext(self, c, var, nxt):
        """external call c; var = the integer local that receives its value (or None)"""
        name = self.callee(c)
        if name is None:
            raise Untranslatable("call through a pointer")
        g, args = self.ext_args(c)
        sv = gname(self.sock)
        bind = ""
        if var is not None:
            bind = "let %s := nth 0%%nat res__ 0 in\n" % gname(var)
        return self.eguarded(g, 'ECall "%s" %s %s (fun res__ %s =>\n%s%s)' % (name, args, sv, sv, bind, nxt()))

    def emit_rec(self, c, nxt):
        """call of a record builder: eopt (<f>_gen objects... values...) (fun written objects => ...)"""
        name = self.callee(c)
        info = self.rec_known[name]
        args = inner(c)[1:]
        if len(args) != len(info["kinds"]):
            raise Untranslatable("argument count of " + name)
        g, objs, vals = [], [], []
        for a, kind in zip(args, info["kinds"]):
            if kind == "handle":
                r = strip(a)
                if not (r.get("kind") == "DeclRefExpr" and r["referencedDecl"]["name"] == self.sock):
                    raise Untranslatable("%s: the socket argument is not the socket" % name)
                vals.append(self.handles[self.sock])
            elif kind == "ptr":
                ga, p = self.pexpr(a)
                g += ga
                objs.append(self.objof(a))
                vals.append(p)
            else:
                ga, t = self.expr(self.pure(a, "an argument"))
                g += ga
                vals.append(t)
        if len(set(objs)) != len(objs):
            raise Untranslatable("aliased objects handed to " + name)
        wr = [objs[info["objs"].index(o)] for o in info["written"]]
        if not info["void"]:
            raise Untranslatable("record builder with a value")
        pat = "_" if not wr else (wr[0] if len(wr) == 1 else "'(%s)" % ", ".join(wr))
        return self.eguarded(g, "eopt (%s_gen %s) (fun %s =>\n%s)" % (name, " ".join(objs + vals), pat, nxt()))

    # -- statements --------------------------------------------------------------
    def stmts(self, lst, k):
        if not lst:
            return k()
        s, rest = lst[0], lst[1:]
        kind = s.get("kind")
        nxt = lambda: self.stmts(rest, k)  # noqa: E731
        if kind == "CompoundStmt":
            return self.stmts(inner(s) + rest, k)
        if kind == "NullStmt":
            return nxt()
        if kind == "DeclStmt":
            ds = inner(s)
            if len(ds) != 1 or ds[0].get("kind") != "VarDecl":
                raise Untranslatable("declaration shape")
            d = ds[0]
            q = qtype(d)
            ins = inner(d)
            name = d["name"]
            m = re.fullmatch(r"(?:const )?char\s*\[(\d+)\]", q)
            if m and ins and strip(ins[0]).get("kind") == "StringLiteral":
                bs = list(json.loads(strip(ins[0])["value"]).encode("latin-1")) + [0]
                if len(bs) != int(m.group(1)):
                    raise Untranslatable("string initialiser of %s: length" % name)
                self.locals.add(name)
                self.arr_locals[name] = ("m_" + name, len(bs))
                return "let m_%s : list Z := [%s] in\n%s" % (name, "; ".join(str(b) for b in bs), nxt())
            if m and not ins:
                # an array that only no-op calls mention is dead
                if any(self.mentions_outside_noops(st, name) for st in rest):
                    raise Untranslatable("local array %s is used outside the no-op calls" % name)
                self.dead.add(name)
                return nxt()
            sm = re.fullmatch(r"struct (\w+)", q)
            if sm and not ins:
                if ("S", sm.group(1)) not in self.sizes:
                    raise Untranslatable("size of struct %s unknown" % sm.group(1))
                self.locals.add(name)
                self.arr_locals[name] = ("m_" + name, self.sizes[("S", sm.group(1))])
                return "let m_%s := zeros sizeof_%s in\n%s" % (name, sm.group(1), nxt())
            if int_type(q) or int_type(d["type"]["qualType"]):
                self.locals.add(name)
                if not ins:
                    return "let %s := 0 in\n%s" % (gname(name), nxt())
                init = ins[0]
                call = strip(init)
                if call.get("kind") == "CallExpr" and self.callee(call) in self.known:
                    # a function of GeneratedMem.v applied to a known object
                    g, t = c2v.TrMemW.call_term(self, call)
                    val, n0 = "r__", init
                    casts = []
                    while n0 is not call:
                        if n0.get("kind") != "ParenExpr" and n0.get("castKind") == "IntegralCast":
                            casts.append(n0)
                        n0 = inner(n0)[0]
                    for cst in reversed(casts):
                        val = self.wrap(cst, val)
                    return self.eguarded(g, "eopt %s (fun r__ =>\nlet %s := %s in\n%s)" % (t, gname(name), val, nxt()))
                g, t = self.expr(self.pure(init, "an initialiser"))
                return self.eguarded(g, "let %s := %s in\n%s" % (gname(name), t, nxt()))
            raise Untranslatable("local of type " + q)
        if kind == "ReturnStmt":
            ins = inner(s)
            if not ins:
                raise Untranslatable("return without a value")
            g, t = self.expr(self.pure(ins[0], "a return value"))
            return self.eguarded(g, self.ret_term(t))
        if kind == "IfStmt":
            ins = inner(s)
            c, th = ins[0], ins[1]
            el = ins[2] if len(ins) > 2 else None
            g, tc = self.cond(self.pure(c, "a condition"))
            saved = (set(self.locals), dict(self.arr_locals), dict(self.obj_of), set(self.ptr_locals))

            def branch(b):
                self.locals, self.arr_locals, self.obj_of, self.ptr_locals = \
                    set(saved[0]), dict(saved[1]), dict(saved[2]), set(saved[3])
                return self.stmts([b], nxt) if b is not None else nxt()
            a = branch(th)
            b = branch(el)
            self.locals, self.arr_locals, self.obj_of, self.ptr_locals = \
                set(saved[0]), dict(saved[1]), dict(saved[2]), set(saved[3])
            return self.eguarded(g, "if %s\nthen (%s)\nelse (%s)" % (tc, a, b))
        if self.is_assert(s):
            c = self.assert_cond(s)
            if c is None:
                raise Untranslatable("assert shape")
            g, tc = self.cond(self.pure(c, "an assertion"))
            return self.eguarded(g + [tc], nxt())
        if kind == "CallExpr":
            name = self.callee(s)
            if name in NOOPS:
                return nxt()
            if name in self.rec_known:
                return self.emit_rec(s, nxt)
            return self.emit_ext(s, None, nxt)
        if kind == "BinaryOperator" and s.get("opcode") == "=":
            lhs, rhs = inner(s)
            ll = strip(lhs, ("ParenExpr",))
            if ll.get("kind") != "DeclRefExpr" or ll["referencedDecl"]["name"] not in self.locals \
                    or not (int_type(qtype(ll)) or int_type(ll["type"]["qualType"])):
                raise Untranslatable("assignment to something else than an integer local")
            var = ll["referencedDecl"]["name"]
            rr = strip(rhs)
            if rr.get("kind") == "CallExpr" and self.callee(rr) not in c2v.BSWAP:
                if self.callee(rr) in NOOPS or self.callee(rr) in self.rec_known or self.callee(rr) in self.known:
                    raise Untranslatable("value of a call to " + str(self.callee(rr)))
                n0 = rhs
                while n0 is not rr:
                    if n0.get("kind") != "ParenExpr" and n0.get("castKind") not in ("NoOp",):
                        raise Untranslatable("conversion of a callee's value")
                    n0 = inner(n0)[0]
                return self.emit_ext(rr, var, nxt)
            g, t = self.expr(rhs)
            return self.eguarded(g, "let %s := %s in\n%s" % (gname(var), t, nxt()))
        raise Untranslatable("statement " + str(kind))

    # -- whole function ------------------------------------------------------------
    def function(self, mutates=False):
        fn = self.fn
        params = [c for c in inner(fn) if c.get("kind") == "ParmVarDecl"]
        body = [c for c in inner(fn) if c.get("kind") == "CompoundStmt"][0]
        objs, vals = [], []
        for p in params:
            q = qtype(p)
            self.locals.add(p["name"])
            if SOCK_RE.match(q):
                if self.sock is not None:
                    raise Untranslatable("two sockets")
                self.sock = p["name"]
                self.handles[p["name"]] = "h_" + p["name"]
            elif TABLE_RE.match(q):
                self.handles[p["name"]] = gname(p["name"])
                vals.append("(%s : Z)" % gname(p["name"]))
            elif is_ptr_type(q):
                o = "m_" + p["name"]
                objs.append(o)
                self.param_objs.append(o)
                self.obj_of[p["name"]] = o
                self.ptr_locals.add(p["name"])
                vals.append("(%s : list Z) (%s : option Z)" % (o, gname(p["name"])))
            elif int_type(q) or int_type(p["type"]["qualType"]):
                vals.append("(%s : Z)" % gname(p["name"]))
            else:
                raise Untranslatable("parameter type " + q)
        if self.sock is None:
            raise Untranslatable("no socket parameter")
        rq = fn["type"]["qualType"].split("(")[0].strip()
        if not int_type(rq):
            raise Untranslatable("return type " + rq)
        self.rq = rq
        self.void = False
        self.result_kind = "Z"
        term = self.stmts([body], lambda: "EUndef (* falls off the end *)")
        if self.seen_writes & set(self.param_objs):
            raise Untranslatable("store into the object of a parameter")
        sig = " ".join(vals + ["(h_%s : Z) (%s : store)" % (self.sock, gname(self.sock))])
        return "Definition %s_gen %s : eff :=\n%s.\n" % (fn["name"], sig, term)


# ---------------------------------------------------------------------------
def generate_store():
    """-> (text of Gen/GeneratedStore.v, problems)"""
    out, problems = [], []
    w = out.append
    w("(* GENERATED by tools/c2v_store.py from the repository sources - do not edit. *)")
    w("From RtrV Require Import Base.CSem Base.Mem Base.MemW Base.Eff Base.EffMem Gen.Generated Gen.GeneratedMem.")
    w("Local Open Scope string_scope.\nLocal Open Scope Z_scope.\n")
    known, enums, sizes = {}, {}, {}
    try:
        if "known" not in c2v._MEM_CTX:
            _, mp = c2v.generate_mem()
            problems += ["GeneratedMem: " + p for p in mp]
        known = dict(c2v._MEM_CTX.get("known", {}))
        enums = dict(c2v._MEM_CTX.get("enums", {}))
        sizes = dict(c2v._MEM_CTX.get("sizes", {}))
    except Exception as e:  # noqa: BLE001
        problems.append("memory-mode context: %s" % e)
    if sizes.get(("E", "little_endian")) != 1:
        problems.append("host is not little-endian: loads and stores are not modelled")
    for cfile, en in STORE_ENUMS:
        try:
            for n, v in c2v.enum_values(cfile, en):
                if n not in enums:
                    w("Definition c_%s : Z := %d." % (n, v))
                    enums[n] = v
        except Exception as e:  # noqa: BLE001
            problems.append("enum %s: %s" % (en, e))
    try:
        extra = run_store_probe()
        for (kind, name), v in sorted(extra.items()):
            if (kind, name) in sizes and sizes[(kind, name)] != v:
                problems.append("probe disagreement on %s %s" % (kind, name))
            if (kind, name) not in sizes:
                if kind == "S":
                    w("Definition sizeof_%s : Z := %d." % (name, v))
                else:
                    w("Definition offsetof_%s : Z := %d." % (name.replace(".", "__"), v))
            sizes[(kind, name)] = v
    except Exception as e:  # noqa: BLE001
        problems.append("store probe: %s" % str(e)[:300])
    w("")
    w("(* a pointer into a known object, handed to an untranslated callee: what the callee can read from there *)")
    w("Definition sbuf (m : list Z) (p : ptr) : list Z := Z.of_nat (List.length (mfrom m p)) :: mfrom m p.\n")
    rec_known = {}
    for fname in REC_LEAFS:
        try:
            fn = c2v.find_def(CFILE, fname)
            if fn is None:
                raise Untranslatable("definition not found")
            text, info = TrRec(fn, known, enums, sizes).function()
            rec_known[fname] = info
            w("(* %s : %s *)" % (CFILE, fname))
            w(text)
        except Exception as e:  # noqa: BLE001
            problems.append("function %s: %s" % (fname, e))
            w("(* %s could not be translated: %s *)" % (fname, str(e).replace("*)", "* )")))
            w("Definition %s_untranslated := tt.\n" % fname)
    for fname in OP_LEAFS:
        try:
            fn = c2v.find_def(CFILE, fname)
            if fn is None:
                raise Untranslatable("definition not found")
            text = TrStore(fn, known, rec_known, enums, sizes).function()
            w("(* %s : %s *)" % (CFILE, fname))
            w(text)
        except Exception as e:  # noqa: BLE001
            problems.append("function %s: %s" % (fname, e))
            w("(* %s could not be translated: %s *)" % (fname, str(e).replace("*)", "* )")))
            w("Definition %s_untranslated := tt.\n" % fname)
    w("Definition store_translator_problems : list string := [%s]." % "; ".join(c2v.coq_string(p[:200]) for p in problems))
    return "\n".join(out) + "\n", problems


def main():
    text, problems = generate_store()
    path = sys.argv[1] if len(sys.argv) > 1 else STORE_OUT
    c2v.write_if_changed(path, text, os.path.basename(path))
    for p in problems:
        print("c2v_store: problem:", p)
    return 0


if __name__ == "__main__":
    sys.exit(main())
