#!/bin/sh
# run every claimed check once (tier $1, default quick) and print a one-line summary each
tier=${1:-quick}
cd /verif
for p in $(python3 -c "import json;print(' '.join(c['property_id'] for c in json.load(open('MANIFEST.json'))['checks']))"); do
  timeout 3600 python3 tools/check.py $p $tier 2>&1 | grep -E "VIOLATION|KNOWN-FINDING|^\[C" 
done
