ENGINES = [
    {"name": "coq-proof+correspondence", "path": "/verif/tools/check.py",
     "serves_properties": [],
     "kind_free_text": "Coq 8.16.1 development under /verif/coq (theorems in theories/Props), translator tools/c2v.py, extracted OCaml model, C harnesses in /verif/harness built from /repo's working tree"},
]
ALL = ["C%02d" % i for i in range(1, 21)]
CHECKS = [
    {"id": "C20",
     "text": "Coq theorems over the translator's output (both enums, both name tables, both function bodies, regenerated from /repo on every run): every enumerator maps to its name, every other 32-bit value to NULL, no table read out of range. The real functions are additionally run under ASan on every enumerator and on values outside.",
     "note": "Trusted: Coq kernel, tools/c2v.py + clang AST, 32-bit enum objects, LP64. No axioms.",
     "technique": "Coq proof over code translated to Gallina on every run (translator tie) + ASan differential run"},
]
_claimed = set(c["id"] for c in CHECKS)
NOT_APPLICABLE = [{"property_id": p, "reason": "not yet claimed: check under construction (see DESIGN.md build order); not a statement that proof cannot apply"} for p in ALL if p not in _claimed]
for e in ENGINES:
    e["serves_properties"] = sorted(_claimed)
