ENGINES = [
    {"name": "coq-proof+correspondence", "path": "/verif/tools/check.py",
     "serves_properties": [],
     "kind_free_text": "Coq 8.16.1 development under /verif/coq (theorems in theories/Props), translator tools/c2v.py, extracted OCaml model, C harnesses in /verif/harness built from /repo's working tree"},
]
ALL = ["C%02d" % i for i in range(1, 21)]
CHECKS = [
    {"id": "C01",
     "text": "Coq theorems, for every history of add/remove/remove-by-source from the empty table (induction over op lists with the trie invariant WF, any address width) and every query: validation state = RFC 6811 over the set of records; reason records as specified; the traversal meets no undefined bit access. Model tied to /repo by exact, ordered differential execution of the extracted model against pfx_ops.c built from the working tree (asserts, ASan, UBSan) and by the translated lrtr_get_bits.",
     "note": "Trusted: Coq kernel, extraction (ExtrOcamlBasic), harness, generators. Modelled not verified: trie.c/trie-pfx.c restated by hand in Pfx/TrieModel.v; the uint32 bit arithmetic of lrtr_get_bits/lrtr_ipv6_get_bits is related to the model's list-of-bits view by correspondence only. Locking is C16's business. No axioms.",
     "technique": "Coq proof (invariant + refinement to RFC 6811 spec) + extracted-model/impl correspondence + spec oracle"},
    {"id": "C02",
     "text": "Coq theorems: every history keeps both tries well-formed, result codes equal the set spec's, the in-order enumeration is a duplicate-free permutation of the spec set, rejected operations leave the table unchanged, remove-by-source terminates (fuel = node count suffices). Tie as C01.",
     "note": "As C01. Allocation failure paths (PFX_ERROR) are C18's business and not in this model.",
     "technique": "Coq proof (refinement of the trie to a set, induction over histories) + correspondence"},
    {"id": "C09",
     "text": "Coq theorems: for every history of public operations the concatenated callback stream replays (strictly: an add of a present or a removal of an absent record is an error) from the empty set to exactly the table contents; pfx_table_free reports every record once. Tie: the harness installs update_fp and the callback stream is compared in order with the model's and replayed independently into a set that must equal the enumeration.",
     "note": "As C01. Reload diff (copy_except/swap/notify_diff) and rollback inside rtr_sync are exercised by the correspondence run; their theorems are listed in evidence when present.",
     "technique": "Coq proof (callback replay = contents, induction over histories) + correspondence"},
    {"id": "C10",
     "text": "Coq theorems, for any hash function and any initial size, about an executable model of tommy_hashlin (incremental grow/shrink) and ht-spkitable.c: hashlin and table invariants preserved over all histories; exact return codes, no change on duplicate/unknown; lookups by (AS,SKI) and by SKI are exactly the stored records; remove-by-source/copy/swap/notify_diff in closed form; callbacks replay to the contents, removal by source included (C10_full_holds, after /repo fix 4808153).",
     "note": "Trusted: Coq kernel; c2v.py for tommy_inthash_u32/TOMMY_HASHLIN_BIT/spki_rtvals; correspondence harness spki_ops.c (ASan+UBSan) vs extracted model, python set oracle. Assumes <2^28 records, no allocation failure (C18), distinct table arguments, single thread. No axioms.",
     "technique": "Coq proof over hand model + differential correspondence (extracted OCaml vs real C, order-exact) + set-oracle search with delta-debugged replays"},
    {"id": "C19",
     "text": "Coq theorems over a Gallina model written after the C loops of ipv4.c/ipv6.c/ip.c: round trip for every IPv4/IPv6 address, output in an RFC 4291 grammar, grammar included in the library parser with equal result, buffer bounds, determinism of the parse result (for the parser as repaired by /repo fix 7b79e06; the variant of the pinned commit is kept and refuted with the witness \"1:2:3\"). Tie: extracted model vs real functions (ASan, stack-prefill, MemorySanitizer) on 14.5k/343k lines per run; the grammar's reference parsers vs inet_pton on every string.",
     "note": "Trusted: Coq kernel, ExtrOcamlBasic, glibc sscanf/snprintf semantics as modelled (validated per run), inet_pton as platform oracle (agreement with it is differential testing, not proof), harness. No axioms.",
     "technique": "Coq proof (closed vm_compute sweeps lifted to forall) + differential correspondence + oracle search with shrinking"},
    {"id": "C15",
     "text": "Coq theorems by induction over arbitrary operation lists (any number of groups/sockets) over an executable model of rtr_mgr.c: init/add/remove rejections, ascending order invariant, newly-ESTABLISHED only if every socket synced, closing of all less-preferred groups, no upward shutdown, failover to the first closed group. Tied to /repo on every run by line-by-line differential execution against the real rtr_mgr.c (rtr_start/rtr_stop link-time stubs checked side by side against the real functions); thorough tier exhaustive over all 1..3x1..2 configurations (state-merged BFS). The model carries the pinned-commit variant (two clauses refuted with replayed witnesses) and the repaired variant (/repo fixes e25b98f, 58f5da3), and the check selects the one the code matches.",
     "note": "Trusted: Coq kernel, hand-written MgrModel.v (tied by correspondence), link-time stubs, tommy list as Coq list, serialised callbacks (concurrent rtr_mgr_cb of two socket threads not covered). No axioms.",
     "technique": "Coq invariant proof over an executable model + exhaustive/sampled differential correspondence with the shipped C + independent per-clause trace oracle"},
    {"id": "C11",
     "text": "Coq theorems: the bytes hashed for every hop of a path of any length equal the RFC 8205 digest (spec written from the RFC by recursion on the segment lists), the encoding is injective on all signed fields, exact stream size under the C integer widths, validate = VALID iff for every hop some key with the segment's SKI AND AS verifies (C11_full_after_fix; the SKI-only variant of the pinned commit is kept and refuted), specific codes in priority order and never VALID. The check detects on every run which validator variant /repo matches.",
     "note": "Partial: 'changing any signed bit makes the answer not VALID' is C11_inj plus two named crypto hypotheses (SHA-256 collision freedom, signature binds hash) - not facts about the code. Tied per run to the real library + OpenSSL: sizes, aligned bytes, per-iteration hashed bytes, return codes; independent signer = extracted spec + EVP; single-bit flips, wrong-AS keys, RFC 8208 vectors. Bounds: total digest < 65536 bytes, < 256 hops (C integer widths). Trusted: Coq kernel, OpenSSL, hand-written model. No axioms (crypto functions are Section variables).",
     "technique": "Coq proof + extracted-model/real-library correspondence + independent-signer oracle"},
    {"id": "C12",
     "text": "Coq theorems: the SIGNING-mode byte stream equals the RFC 8205 signing digest, its size, the error codes in priority order, and the round trip: a path built hop by hop from generated signatures validates VALID (both validator variants). Library signatures are verified over the extracted spec's octets by OpenSSL EVP independently of the library, by the openssl CLI and strict DER parsing.",
     "note": "Partial as C11: the matching sign/verify pair, key loading and signature length are hypotheses of the round-trip theorem (Section variables), OpenSSL is trusted. No axioms.",
     "technique": "Coq proof + extracted-model/real-library correspondence + independent verifier oracle"},
    {"id": "C20",
     "text": "Coq theorems over the translator's output (both enums, both name tables, both function bodies, regenerated from /repo on every run): every enumerator maps to its name, every other 32-bit value to NULL, no table read out of range. The real functions are additionally run under ASan on every enumerator and on values outside.",
     "note": "Trusted: Coq kernel, tools/c2v.py + clang AST, 32-bit enum objects, LP64. No axioms.",
     "technique": "Coq proof over code translated to Gallina on every run (translator tie) + ASan differential run"},
]
_claimed = set(c["id"] for c in CHECKS)
NOT_APPLICABLE = [{"property_id": p, "reason": "not yet claimed: check under construction (see DESIGN.md build order); not a statement that proof cannot apply"} for p in ALL if p not in _claimed]
for e in ENGINES:
    e["serves_properties"] = sorted(_claimed)
