#!/usr/bin/env python3
"""setup: regenerate Gen/Generated.v from /repo, build the whole Coq development (full .vo build),
extract and compile the OCaml model driver.  Offline; writes only under /verif."""
import os, sys
sys.path.insert(0, os.path.dirname(os.path.abspath(__file__)))
import vlib
rc, out = vlib.regenerate()
print(out)
vlib.coq_project()
rc, out = vlib.sh(vlib.coq_make_cmd(), cwd=vlib.COQ, timeout=3400)
print(out[-4000:])
if rc != 0:
    print("setup: coq build reported errors (checks will report them per property)")
try:
    if os.path.exists(os.path.join(vlib.THEORIES, "Extract", "Extract.v")):
        print("model driver:", vlib.build_model())
except vlib.BuildError as e:
    print("setup: model build failed:", e)
sys.exit(0)
