#!/usr/bin/env python3
"""covreport.py [ids...]  -  how much of /repo's code does the correspondence tie actually execute?

Runs the quick tier of the given checks (default: all) with VERIF_COV=1: every harness is rebuilt from /repo's working
tree with gcov instrumentation (-O0 --coverage, objects under build/covobj, evidence redirected to build/covevidence),
the same generators and corpora run, and the line / branch counters of all runs are summed per source line of
rtrlib/ and third-party/tommyds.  Output: coverage/REPORT.md (summary per file and per anchored function, every line
of the anchored files that no correspondence input reached) and coverage/coverage.json.

This is a measurement of generator quality (which code the differential tie is blind to), not a check: it decides no
property and writes no evidence file.  Lines reached only by a sanitizer abort are not counted (no counter dump)."""
import glob
import gzip
import json
import os
import re
import subprocess
import sys
import time

VERIF = os.path.dirname(os.path.dirname(os.path.abspath(__file__)))
REPO = os.environ.get("VERIF_REPO", "/repo")
COVOBJ = os.path.join(VERIF, "build", "covobj")
OUT = os.path.join(VERIF, "coverage")

FILES = ["rtrlib/rtr/packets.c", "rtrlib/rtr/rtr.c", "rtrlib/rtr_mgr.c", "rtrlib/pfx/trie/trie.c", "rtrlib/pfx/trie/trie-pfx.c",
         "rtrlib/spki/hashtable/ht-spkitable.c", "rtrlib/lib/ip.c", "rtrlib/lib/ipv4.c", "rtrlib/lib/ipv6.c", "rtrlib/lib/utils.c",
         "rtrlib/lib/alloc_utils.c", "rtrlib/lib/convert_byte_order.c", "rtrlib/transport/transport.c",
         "rtrlib/bgpsec/bgpsec.c", "rtrlib/bgpsec/bgpsec_utils.c", "third-party/tommyds/tommyhashlin.c",
         "third-party/tommyds/tommylist.c", "third-party/tommyds/tommylist.h", "third-party/tommyds/tommychain.h",
         "third-party/tommyds/tommyhashlin.h"]


def all_ids():
    m = json.load(open(os.path.join(VERIF, "MANIFEST.json")))
    return [c["property_id"] for c in m["checks"]]


def run_checks(ids, keep=False):
    for f in ([] if keep else glob.glob(os.path.join(COVOBJ, "*.gcda"))):
        os.unlink(f)
    env = dict(os.environ, VERIF_COV="1")
    procs = []
    t0 = time.time()
    # three at a time: the stress harnesses of C06/C16/C18 want cores of their own
    pending = list(ids)
    results = {}
    while pending or procs:
        while pending and len(procs) < 3:
            i = pending.pop(0)
            procs.append((i, subprocess.Popen([sys.executable, os.path.join(VERIF, "tools", "check.py"), i, "quick"], env=env,
                                              stdout=subprocess.PIPE, stderr=subprocess.STDOUT, text=True)))
        for i, p in list(procs):
            if p.poll() is not None:
                out = p.stdout.read()
                results[i] = (p.returncode, [l for l in out.split("\n") if l.startswith("[") or "VIOLATION" in l][-2:])
                procs.remove((i, p))
                print("  %s rc=%d %s" % (i, p.returncode, results[i][1]), flush=True)
        time.sleep(1)
    print("checks under coverage: %.0fs" % (time.time() - t0))
    return results


def collect():
    lines = {}      # file -> line -> count
    branches = {}   # file -> line -> list of counts (summed index-wise)
    funcs = {}      # file -> name -> (start, end, count)
    gcdas = glob.glob(os.path.join(COVOBJ, "*.gcda"))
    for g in gcdas:
        r = subprocess.run(["gcov", "-b", "-c", "--json-format", "--stdout", g], cwd=COVOBJ, capture_output=True, text=True)
        for doc in r.stdout.split("\n"):
            doc = doc.strip()
            if not doc.startswith("{"):
                continue
            try:
                j = json.loads(doc)
            except ValueError:
                continue
            for f in j.get("files", []):
                path = os.path.normpath(os.path.join(j.get("current_working_directory", ""), f["file"]))
                if not path.startswith(REPO + "/"):
                    continue
                rel = os.path.relpath(path, REPO)
                L = lines.setdefault(rel, {})
                B = branches.setdefault(rel, {})
                F = funcs.setdefault(rel, {})
                for ln in f.get("lines", []):
                    n = ln["line_number"]
                    L[n] = L.get(n, 0) + ln["count"]
                    bs = [b["count"] for b in ln.get("branches", []) if not b.get("throw")]
                    if bs:
                        old = B.get(n)
                        if old is None or len(old) != len(bs):
                            B[n] = bs if old is None else [a + b for a, b in zip(old, bs)] + (bs[len(old):] if len(bs) > len(old) else old[len(bs):])
                        else:
                            B[n] = [a + b for a, b in zip(old, bs)]
                for fn in f.get("functions", []):
                    o = F.get(fn["name"])
                    F[fn["name"]] = (fn["start_line"], fn["end_line"], (o[2] if o else 0) + fn["execution_count"])
    return lines, branches, funcs, len(gcdas)


def report(lines, branches, funcs, ngcda, results):
    os.makedirs(OUT, exist_ok=True)
    head = subprocess.run(["git", "-C", REPO, "rev-parse", "--short", "HEAD"], capture_output=True, text=True).stdout.strip()
    md = ["# Code reached by the correspondence inputs (quick tier), /repo %s" % head, "",
          "Produced by `python3 tools/covreport.py`; %d counter files; checks run: %s." % (ngcda, " ".join(sorted(results))),
          "Line = executed at least once by some harness run of some check; branch = outcome taken at least once.",
          "Code that no input reaches is code on which Impl and Model were never compared.", "",
          "| file | lines hit | branch outcomes hit | functions never entered |", "|---|---|---|---|"]
    js = {}
    detail = []
    for rel in FILES:
        L = lines.get(rel)
        if not L:
            md.append("| %s | (not instrumented / never loaded) | | |" % rel)
            continue
        tot = len(L)
        hit = sum(1 for c in L.values() if c > 0)
        B = branches.get(rel, {})
        btot = sum(len(v) for v in B.values())
        bhit = sum(1 for v in B.values() for c in v if c > 0)
        never = sorted(n for n, (s, e, c) in funcs.get(rel, {}).items() if c == 0)
        md.append("| %s | %d/%d (%.0f%%) | %d/%d (%.0f%%) | %s |" % (rel, hit, tot, 100.0 * hit / max(tot, 1), bhit, btot,
                                                                   100.0 * bhit / max(btot, 1), ", ".join(never) or "-"))
        js[rel] = {"lines": tot, "lines_hit": hit, "branches": btot, "branches_hit": bhit, "functions_never": never,
                   "unhit_lines": sorted(n for n, c in L.items() if c == 0),
                   "partial_branches": {str(n): v for n, v in sorted(B.items()) if any(c == 0 for c in v)}}
        src = open(os.path.join(REPO, rel), errors="replace").read().split("\n")
        fl = sorted((s, e, n) for n, (s, e, c) in funcs.get(rel, {}).items())

        def fn_of(n):
            for s, e, name in fl:
                if s <= n <= e:
                    return name
            return "?"
        un = [n for n in sorted(L) if L[n] == 0]
        pb = [n for n, v in sorted(B.items()) if L.get(n, 0) > 0 and any(c == 0 for c in v)]
        if un or pb:
            detail.append("\n## %s\n" % rel)
            if un:
                detail.append("Lines never executed:\n")
                detail.append("```")
                for n in un:
                    detail.append("%5d [%s] %s" % (n, fn_of(n), src[n - 1].strip()[:110] if n <= len(src) else ""))
                detail.append("```")
            if pb:
                detail.append("\nExecuted lines with a branch outcome never taken (counts per outcome):\n")
                detail.append("```")
                for n in pb:
                    detail.append("%5d [%s] %s   %s" % (n, fn_of(n), src[n - 1].strip()[:90] if n <= len(src) else "", B[n]))
                detail.append("```")
    with open(os.path.join(OUT, "REPORT.md"), "w") as f:
        f.write("\n".join(md + detail) + "\n")
    with open(os.path.join(OUT, "coverage.json"), "w") as f:
        json.dump({"repo_head": head, "checks": {k: v[0] for k, v in results.items()}, "files": js}, f, indent=1, sort_keys=True)
    print("\n".join(md))


def main():
    args = sys.argv[1:]
    keep = "--keep" in args          # add to the counters of earlier runs instead of starting from zero
    ids = [a for a in args if not a.startswith("--")] or all_ids()
    if "--collect-only" in args:
        results = {}
    else:
        results = run_checks(ids, keep)
    lines, branches, funcs, n = collect()
    report(lines, branches, funcs, n, results)
    return 0


if __name__ == "__main__":
    sys.exit(main())
